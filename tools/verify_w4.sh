#!/bin/bash
# usage: verify_w4.sh C02 [C03 ...]  -- wave-4 mutations in /tmp/wt/out4/<id>/{a,b}, stored as <id>_e / <id>_f
cd /verif
for id in "$@"; do for x in a b; do
  S=/tmp/wt/out4/$id/$x; P=$S/patch.diff; [ -f $S/patch_ported.diff ] && P=$S/patch_ported.diff
  [ -f $P ] || { echo "=== $id $x: no patch"; continue; }
  n=e; [ $x = b ] && n=f
  echo "=== $id $x -> ${id}_$n"; tools/verify_seed.py $id $x --src $S --patch $P --name ${id}_$n 2>&1 | grep -E '"confirmed"|"rc"|^\s+"\[|ANALYSIS|DOES NOT|suite|demo_.*rc' | cut -c1-260
done; done
