#!/bin/bash
# Re-bases the stored patches (seeded/*, benign/*) onto /repo's HEAD after a fix commit moved their context.
# usage: tools/rebase_patches.sh   (uses a scratch worktree under /tmp, removed afterwards)
WT=/tmp/rb_wt
git -C /repo worktree remove --force $WT 2>/dev/null
git -C /repo worktree add -q --detach $WT HEAD || exit 2
fail=0
for d in /verif/seeded/* /verif/benign/*; do
  p=$d/patch.diff
  [ -f "$p" ] || continue
  git -C $WT checkout -q -- . ; git -C $WT clean -fdq
  if git -C $WT apply --check "$p" 2>/dev/null; then continue; fi
  if git -C $WT apply --3way "$p" >/dev/null 2>&1 && ! git -C $WT diff --name-only --diff-filter=U | grep -q .; then
    git -C $WT reset -q
    git -C $WT diff > "$p"
    echo "rebased (3way): $d"
  else
    git -C $WT reset -q --hard
    if false; then
      find $WT -name "*.orig" -delete
      git -C $WT diff > "$p"
      echo "rebased (fuzz): $d"
    else
      find $WT -name "*.orig" -delete; find $WT -name "*.rej" -delete
      echo "NEEDS MANUAL REBASE: $d"; fail=1
    fi
  fi
done
git -C $WT checkout -q -- . ; git -C /repo worktree remove --force $WT
exit $fail
