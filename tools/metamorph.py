#!/venv/bin/python
"""metamorph.py [--n N] [--seed S] [--props C01,C02] [--kinds k1,k2] [--jobs J] [--keep DIR]

False-alarm fuzzer for the rules (not for FORD): applies mechanical, behaviour-preserving source transformations to a scratch
copy of /repo's ford/*.py - one transformation at one randomly chosen site per variant - and evaluates the quick-tier rules of
every property on the variant.  A VIOLATION or an ANALYSIS-ERROR that the unchanged tree does not have is a false alarm of the
rule set (the transformation cannot have changed behaviour).  Everything is deterministic in (seed, index).

Transformations (each is semantics-preserving by construction; sites where the side conditions cannot be established
syntactically are skipped):
  rename-local     a local variable of one function is renamed (not a parameter/global/nonlocal, not captured by a nested scope)
  swap-branches    `if c: A else: B`  ->  `if not (c): B else: A`          (plain if/else, no elif chain)
  hoist-test       `if <test>:`       ->  `t__ = <test>` + `if t__:`       (test without walrus; evaluated once, same place)
  flip-compare     `a == b` / `a != b` ->  `b == a` / `b != a`             (operands are names, attributes or constants)
  guard-continue   loop body ending in `if c: BODY` (no else)  ->  `if not (c): continue` + BODY
  split-and        `if a and b: BODY` (no else)  ->  `if a:` `if b: BODY`
  comp-to-loop     `x = [e for v in it if c]` (statement level)  ->  `x = []` + loop with append
  name-constant    a list/tuple display of string constants used in a membership test becomes a module-level constant
  tuple-to-list    `x in ("a", "b")`  ->  `x in ["a", "b"]` and vice versa
"""
import ast
import copy
import hashlib
import json
import os
import random
import shutil
import sys
import tempfile
from concurrent.futures import ProcessPoolExecutor
from pathlib import Path

V = Path(os.environ.get("SA_VERIF", "/verif"))
REPO = Path(os.environ.get("SA_REPO", "/repo"))
sys.path.insert(0, str(V))
PROPS = [f"C{i:02d}" for i in range(1, 21)]
FILES = ["sourceform.py", "reader.py", "utils.py", "fortran_project.py", "output.py", "graphs.py", "settings.py", "_markdown.py",
         "pagetree.py", "external_project.py", "fixed2free2.py", "__init__.py", "tipue_search.py"]


# --------------------------------------------------------------------------------------------------------------- helpers
def _functions(tree):
    return [n for n in ast.walk(tree) if isinstance(n, (ast.FunctionDef, ast.AsyncFunctionDef))]


def _own(fn):
    """nodes of fn that are not inside a nested function / class / lambda / comprehension"""
    out = []
    todo = list(ast.iter_child_nodes(fn))
    while todo:
        n = todo.pop()
        out.append(n)
        if isinstance(n, (ast.FunctionDef, ast.AsyncFunctionDef, ast.ClassDef, ast.Lambda, ast.ListComp, ast.SetComp, ast.DictComp, ast.GeneratorExp)):
            continue
        todo.extend(ast.iter_child_nodes(n))
    return out


def _simple(e):
    return isinstance(e, (ast.Name, ast.Constant)) or (isinstance(e, ast.Attribute) and _simple(e.value))


def _blocks(tree):
    """(owner node, field name, statement list) for every statement list"""
    for n in ast.walk(tree):
        for f in ("body", "orelse", "finalbody"):
            b = getattr(n, f, None)
            if isinstance(b, list) and b and isinstance(b[0], ast.stmt):
                yield n, f, b
        if isinstance(n, ast.Try):
            for h in n.handlers:
                yield h, "body", h.body


# ------------------------------------------------------------------------------------------------------- transformations
def t_rename_local(tree, rng):
    cands = []
    for fn in _functions(tree):
        own = _own(fn)
        params = {a.arg for a in fn.args.posonlyargs + fn.args.args + fn.args.kwonlyargs} | \
            ({fn.args.vararg.arg} if fn.args.vararg else set()) | ({fn.args.kwarg.arg} if fn.args.kwarg else set())
        declared = {x for n in own if isinstance(n, (ast.Global, ast.Nonlocal)) for x in n.names}
        stored = {n.id for n in own if isinstance(n, ast.Name) and isinstance(n.ctx, ast.Store)}
        # names used anywhere inside nested scopes of fn (closures, comprehensions): do not touch
        nested = set()
        for n in ast.walk(fn):
            if n is not fn and isinstance(n, (ast.FunctionDef, ast.AsyncFunctionDef, ast.ClassDef, ast.Lambda, ast.ListComp, ast.SetComp,
                                              ast.DictComp, ast.GeneratorExp)):
                nested |= {x.id for x in ast.walk(n) if isinstance(x, ast.Name)}
        uses_locals = any(isinstance(n, ast.Call) and isinstance(n.func, ast.Name) and n.func.id in ("locals", "vars", "eval", "exec") for n in own)
        if uses_locals:
            continue
        for v in sorted(stored - params - declared - nested):
            if v.startswith("_") or len(v) < 2:
                continue
            cands.append((fn, v))
    if not cands:
        return None
    fn, v = rng.choice(cands)
    new = v + "_r"
    if any(isinstance(n, ast.Name) and n.id == new for n in ast.walk(fn)):
        return None
    for n in _own(fn):
        if isinstance(n, ast.Name) and n.id == v:
            n.id = new
    return f"rename-local {fn.name}:{v}"


def t_swap_branches(tree, rng):
    cands = [n for n in ast.walk(tree) if isinstance(n, ast.If) and n.orelse and not (len(n.orelse) == 1 and isinstance(n.orelse[0], ast.If))
             and not any(isinstance(x, ast.NamedExpr) for x in ast.walk(n.test))]
    # an `elif` arm must not be swapped either: its parent's orelse is [this If]; swapping inside is fine semantically, keep it
    if not cands:
        return None
    n = rng.choice(cands)
    n.test = ast.UnaryOp(op=ast.Not(), operand=n.test)
    n.body, n.orelse = n.orelse, n.body
    return f"swap-branches line {n.lineno}"


def t_hoist_test(tree, rng):
    cands = []
    for owner, f, b in _blocks(tree):
        for i, st in enumerate(b):
            if isinstance(st, ast.If) and not any(isinstance(x, (ast.NamedExpr, ast.Await, ast.Yield)) for x in ast.walk(st.test)) and \
                    not isinstance(st.test, (ast.Name, ast.Constant)):
                # not an elif arm (those live in an orelse of length 1 whose parent is an If): hoisting would move the evaluation
                if isinstance(owner, ast.If) and f == "orelse" and len(b) == 1:
                    continue
                cands.append((b, i, st))
    if not cands:
        return None
    b, i, st = rng.choice(cands)
    name = f"test__{st.lineno}"
    asg = ast.Assign(targets=[ast.Name(id=name, ctx=ast.Store())], value=st.test)
    st.test = ast.Name(id=name, ctx=ast.Load())
    b.insert(i, ast.copy_location(asg, st))
    return f"hoist-test line {st.lineno}"


def t_flip_compare(tree, rng):
    cands = [n for n in ast.walk(tree) if isinstance(n, ast.Compare) and len(n.ops) == 1 and isinstance(n.ops[0], (ast.Eq, ast.NotEq))
             and _simple(n.left) and _simple(n.comparators[0])]
    if not cands:
        return None
    n = rng.choice(cands)
    n.left, n.comparators = n.comparators[0], [n.left]
    return f"flip-compare line {n.lineno}"


def t_guard_continue(tree, rng):
    cands = []
    for n in ast.walk(tree):
        if isinstance(n, (ast.For, ast.While)) and n.body and isinstance(n.body[-1], ast.If) and not n.body[-1].orelse and \
                not any(isinstance(x, ast.NamedExpr) for x in ast.walk(n.body[-1].test)):
            cands.append(n)
    if not cands:
        return None
    lp = rng.choice(cands)
    last = lp.body[-1]
    guard = ast.If(test=ast.UnaryOp(op=ast.Not(), operand=last.test), body=[ast.Continue()], orelse=[])
    lp.body = lp.body[:-1] + [ast.copy_location(guard, last)] + last.body
    return f"guard-continue line {lp.lineno}"


def t_split_and(tree, rng):
    cands = [n for n in ast.walk(tree) if isinstance(n, ast.If) and not n.orelse and isinstance(n.test, ast.BoolOp)
             and isinstance(n.test.op, ast.And) and len(n.test.values) == 2
             and not any(isinstance(x, ast.NamedExpr) for x in ast.walk(n.test))]
    if not cands:
        return None
    n = rng.choice(cands)
    a, b = n.test.values
    inner = ast.copy_location(ast.If(test=b, body=n.body, orelse=[]), n)
    n.test, n.body = a, [inner]
    return f"split-and line {n.lineno}"


def t_comp_to_loop(tree, rng):
    cands = []
    for owner, f, b in _blocks(tree):
        for i, st in enumerate(b):
            if isinstance(st, ast.Assign) and len(st.targets) == 1 and isinstance(st.targets[0], ast.Name) and \
                    isinstance(st.value, ast.ListComp) and len(st.value.generators) == 1 and not st.value.generators[0].is_async:
                tgt = st.targets[0].id
                comp = st.value
                # the target must not be read inside the comprehension, and the loop variable must not clash with a live name
                if any(isinstance(x, ast.Name) and x.id == tgt for x in ast.walk(comp)):
                    continue
                lv = {x.id for x in ast.walk(comp.generators[0].target) if isinstance(x, ast.Name)}
                fn = None
                for cand in _functions(tree):
                    if any(x is st for x in ast.walk(cand)):
                        fn = cand
                if fn is None:
                    continue
                others = {x.id for x in ast.walk(fn) if isinstance(x, ast.Name)} - {x.id for x in ast.walk(comp) if isinstance(x, ast.Name)}
                if lv & others:
                    continue
                cands.append((b, i, st))
    if not cands:
        return None
    b, i, st = rng.choice(cands)
    comp = st.value
    g = comp.generators[0]
    app = ast.Expr(value=ast.Call(func=ast.Attribute(value=ast.Name(id=st.targets[0].id, ctx=ast.Load()), attr="append", ctx=ast.Load()),
                                  args=[comp.elt], keywords=[]))
    body = [app]
    if g.ifs:
        test = g.ifs[0] if len(g.ifs) == 1 else ast.BoolOp(op=ast.And(), values=list(g.ifs))
        body = [ast.If(test=test, body=body, orelse=[])]
    loop = ast.For(target=g.target, iter=g.iter, body=body, orelse=[], type_comment=None)
    for t in ast.walk(loop.target):
        if isinstance(t, ast.Name):
            t.ctx = ast.Store()
    st.value = ast.List(elts=[], ctx=ast.Load())
    b.insert(i + 1, ast.copy_location(loop, st))
    return f"comp-to-loop line {st.lineno}"


def t_name_constant(tree, rng):
    cands = []
    for n in ast.walk(tree):
        if isinstance(n, ast.Compare) and len(n.ops) == 1 and isinstance(n.ops[0], (ast.In, ast.NotIn)):
            c = n.comparators[0]
            if isinstance(c, (ast.List, ast.Tuple)) and len(c.elts) >= 2 and all(isinstance(e, ast.Constant) and isinstance(e.value, str) for e in c.elts):
                cands.append(n)
    if not cands:
        return None
    n = rng.choice(cands)
    name = f"WORDS_{n.lineno}"
    table = ast.Tuple(elts=n.comparators[0].elts, ctx=ast.Load())
    n.comparators = [ast.Name(id=name, ctx=ast.Load())]
    asg = ast.Assign(targets=[ast.Name(id=name, ctx=ast.Store())], value=table)
    # after the imports / module docstring
    k = 0
    for k, st in enumerate(tree.body):
        if not (isinstance(st, (ast.Import, ast.ImportFrom)) or (isinstance(st, ast.Expr) and isinstance(st.value, ast.Constant))):
            break
    tree.body.insert(k, asg)
    return f"name-constant line {n.lineno}"


def t_tuple_to_list(tree, rng):
    cands = [n for n in ast.walk(tree) if isinstance(n, ast.Compare) and len(n.ops) == 1 and isinstance(n.ops[0], (ast.In, ast.NotIn))
             and isinstance(n.comparators[0], (ast.List, ast.Tuple)) and all(isinstance(e, ast.Constant) for e in n.comparators[0].elts)]
    if not cands:
        return None
    n = rng.choice(cands)
    c = n.comparators[0]
    n.comparators = [ast.List(elts=c.elts, ctx=ast.Load()) if isinstance(c, ast.Tuple) else ast.Tuple(elts=c.elts, ctx=ast.Load())]
    return f"tuple-to-list line {n.lineno}"


def t_roundtrip(tree, rng):
    """control: parse + unparse only (comments and layout are lost, nothing else)"""
    return "roundtrip"


TRANSFORMS = {
    "roundtrip": t_roundtrip,
    "rename-local": t_rename_local, "swap-branches": t_swap_branches, "hoist-test": t_hoist_test, "flip-compare": t_flip_compare,
    "guard-continue": t_guard_continue, "split-and": t_split_and, "comp-to-loop": t_comp_to_loop, "name-constant": t_name_constant,
    "tuple-to-list": t_tuple_to_list,
}


# ------------------------------------------------------------------------------------------------------------ evaluation
def make_variant(seed: int, index: int, kinds):
    rng = random.Random(f"{seed}:{index}")
    for _attempt in range(20):
        fname = rng.choice(FILES)
        kind = rng.choice(kinds)
        src = (REPO / "ford" / fname).read_text(encoding="utf-8")
        tree = ast.parse(src)
        what = TRANSFORMS[kind](tree, rng)
        if what is None:
            continue
        ast.fix_missing_locations(tree)
        try:
            new_src = ast.unparse(tree) + "\n"
            compile(new_src, fname, "exec")
        except Exception:
            continue
        return fname, f"{fname}: {what}", new_src
    return None


def run(args):
    seed, index, kinds, props = args
    v = make_variant(seed, index, kinds)
    if v is None:
        return index, None, {}
    fname, label, new_src = v
    import importlib
    from sa.core import evaluate, AnalysisError
    from sa.ctx import Ctx
    base = Path(tempfile.mkdtemp(prefix="mm_", dir=os.environ.get("TMPDIR", "/tmp")))
    out = {}
    try:
        shutil.copytree(REPO / "ford", base / "ford", ignore=shutil.ignore_patterns("__pycache__"))
        if (REPO / "docs").is_dir():
            shutil.copytree(REPO / "docs", base / "docs", ignore=shutil.ignore_patterns("__pycache__", "_build"))
        (base / "ford" / fname).write_text(new_src, encoding="utf-8")
        known = {(k["rule"], k["construct"]) for k in json.loads((V / "known_findings.json").read_text())["findings"]
                 if k.get("status") == "known"}
        def one(p, ctx):
            mod = importlib.import_module(f"sa.rules.{p.lower()}")
            try:
                rep, err = evaluate(p, [r for r in mod.RULES if r.tier != "thorough"], ctx, "quick")
            except AnalysisError as e:
                rep, err = None, str(e)
            if err is not None:
                return ["ANALYSIS-ERROR " + err[:200]]
            new = sorted({(o.rule, o.construct[:80], o.detail[:120]) for o in rep.obs if not o.ok and (o.rule, o.construct) not in known})
            return [f"{r} {c} :: {d}" for r, c, d in new][:4] if new else None
        try:
            shared = Ctx(base)
        except AnalysisError as e:
            return index, label, {"*": ["ANALYSIS-ERROR " + str(e)[:200]]}
        for p in props:
            v = one(p, shared)
            if v is not None:
                v = one(p, Ctx(base))      # re-confirmed with a model of its own, as ./check would see it
            if v is not None:
                out[p] = v
    finally:
        shutil.rmtree(base, ignore_errors=True)
    return index, label, out


def main():
    a = sys.argv[1:]

    def opt(name, default):
        return a[a.index(name) + 1] if name in a else default
    n = int(opt("--n", "60"))
    seed = int(opt("--seed", "1"))
    props = opt("--props", ",".join(PROPS)).split(",")
    kinds = opt("--kinds", ",".join(TRANSFORMS)).split(",")
    jobs = int(opt("--jobs", "12"))
    start = int(opt("--start", "0"))
    if "--dump" in a:       # write the variant's changed file as a unified diff to stdout
        import difflib
        v = make_variant(seed, start, kinds)
        if v:
            old = (REPO / "ford" / v[0]).read_text(encoding="utf-8")
            canon = ast.unparse(ast.parse(old)) + "\n"
            sys.stdout.writelines(difflib.unified_diff(canon.splitlines(True), v[2].splitlines(True), "canonical/" + v[0], v[1], n=4))
        return 0
    with ProcessPoolExecutor(max_workers=jobs) as ex:
        results = list(ex.map(run, [(seed, i, kinds, props) for i in range(start, start + n)]))
    alarms = 0
    per_rule = {}
    for index, label, out in results:
        if label is None:
            continue
        if out:
            alarms += 1
            print(f"#{index} {label}: ALARM")
            for p, lines in out.items():
                for l in lines:
                    print(f"    {p}: {l}")
                    per_rule[l.split(" ")[0] if not l.startswith("ANALYSIS") else p + ":ANALYSIS-ERROR"] = \
                        per_rule.get(l.split(" ")[0] if not l.startswith("ANALYSIS") else p + ":ANALYSIS-ERROR", 0) + 1
    made = sum(1 for _i, l, _o in results if l is not None)
    print(f"{made} variants (seed {seed}, indices {start}..{start + n - 1}), {alarms} with alarms")
    for k, v in sorted(per_rule.items(), key=lambda kv: -kv[1]):
        print(f"   {v:4d}  {k}")
    return 1 if alarms else 0


if __name__ == "__main__":
    sys.exit(main())
