#!/bin/bash
# usage: verify_all.sh C05 C09 ...   (runs both variants, sequentially)
cd /verif
for id in "$@"; do for x in a b; do
  P=/tmp/wt/out/$id/$x/patch.diff; [ -f /tmp/wt/out/$id/$x/patch_ported.diff ] && P=/tmp/wt/out/$id/$x/patch_ported.diff
  echo "=== $id $x"; tools/verify_seed.py $id $x --patch $P 2>&1 | grep -E '"confirmed"|"rc"|^\s+"\[|ANALYSIS|DOES NOT|suite' | cut -c1-220
done; done
