#!/venv/bin/python
"""Regenerates MANIFEST.json from the set of implemented rule modules (sa/rules/cXX.py)
plus the static texts below, and validates it against the schema."""
import json, os, sys, importlib
from pathlib import Path
V = Path(__file__).resolve().parent.parent
sys.path.insert(0, str(V))
props = [json.loads(l) for l in (V / "properties.jsonl").read_text().splitlines() if l.strip()]
meta = json.loads((V / "tools" / "manifest_meta.json").read_text())
checks, na = [], []
for p in props:
    pid = p["id"]
    m = meta["checks"].get(pid)
    if (V / "sa" / "rules" / f"{pid.lower()}.py").exists() and m and m.get("claimed", True):
        checks.append({
            "property_id": pid,
            "quick_cmd": f"./check {pid} --tier quick",
            "thorough_cmd": f"./check {pid} --tier thorough",
            "evidence_file": f"/verif/evidence/{pid}.json",
            "replay_cmd_template": f"./check {pid} --replay {{path}}",
            "engine": "sa",
            "level_claimed": {"category": "other", "text": m["level_text"], "design_ref": m.get("design_ref", f"DESIGN.md §2 {pid}")},
            "level_note": m["level_note"],
            "technique": m["technique"],
        })
    else:
        na.append({"property_id": pid, "reason": (m or {}).get("na_reason", meta["default_na_reason"])})
man = {
    "version": 1,
    "setup_cmd": "true",
    "hooks": {"guard": "FORD_VERIF", "enable": "none: static analysis reads /repo's source; no hooks are compiled in",
              "baseline_off_cmd": "cd /repo && /venv/bin/python -m pytest -ra -q -p no:cacheprovider --timeout=900 --continue-on-collection-errors",
              "source_commits": meta.get("source_commits", []), "add_only": True},
    "engines": meta["engines"],
    "checks": checks,
    "notes": meta["notes"],
    "not_applicable": na,
}
(V / "MANIFEST.json").write_text(json.dumps(man, indent=1) + "\n")
try:
    import jsonschema
    jsonschema.validate(man, json.loads(Path("/root/.vp/MANIFEST.schema.json").read_text()))
    print("MANIFEST.json valid;", len(checks), "checks,", len(na), "not_applicable")
except ImportError:
    print("jsonschema not available; written without validation")
