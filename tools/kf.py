#!/venv/bin/python
"""kf.py add <property> <rule> <construct> <what> [failing_input]  |  kf.py fix <rule> <construct> <commit>"""
import json, sys
from pathlib import Path
p = Path(__file__).resolve().parent.parent / "known_findings.json"
d = json.loads(p.read_text())
if sys.argv[1] == "add":
    _, _, prop, rule, construct, what, *rest = sys.argv
    if any(f["rule"] == rule and f["construct"] == construct for f in d["findings"]):
        print("already listed"); sys.exit(0)
    d["findings"].append({"property": prop, "rule": rule, "construct": construct, "status": "known",
                          "what": what, "failing_input": rest[0] if rest else ""})
elif sys.argv[1] == "fix":
    _, _, rule, construct, commit = sys.argv
    n = 0
    for f in d["findings"]:
        if f["rule"] == rule and f["construct"] == construct:
            f["status"] = "fixed"; f["commit"] = commit; n += 1
    print("updated", n)
p.write_text(json.dumps(d, indent=1) + "\n")
