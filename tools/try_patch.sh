#!/bin/bash
# usage: try_patch.sh <patch.diff> <Cxx> [more Cxx...]  -- applies the patch to /repo, runs the checks, reverts
P=$1; shift
cd /repo || exit 2
if ! git diff --quiet; then echo "/repo is dirty"; exit 2; fi
git apply "$P" || { echo "patch does not apply"; exit 2; }
for id in "$@"; do
  (cd /verif && ./check $id 2>&1 | grep -E "^\s+\[|ANALYSIS-ERROR|^C[0-9]+ \[" | cut -c1-260)
done
git checkout -- . 
