#!/venv/bin/python
"""benign_eval.py <dir-with-patches> [--props C01,C02]

False-alarm test: every <dir>/<name>/patch.diff (or <dir>/<Cxx>/<x>/patch.diff) is a behaviour-preserving change.
It is applied to a scratch copy of /repo's ford/ (under $TMPDIR, removed afterwards) and ALL property checks
(quick tier rules) are evaluated on the copy.  Anything other than "no new violation" is printed:
a VIOLATION is a false alarm, an ANALYSIS-ERROR means the extractor lost its anchor (fail-closed, still unwanted).
"""
import importlib
import json
import shutil
import sys
from concurrent.futures import ProcessPoolExecutor
from pathlib import Path

import os
V = Path(os.environ.get("SA_VERIF", "/verif"))
REPO = Path(os.environ.get("SA_REPO", "/repo"))
sys.path.insert(0, str(V))
PROPS = [f"C{i:02d}" for i in range(1, 21)]


def run(args):
    label, patch, props = args
    from sa import selftest
    from sa.core import evaluate, AnalysisError
    from sa.ctx import Ctx
    base = selftest._make_variant(REPO, Path(patch).read_text(), False)
    if base is None:
        return label, {"*": "patch does not apply"}
    out = {}
    try:
        known = {(k["rule"], k["construct"]) for k in json.loads((V / "known_findings.json").read_text())["findings"]
                 if k.get("status") == "known"}
        def one(p, ctx):
            mod = importlib.import_module(f"sa.rules.{p.lower()}")
            try:
                rep, err = evaluate(p, [r for r in mod.RULES if r.tier != "thorough"], ctx, "quick")
            except AnalysisError as e:
                rep, err = None, str(e)
            if err is not None:
                return "ANALYSIS-ERROR " + (err if os.environ.get("SA_FULLERR") else err[:300])
            new = sorted({(o.rule, o.construct, o.detail[:160]) for o in rep.obs if not o.ok and (o.rule, o.construct) not in known})
            return [f"{r} {c} :: {d}" for r, c, d in new][:6] if new else None
        # one model for all properties (building it is the expensive part); anything reported is re-confirmed with a
        # model of its own, exactly as ./check would see it
        try:
            shared = Ctx(base)
        except AnalysisError as e:
            return label, {"*": "ANALYSIS-ERROR " + str(e)[:300]}
        for p in props:
            v = one(p, shared)
            if v is not None:
                v = one(p, Ctx(base))
            if v is not None:
                out[p] = v
    finally:
        shutil.rmtree(base, ignore_errors=True)
    return label, out


def main():
    d = Path(sys.argv[1])
    props = PROPS
    if "--props" in sys.argv:
        props = sys.argv[sys.argv.index("--props") + 1].split(",")
    patches = sorted(d.glob("*/patch.diff")) + sorted(d.glob("*/*/patch.diff"))
    jobs = [(str(p.parent.relative_to(d)), str(p), props) for p in patches]
    with ProcessPoolExecutor(max_workers=int(os.environ.get('SA_JOBS', '12'))) as ex:
        results = list(ex.map(run, jobs))
    alarms = 0
    for label, out in results:
        if not out:
            print(f"{label}: silent")
            continue
        alarms += 1
        print(f"{label}: ALARM")
        for p, v in out.items():
            if isinstance(v, str):
                print(f"    {p}: {v}")
            else:
                for line in v:
                    print(f"    {p}: {line}")
    print(f"{len(results)} benign changes, {alarms} with alarms")
    return 1 if alarms else 0


if __name__ == "__main__":
    sys.exit(main())
