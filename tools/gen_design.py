#!/venv/bin/python
"""Generates /verif/DESIGN.md from tools/design_template.md plus the rule modules, known_findings.json,
seeded/ and benign/.  Run: /venv/bin/python tools/gen_design.py"""
import importlib
import json
import re
import subprocess
import sys
from pathlib import Path

V = Path(__file__).resolve().parent.parent
sys.path.insert(0, str(V))
props = [json.loads(l) for l in (V / "properties.jsonl").read_text().splitlines() if l.strip()]
kf = json.loads((V / "known_findings.json").read_text())["findings"]


def esc(s: str) -> str:
    return str(s).replace("|", "\\|").replace("\n", " ")


def commit_subject(c: str) -> str:
    r = subprocess.run(["git", "-C", "/repo", "log", "--format=%s", "-1", c], capture_output=True, text=True)
    return r.stdout.strip() if r.returncode == 0 else "?"


# ---- per property
per = []
for p in props:
    pid = p["id"]
    m = importlib.import_module(f"sa.rules.{pid.lower()}")
    ev = {}
    evp = V / "evidence" / f"{pid}.json"
    if evp.exists():
        ev = json.loads(evp.read_text())["coverage"].get("rules", {})
    per.append(f"### {pid} — {p['title']}\n")
    per.append(m.EXPLANATION.strip() + "\n")
    per.append("| rule | clause | instances on the current tree | floor |\n|---|---|---|---|")
    for r in sorted(m.RULES, key=lambda r: r.rid):
        n = ev.get(r.rid, {}).get("instances", "-")
        per.append(f"| {r.rid} | {esc(r.title)} | {n} | {r.floor} |")
    if m.ASSUMPTIONS:
        per.append("\nAssumptions: " + "; ".join(m.ASSUMPTIONS) + ".")
    per.append("")
PER = "\n".join(per)

# ---- findings
fixed = [k for k in kf if k.get("status") == "fixed"]
known = [k for k in kf if k.get("status") == "known"]
by_commit = {}
for k in fixed:
    by_commit.setdefault(k.get("commit", "?"), []).append(k)
order = subprocess.run(["git", "-C", "/repo", "log", "--format=%h", "--reverse"], capture_output=True, text=True).stdout.split()
rows = ["| commit | subject | exposed by (rule: construct) |", "|---|---|---|"]
for c in sorted(by_commit, key=lambda c: order.index(c) if c in order else 10 ** 6):
    ks = by_commit[c]
    what = "; ".join(f"{k['rule']}: {k['construct'][:70]}" for k in ks[:3]) + (f" (+{len(ks) - 3} more)" if len(ks) > 3 else "")
    rows.append(f"| `{c}` | {esc(commit_subject(c))} | {esc(what)} |")
FIXED = "\n".join(rows)
rows = ["| property | rule | construct | what fails |", "|---|---|---|---|"]
for k in sorted(known, key=lambda k: (k["property"], k["rule"], k["construct"])):
    rows.append(f"| {k['property']} | {k['rule']} | {esc(k['construct'][:90])} | {esc(k.get('what', '')[:220])} |")
KNOWN = "\n".join(rows)
fix_commits_all = subprocess.run(["git", "-C", "/repo", "log", "--format=%h %s"], capture_output=True, text=True).stdout.splitlines()
n_fix_commits = sum(1 for l in fix_commits_all if l.split(" ", 1)[1].startswith("fix:"))

# ---- seeds
rows = ["| seed | wave | what the mutation does (first line of its notes) | detected by |", "|---|---|---|---|"]
nseeds = 0
for d in sorted((V / "seeded").iterdir()):
    mp = d / "meta.json"
    if not mp.exists():
        continue
    nseeds += 1
    meta = json.loads(mp.read_text())
    notes = (d / "notes.md").read_text().splitlines() if (d / "notes.md").exists() else [""]
    first = next((l.strip("# ").strip() for l in notes if l.strip()), "")
    wave = meta.get("wave") or {"a": 1, "b": 1, "c": 2, "d": 2}.get(d.name[-1], 4)
    det = meta.get("detected_by", {})
    dets = ", ".join(sorted({r for v in det.values() if isinstance(v, list) for r in v})) or str(det)
    if meta.get("retired"):
        dets = "retired (must stay silent): " + meta["retired"][:90]
    if meta.get("undetected_reason"):
        dets = "**not detected** - " + meta["undetected_reason"][:260]
    rows.append(f"| {d.name} | {wave} | {esc(first[:140])} | {esc(dets)} |")
SEEDS = "\n".join(rows)

rows = ["| change | kind | first line of its notes |", "|---|---|---|"]
nben = 0
bd = V / "benign"
if bd.is_dir():
    for d in sorted(bd.iterdir()):
        if not (d / "patch.diff").exists():
            continue
        nben += 1
        notes = (d / "notes.md").read_text().splitlines() if (d / "notes.md").exists() else [""]
        first = next((l.strip("# ").strip() for l in notes if l.strip()), "")
        kind = {"a": "refactoring", "b": "equivalent re-spelling", "c": "benign extension", "d": "deep refactoring (wave 5)", "e": "deep refactoring (wave 5)", "f": "deep refactoring (wave 5)", "g": "refactoring (wave 7)", "h": "equivalent re-spelling (wave 7)", "i": "benign extension (wave 7)", "j": "control-flow restructuring (wave 9)", "k": "equivalent re-spelling of data (wave 9)", "l": "benign extension (wave 9)"}.get(d.name[-1], d.name.split("_")[-1])
        rows.append(f"| {d.name} | {kind} | {esc(first[:150])} |")
BENIGN = "\n".join(rows)

wave4 = (V / "tools" / "wave4.md").read_text().strip() if (V / "tools" / "wave4.md").exists() else "in progress when this file was generated."
wave67 = (V / "tools" / "wave67.md").read_text().strip() if (V / "tools" / "wave67.md").exists() else "in progress when this file was generated."
wave89 = (V / "tools" / "wave89.md").read_text().strip() if (V / "tools" / "wave89.md").exists() else "in progress when this file was generated."
nrules = sum(len(importlib.import_module(f"sa.rules.{p['id'].lower()}").RULES) for p in props)
stats = (f"Current numbers: {nrules} rules over 20 properties, {len(fixed)} repaired and {len(known)} known findings, "
         f"{n_fix_commits} `fix:` commits in `/repo`, {nseeds} stored mutations, {nben} stored behaviour-preserving changes.")

from sa import pymodel   # noqa: E402
try:
    _py = pymodel.PyModel(Path("/repo")) if hasattr(pymodel, "PyModel") else None
    st = getattr(_py, "inline_stats", None) or {}
    inline_stats = ", ".join(f"{v if not isinstance(v, (list, set, tuple, dict)) else len(v)} {k.strip('_').replace('_', ' ')}"
                             for k, v in st.items()) or "n/a"
except Exception as e:      # the design text must still be generated
    inline_stats = f"n/a ({e})"

t = (V / "tools" / "design_template.md").read_text()
for k, v in {"{{PER_PROPERTY}}": PER, "{{FINDINGS_FIXED}}": FIXED, "{{FINDINGS_KNOWN}}": KNOWN, "{{SEEDS}}": SEEDS,
             "{{BENIGN}}": BENIGN, "{{STATS}}": stats, "{{N_FIXED}}": str(len(fixed)), "{{N_KNOWN}}": str(len(known)),
             "{{N_COMMITS}}": str(n_fix_commits), "{{WAVE4}}": wave4, "{{WAVE67}}": wave67, "{{WAVE89}}": wave89, "{{INLINE_STATS}}": inline_stats}.items():
    t = t.replace(k, v)
(V / "DESIGN.md").write_text(t)
print("DESIGN.md written:", len(t.splitlines()), "lines;", stats)
