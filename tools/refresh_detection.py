#!/venv/bin/python
"""refresh_detection.py [ids...] - re-runs each stored seed's property rules on the patched scratch copy and records
which rules fire in seeded/<id>/meta.json (detected_by); prints the seeds no rule of their own property detects."""
import importlib, json, shutil, sys
from concurrent.futures import ProcessPoolExecutor
from pathlib import Path
V = Path("/verif"); sys.path.insert(0, str(V))

def run(name):
    from sa import selftest
    from sa.core import evaluate, AnalysisError
    from sa.ctx import Ctx
    d = V / "seeded" / name
    prop = name.split("_")[0]
    base = selftest._make_variant(Path("/repo"), (d / "patch.diff").read_text(), False)
    if base is None:
        return name, None
    try:
        mod = importlib.import_module(f"sa.rules.{prop.lower()}")
        try:
            rep, err = evaluate(prop, [r for r in mod.RULES if r.tier != "thorough"], Ctx(base), "quick")
        except AnalysisError as e:
            rep, err = None, str(e)
        if err is not None:
            return name, ["ANALYSIS-ERROR " + err[:120]]
        known = {(k["rule"], k["construct"]) for k in json.loads((V / "known_findings.json").read_text())["findings"] if k.get("status") == "known"}
        return name, sorted({o.rule for o in rep.obs if not o.ok and (o.rule, o.construct) not in known})
    finally:
        shutil.rmtree(base, ignore_errors=True)

def main():
    ids = sys.argv[1:]
    names = sorted(p.name for p in (V / "seeded").iterdir() if (p / "patch.diff").exists() and (not ids or p.name in ids))
    with ProcessPoolExecutor(max_workers=12) as ex:
        res = dict(ex.map(run, names))
    missed = []
    for n in names:
        mp = V / "seeded" / n / "meta.json"
        meta = json.loads(mp.read_text()) if mp.exists() else {}
        r = res[n]
        if r is None:
            print(n, "patch does not apply"); continue
        if meta.get("retired"):
            print(n, "retired; rules firing:", r); continue
        meta["detected_by"] = {n.split("_")[0]: r}
        mp.write_text(json.dumps(meta, indent=1) + "\n")
        if not r or all(x.startswith("ANALYSIS-ERROR") for x in r):
            missed.append((n, r))
    print(len(names), "seeds;", len(missed), "not detected by their own property's rules:", missed)

if __name__ == "__main__":
    main()
