#!/bin/bash
# usage: w4_check.sh Cxx a|b [props...]   applies /tmp/wt/out4/<id>/<x>/patch.diff to /repo temporarily and runs checks
id=$1; x=$2; shift 2; props=${@:-$id}
cd /repo || exit 2
git diff --quiet || { echo "/repo dirty"; exit 2; }
git apply /tmp/wt/out4/$id/$x/patch.diff || { echo "no apply"; exit 2; }
for p in $props; do (cd /verif && ./check $p 2>&1 | grep -E "^\s+\[|ANALYSIS-ERROR|^C[0-9]+ \[" | cut -c1-230); done
git checkout -- .
