#!/venv/bin/python
"""kf_auto.py add <rule> <what> <failing_input>   - list every violation of <rule> currently in evidence/violations as known
   kf_auto.py fix <rule> <commit>                 - mark every *known* entry of <rule> as fixed by <commit>
(used while triaging by hand; never called from a check)"""
import json, sys, glob
from pathlib import Path
V = Path(__file__).resolve().parent.parent
p = V / "known_findings.json"
d = json.loads(p.read_text())
if sys.argv[1] == "add":
    _, _, rule, what, inp = sys.argv
    n = 0
    for f in sorted(glob.glob(str(V / "evidence" / "violations" / "*.json"))):
        v = json.loads(Path(f).read_text())
        if v["rule"] != rule or any(k["rule"] == rule and k["construct"] == v["construct"] for k in d["findings"]):
            continue
        d["findings"].append({"property": v["property"], "rule": rule, "construct": v["construct"], "status": "known",
                              "what": what, "failing_input": inp})
        n += 1
    print("added", n)
else:
    _, _, rule, commit = sys.argv
    n = 0
    for k in d["findings"]:
        if k["rule"] == rule and k["status"] == "known":
            k["status"] = "fixed"; k["commit"] = commit; n += 1
    print("fixed", n)
p.write_text(json.dumps(d, indent=1) + "\n")
