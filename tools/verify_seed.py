#!/venv/bin/python
"""verify_seed.py <Cxx> <a|b> [--props Cxx,Cyy] [--patch file]

Re-verifies a sub-agent mutation against /repo's current HEAD in a scratch worktree:
 1. patch applies (3-way if needed) -> effective diff is what gets stored;
 2. baseline suite still 255/255 with the patch;
 3. demo FAILs (rc 1) with the patch and PASSes (rc 0) without;
 4. runs the registered checks of the given properties on /repo with the patch applied
    (git apply ... ; ./check ; git checkout -- .) and records which rules fire.
Stores /verif/seeded/<Cxx>_<x>/{patch.diff,demo.py,notes.md,meta.json}.
"""
import json
import os
import shutil
import subprocess
import sys
from pathlib import Path

V = Path("/verif")


def sh(cmd, cwd=None, timeout=900):
    r = subprocess.run(cmd, shell=True, cwd=cwd, capture_output=True, text=True, timeout=timeout)
    return r.returncode, r.stdout + r.stderr


def main():
    pid, x = sys.argv[1], sys.argv[2]
    name = None
    props = [pid]
    patch = Path(f"/tmp/wt/out/{pid}/{x}/patch.diff")
    src = patch.parent
    args = sys.argv[3:]
    while args:
        a = args.pop(0)
        if a == "--props":
            props = args.pop(0).split(",")
        elif a == "--patch":
            patch = Path(args.pop(0))
        elif a == "--src":
            src = Path(args.pop(0))
            if patch.parent != src and not any(x == "--patch" for x in sys.argv):
                patch = src / "patch.diff"
        elif a == "--name":
            name = args.pop(0)
    wt = Path(f"/tmp/vs/{pid}{x}")
    sh(f"git -C /repo worktree remove --force {wt}")
    shutil.rmtree(wt, ignore_errors=True)
    wt.parent.mkdir(parents=True, exist_ok=True)
    rc, out = sh(f"git -C /repo worktree add --detach {wt}")
    if rc:
        print(out)
        return 2
    result = {"property": pid, "variant": x, "repo_head": sh("git -C /repo log --format=%h -1")[1].strip()}
    try:
        shutil.copy("/repo/ford/_version.py", wt / "ford" / "_version.py")
        rc, out = sh(f"git apply {patch}", cwd=wt)
        if rc:
            rc, out = sh(f"git apply --3way {patch}", cwd=wt)
            if rc:
                print("PATCH DOES NOT APPLY (needs hand porting):\n" + out[-800:])
                return 3
            sh("git reset -q", cwd=wt)
        rc, diff = sh("git diff", cwd=wt)
        if not diff.strip():
            print("empty diff")
            return 3
        # compile
        rc, out = sh("/venv/bin/python -m compileall -q ford", cwd=wt)
        result["compiles"] = rc == 0
        # suite
        rc, out = sh(f"/tmp/wt/run_tests.sh {wt}")
        result["suite"] = out.strip().splitlines()[0] if out.strip() else "?"
        suite_ok = rc == 0
        # demo on mutated
        demo = src / "demo.py"
        rc_m, out_m = sh(f"/venv/bin/python {demo}", cwd=wt, timeout=300)
        sh("git checkout -- .", cwd=wt)
        rc_c, out_c = sh(f"/venv/bin/python {demo}", cwd=wt, timeout=300)
        result["demo_mutated_rc"] = rc_m
        result["demo_clean_rc"] = rc_c
        result["demo_mutated_tail"] = out_m.strip().splitlines()[-3:]
        ok = suite_ok and rc_m == 1 and rc_c == 0
        result["confirmed"] = ok
        # checks: run against the mutated scratch worktree (identical to /repo + patch) via --root,
        # so that /repo itself is never left in a mutated state while other work goes on
        tmp = Path(f"/tmp/vs/{pid}{x}.diff")
        tmp.write_text(diff)
        sh(f"git apply {tmp}", cwd=wt)
        fired = {}
        for p in props:
            if not (V / "sa" / "rules" / f"{p.lower()}.py").exists():
                fired[p] = "no check yet"
                continue
            evp = V / "evidence" / f"{p}.json"
            keep = evp.read_text() if evp.exists() else None
            rc, out = sh(f"./check {p} --root {wt}", cwd=V)
            if keep is not None:
                evp.write_text(keep)
            lines = [l.strip()[:300] for l in out.splitlines() if l.strip().startswith("[") or "ANALYSIS-ERROR" in l]
            fired[p] = {"rc": rc, "reports": lines}
        sh("git checkout -- .", cwd=wt)
        result["checks"] = fired
        dest = V / "seeded" / (name or f"{pid}_{x}")
        if ok:
            dest.mkdir(parents=True, exist_ok=True)
            (dest / "patch.diff").write_text(diff)
            shutil.copy(demo, dest / "demo.py")
            if (src / "notes.md").exists():
                shutil.copy(src / "notes.md", dest / "notes.md")
            for extra in src.iterdir():
                if extra.name not in ("patch.diff", "demo.py", "notes.md") and extra.is_file():
                    shutil.copy(extra, dest / extra.name)
            meta = {
                "breaks_property": pid,
                "needs_to_manifest": "see notes.md",
                "verified_against_repo_head": result["repo_head"],
                "what_was_run": [
                    f"git worktree add --detach {wt}; git apply patch.diff",
                    "/tmp/wt/run_tests.sh <worktree>  (pinned suite, compared with BASELINE.json stable_pass) -> " + result["suite"],
                    f"demo.py in mutated worktree -> rc {rc_m}; in clean worktree -> rc {rc_c}",
                    "./check <props> --root <mutated worktree>   (same as: git -C /repo apply patch.diff; ./check <props>; git -C /repo checkout -- .)",
                ],
                "detected_by": {p: (v if isinstance(v, str) else [r.split(']')[0].strip('[ ') for r in v["reports"]])
                                for p, v in fired.items()},
                "check_reports": fired,
            }
            (dest / "meta.json").write_text(json.dumps(meta, indent=1) + "\n")
        print(json.dumps(result, indent=1))
        return 0 if ok else 1
    finally:
        sh(f"git -C /repo worktree remove --force {wt}")
        shutil.rmtree(wt, ignore_errors=True)


if __name__ == "__main__":
    sys.exit(main())
