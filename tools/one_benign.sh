#!/bin/bash
# usage: tools/one_benign.sh <patch-dir> [props...]   - evaluates one behaviour-preserving change against the rules
d=$(mktemp -d /tmp/oneb.XXXX); n=$(basename $1); mkdir -p $d/$n; cp $1/patch.diff $d/$n/; shift
if [ $# -gt 0 ]; then /venv/bin/python /verif/tools/benign_eval.py $d --props "$@" 2>&1 | cut -c1-400; else /venv/bin/python /verif/tools/benign_eval.py $d 2>&1 | cut -c1-400; fi
rm -rf $d
