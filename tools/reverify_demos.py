#!/venv/bin/python
"""reverify_demos.py [--suite] [ids...]

Re-runs the demonstration of every stored seeded mutation against /repo's current HEAD:
in a scratch worktree (under /tmp/vs, removed afterwards) the demo must PASS (rc 0) on the clean tree and
FAIL (rc 1) with the patch applied.  With --suite the pinned test-suite is run on the mutated tree as well.
A seed whose demo passes on the mutated tree has been neutralised by a later fix; it is reported so that it can
be retired (meta.json "retired": reason) - the self-test skips retired seeds.
"""
import json
import shutil
import subprocess
import sys
from concurrent.futures import ThreadPoolExecutor
from pathlib import Path

V = Path("/verif")


def sh(cmd, cwd=None, timeout=900):
    try:
        r = subprocess.run(cmd, shell=True, cwd=cwd, capture_output=True, text=True, timeout=timeout)
        return r.returncode, r.stdout + r.stderr
    except subprocess.TimeoutExpired:
        return 124, "timeout"


def one(args):
    name, suite = args
    d = V / "seeded" / name
    wt = Path(f"/tmp/vs/rv_{name}")
    sh(f"git -C /repo worktree remove --force {wt}")
    shutil.rmtree(wt, ignore_errors=True)
    wt.parent.mkdir(parents=True, exist_ok=True)
    rc, out = sh(f"git -C /repo worktree add --detach {wt}")
    if rc:
        return name, {"error": out[-300:]}
    res = {}
    try:
        shutil.copy("/repo/ford/_version.py", wt / "ford" / "_version.py")
        rc_c, out_c = sh(f"/venv/bin/python {d / 'demo.py'}", cwd=wt, timeout=300)
        rc, out = sh(f"git apply {d / 'patch.diff'}", cwd=wt)
        if rc:
            res["apply"] = out[-300:]
            return name, res
        rc_m, out_m = sh(f"/venv/bin/python {d / 'demo.py'}", cwd=wt, timeout=300)
        res.update(clean_rc=rc_c, mutated_rc=rc_m, mutated_tail=out_m.strip().splitlines()[-2:])
        if suite:
            rc, out = sh(f"/tmp/wt/run_tests.sh {wt}")
            res["suite"] = out.strip().splitlines()[0] if out.strip() else "?"
        return name, res
    finally:
        sh(f"git -C /repo worktree remove --force {wt}")
        shutil.rmtree(wt, ignore_errors=True)


def main():
    args = sys.argv[1:]
    suite = "--suite" in args
    ids = [a for a in args if not a.startswith("--")]
    names = sorted(p.name for p in (V / "seeded").iterdir() if (p / "patch.diff").exists() and (not ids or p.name in ids))
    head = sh("git -C /repo log --format=%h -1")[1].strip()
    with ThreadPoolExecutor(max_workers=2 if suite else 6) as ex:
        results = dict(ex.map(one, [(n, suite) for n in names]))
    bad = 0
    for n in names:
        r = results[n]
        ok = r.get("clean_rc") == 0 and r.get("mutated_rc") == 1 and (not suite or "255/255" in r.get("suite", ""))
        meta_p = V / "seeded" / n / "meta.json"
        meta = json.loads(meta_p.read_text()) if meta_p.exists() else {}
        if meta.get("retired"):
            print(f"{n}: retired ({meta['retired'][:80]}) clean={r.get('clean_rc')} mutated={r.get('mutated_rc')}")
            continue
        if ok:
            meta["reverified_against_repo_head"] = head
            if suite:
                meta["reverified_suite"] = r["suite"]
            meta_p.write_text(json.dumps(meta, indent=1) + "\n")
        else:
            bad += 1
        print(f"{n}: {'ok' if ok else 'PROBLEM'} {json.dumps(r)[:300]}")
    print(f"{len(names)} seeds, {bad} problem(s), HEAD {head}")
    return 1 if bad else 0


if __name__ == "__main__":
    sys.exit(main())
