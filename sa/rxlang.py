"""E2 — exact regular-language reasoning about regex constants.

Extended regular expressions with intersection and complement, decided with Brzozowski
derivatives over an alphabet partition computed from the character predicates in play.
Front end: `re._parser.parse` (stdlib; patterns are parsed, never matched).

Node forms (hash-consed tuples):
  ('0',) empty language   ('e',) epsilon   ('c', frozenset(chars))
  ('.', a, b) concatenation   ('|', frozenset(nodes))   ('&', frozenset(nodes))
  ('~', a) complement   ('*', a) star
"""
from __future__ import annotations

import re
import sys
from functools import lru_cache
from typing import Dict, FrozenSet, Iterable, List, Optional, Tuple

try:
    import re._parser as sre_parse      # Python >= 3.11
    import re._constants as sre_c
except ImportError:  # pragma: no cover
    import sre_parse                    # type: ignore
    import sre_constants as sre_c       # type: ignore

sys.setrecursionlimit(20000)


class Unsupported(Exception):
    pass


# ---------------------------------------------------------------------------------- universe
NON_ASCII = "é"
UNIVERSE: FrozenSet[str] = frozenset([chr(i) for i in range(32, 127)] + ["\t", NON_ASCII])
WORD = frozenset(c for c in UNIVERSE if c.isalnum() or c == "_")
DIGIT = frozenset("0123456789")
SPACE = frozenset(" \t")
NOT_NL = UNIVERSE   # statements handed to the regexes never contain a newline

EMPTY = ("0",)
EPS = ("e",)
_intern: Dict[tuple, tuple] = {}


def _mk(t: tuple) -> tuple:
    return _intern.setdefault(t, t)


def chars(s: Iterable[str]) -> tuple:
    fs = frozenset(s) & UNIVERSE
    if not fs:
        return EMPTY
    return _mk(("c", fs))


ANY1 = chars(UNIVERSE)


def star(a: tuple) -> tuple:
    if a in (EMPTY, EPS):
        return EPS
    if a[0] == "*":
        return a
    return _mk(("*", a))


ANYSTAR = star(ANY1)
NOTEMPTY = ANYSTAR      # complement of EMPTY


def cat(a: tuple, b: tuple) -> tuple:
    if a == EMPTY or b == EMPTY:
        return EMPTY
    if a == EPS:
        return b
    if b == EPS:
        return a
    if a[0] == ".":
        return cat(a[1], cat(a[2], b))
    return _mk((".", a, b))


def cats(*xs: tuple) -> tuple:
    out = EPS
    for x in reversed(xs):
        out = cat(x, out)
    return out


def alt(*xs: tuple) -> tuple:
    items = set()
    cs = set()
    for x in xs:
        if x == EMPTY:
            continue
        if x[0] == "|":
            for y in x[1]:
                if y[0] == "c":
                    cs |= y[1]
                else:
                    items.add(y)
        elif x[0] == "c":
            cs |= x[1]
        else:
            items.add(x)
    if cs:
        items.add(chars(cs))
    if ANYSTAR in items:
        return ANYSTAR
    if not items:
        return EMPTY
    if len(items) == 1:
        return next(iter(items))
    return _mk(("|", frozenset(items)))


def conj(*xs: tuple) -> tuple:
    items = set()
    for x in xs:
        if x == EMPTY:
            return EMPTY
        if x == ANYSTAR:
            continue
        if x[0] == "&":
            items |= x[1]
        else:
            items.add(x)
    if not items:
        return ANYSTAR
    if len(items) == 1:
        return next(iter(items))
    # two char classes intersect directly
    cls = [x for x in items if x[0] == "c"]
    if len(cls) > 1:
        s = UNIVERSE
        for x in cls:
            s = s & x[1]
        items = {x for x in items if x[0] != "c"}
        c = chars(s)
        if c == EMPTY:
            return EMPTY
        items.add(c)
        if len(items) == 1:
            return next(iter(items))
    return _mk(("&", frozenset(items)))


def neg(a: tuple) -> tuple:
    if a[0] == "~":
        return a[1]
    if a == EMPTY:
        return ANYSTAR
    if a == ANYSTAR:
        return EMPTY
    return _mk(("~", a))


def opt(a: tuple) -> tuple:
    return alt(EPS, a)


def plus(a: tuple) -> tuple:
    return cat(a, star(a))


def lit(s: str, ignorecase: bool = False) -> tuple:
    out = EPS
    for ch in reversed(s):
        cs = {ch.lower(), ch.upper()} if ignorecase else {ch}
        out = cat(chars(cs), out)
    return out


def rep(a: tuple, lo: int, hi: Optional[int]) -> tuple:
    out = EPS
    if hi is None:
        out = star(a)
    else:
        for _ in range(hi - lo):
            out = opt(cat(a, out))
    for _ in range(lo):
        out = cat(a, out)
    return out


# ---------------------------------------------------------------------------------- semantics
@lru_cache(maxsize=None)
def nullable(r: tuple) -> bool:
    k = r[0]
    if k == "0" or k == "c":
        return False
    if k == "e" or k == "*":
        return True
    if k == ".":
        return nullable(r[1]) and nullable(r[2])
    if k == "|":
        return any(nullable(x) for x in r[1])
    if k == "&":
        return all(nullable(x) for x in r[1])
    if k == "~":
        return not nullable(r[1])
    raise AssertionError(k)


@lru_cache(maxsize=None)
def deriv(r: tuple, ch: str) -> tuple:
    k = r[0]
    if k == "0" or k == "e":
        return EMPTY
    if k == "c":
        return EPS if ch in r[1] else EMPTY
    if k == ".":
        d = cat(deriv(r[1], ch), r[2])
        if nullable(r[1]):
            return alt(d, deriv(r[2], ch))
        return d
    if k == "*":
        return cat(deriv(r[1], ch), r)
    if k == "|":
        return alt(*[deriv(x, ch) for x in r[1]])
    if k == "&":
        return conj(*[deriv(x, ch) for x in r[1]])
    if k == "~":
        return neg(deriv(r[1], ch))
    raise AssertionError(k)


def _charsets(r: tuple, acc: set, seen: set):
    if r in seen:
        return
    seen.add(r)
    k = r[0]
    if k == "c":
        acc.add(r[1])
    elif k in (".",):
        _charsets(r[1], acc, seen)
        _charsets(r[2], acc, seen)
    elif k in ("|", "&"):
        for x in r[1]:
            _charsets(x, acc, seen)
    elif k in ("~", "*"):
        _charsets(r[1], acc, seen)


def classes(*rs: tuple) -> List[str]:
    """one representative character per equivalence class of the predicates occurring in rs."""
    sets: set = set()
    seen: set = set()
    for r in rs:
        _charsets(r, sets, seen)
    sig: Dict[tuple, str] = {}
    ordered = sorted(sets, key=lambda s: (len(s), sorted(s)))
    for ch in sorted(UNIVERSE, key=lambda c: (not c.isalpha(), not c.islower(), c != ' ', c)):
        key = tuple(ch in s for s in ordered)
        sig.setdefault(key, ch)
    return list(sig.values())


class Budget(Exception):
    pass


def witness(r: tuple, max_states: int = 200000) -> Optional[str]:
    """shortest string in L(r), or None if the language is empty."""
    alphabet = classes(r)
    start = r
    if nullable(start):
        return ""
    seen = {start}
    frontier: List[Tuple[tuple, str]] = [(start, "")]
    n = 0
    while frontier:
        nxt: List[Tuple[tuple, str]] = []
        for state, w in frontier:
            for ch in alphabet:
                d = deriv(state, ch)
                if d == EMPTY or d in seen:
                    continue
                if nullable(d):
                    witness.last_states = len(seen)   # type: ignore[attr-defined]
                    return w + ch
                seen.add(d)
                nxt.append((d, w + ch))
                n += 1
                if n > max_states:
                    raise Budget(f"more than {max_states} derivative states")
        frontier = nxt
    witness.last_states = len(seen)   # type: ignore[attr-defined]
    return None


witness.last_states = 0   # type: ignore[attr-defined]


def is_empty(r: tuple) -> bool:
    return witness(r) is None


def subset_witness(a: tuple, b: tuple) -> Optional[str]:
    """None if L(a) subset of L(b); else a shortest string in L(a) - L(b)."""
    return witness(conj(a, neg(b)))


def disjoint_witness(a: tuple, b: tuple) -> Optional[str]:
    return witness(conj(a, b))


def equiv_witness(a: tuple, b: tuple) -> Optional[str]:
    w = subset_witness(a, b)
    if w is not None:
        return w
    return subset_witness(b, a)


# ---------------------------------------------------------------------------------- front end
def _category(cat_code, ignorecase) -> FrozenSet[str]:
    name = str(cat_code)
    table = {
        "CATEGORY_DIGIT": DIGIT, "CATEGORY_NOT_DIGIT": UNIVERSE - DIGIT,
        "CATEGORY_SPACE": SPACE, "CATEGORY_NOT_SPACE": UNIVERSE - SPACE,
        "CATEGORY_WORD": WORD | {NON_ASCII}, "CATEGORY_NOT_WORD": UNIVERSE - WORD - {NON_ASCII},
    }
    if name not in table:
        raise Unsupported(f"category {name}")
    return table[name]


def _in_set(items, ignorecase: bool) -> FrozenSet[str]:
    negate = False
    out: set = set()
    for op, av in items:
        if op is sre_c.NEGATE:
            negate = True
        elif op is sre_c.LITERAL:
            ch = chr(av)
            out |= ({ch.lower(), ch.upper()} if ignorecase else {ch})
        elif op is sre_c.RANGE:
            lo, hi = av
            for c in UNIVERSE:
                if lo <= ord(c) <= hi or (ignorecase and (lo <= ord(c.lower()) <= hi or lo <= ord(c.upper()) <= hi)):
                    out.add(c)
        elif op is sre_c.CATEGORY:
            out |= _category(av, ignorecase)
        else:
            raise Unsupported(f"set item {op}")
    fs = frozenset(out) & UNIVERSE
    return (UNIVERSE - fs) if negate else fs


def _comp(seq, k: tuple, flags: int) -> tuple:
    """language of `seq` followed by continuation k (continuation passing for look-ahead)."""
    ic = bool(flags & re.IGNORECASE)
    dotall = bool(flags & re.DOTALL)
    out = k
    for op, av in reversed(list(seq)):
        if op is sre_c.LITERAL:
            ch = chr(av)
            out = cat(chars({ch.lower(), ch.upper()} if ic else {ch}), out)
        elif op is sre_c.NOT_LITERAL:
            ch = chr(av)
            out = cat(chars(UNIVERSE - ({ch.lower(), ch.upper()} if ic else {ch})), out)
        elif op is sre_c.ANY:
            out = cat(chars(UNIVERSE if dotall else NOT_NL), out)
        elif op is sre_c.IN:
            out = cat(chars(_in_set(av, ic)), out)
        elif op is sre_c.BRANCH:
            _, alts = av
            out = alt(*[_comp(a, out, flags) for a in alts])
        elif op is sre_c.SUBPATTERN:
            if av[0] in _BINDS:           # a group that is referred back to: fixed to one of its (single-character) values
                out = cat(chars({_BINDS[av[0]]}), out)
            else:
                p = av[-1]
                # scoped inline flags: (?i:...) / (?-i:...)
                sub_flags = flags
                if len(av) == 4:
                    sub_flags = (flags | av[1]) & ~av[2]
                if sub_flags == flags:
                    out = _comp(p, out, flags)
                else:
                    out = cat(_comp(p, EPS, sub_flags), out)
        elif op in (sre_c.MAX_REPEAT, sre_c.MIN_REPEAT) or str(op) == "POSSESSIVE_REPEAT":
            lo, hi, sub = av
            if _has_lookaround(sub):
                raise Unsupported("look-around under a repeat")
            hi = None if hi == sre_c.MAXREPEAT else hi
            loc = [g for g in _repeat_local_groups(sub) if g not in _BINDS]
            if loc:
                # a group that is defined and referred back to inside the repeated part is bound anew in every round
                body = _with_bindings(sub, loc, flags, lambda: _comp(sub, EPS, flags))
            else:
                body = _comp(sub, EPS, flags)
            out = cat(rep(body, lo, hi), out)
        elif op is sre_c.ASSERT:
            direction, sub = av
            if direction != 1:
                raise Unsupported("look-behind")
            out = conj(_comp(sub, ANYSTAR, flags), out)
        elif op is sre_c.ASSERT_NOT:
            direction, sub = av
            if direction != 1:
                raise Unsupported("negative look-behind")
            out = conj(neg(_comp(sub, ANYSTAR, flags)), out)
        elif op is sre_c.AT:
            name = str(av)
            if name in ("AT_BEGINNING", "AT_BEGINNING_STRING"):
                # only meaningful at the start; callers anchor. Inside a pattern: position 0 only.
                out = out
            elif name in ("AT_END", "AT_END_STRING"):
                out = conj(out, EPS)   # no newline in the universe, so `$` is end of string
            elif name == "AT_BOUNDARY":
                raise Unsupported("\\b")
            else:
                raise Unsupported(f"anchor {name}")
        elif op is sre_c.GROUPREF:
            if av not in _BINDS:
                raise Unsupported("back-reference")
            out = cat(chars({_BINDS[av]}), out)
        else:
            raise Unsupported(f"regex op {op}")
    return out


# back-references: supported when the referenced group matches exactly one character out of a small set (the quote idiom
# `(["'])...\1`): the pattern is compiled once per value of the group and the languages are united
_BINDS: dict = {}


def _walk_ops(seq):
    for op, av in seq:
        yield op, av
        if op is sre_c.BRANCH:
            for a in av[1]:
                yield from _walk_ops(a)
        elif op is sre_c.SUBPATTERN:
            yield from _walk_ops(av[-1])
        elif op in (sre_c.MAX_REPEAT, sre_c.MIN_REPEAT) or str(op) == "POSSESSIVE_REPEAT":
            yield from _walk_ops(av[2])
        elif op in (sre_c.ASSERT, sre_c.ASSERT_NOT):
            yield from _walk_ops(av[1])


def _repeat_local_groups(sub) -> list:
    defined = {av[0] for op, av in _walk_ops(sub) if op is sre_c.SUBPATTERN and av[0] is not None}
    return sorted({av for op, av in _walk_ops(sub) if op is sre_c.GROUPREF and av in defined})


def _group_values(p, g, flags) -> list:
    body = [list(av[-1]) for op, av in _walk_ops(p) if op is sre_c.SUBPATTERN and av[0] == g]
    if len(body) != 1 or len(body[0]) != 1:
        raise Unsupported("back-reference to a group that is not a single character")
    op, av = body[0][0]
    if op is sre_c.LITERAL:
        cs = {chr(av)}
    elif op is sre_c.IN:
        cs = set(_in_set(av, bool(flags & re.IGNORECASE)))
    else:
        raise Unsupported("back-reference to a group that is not a single character")
    if len(cs) > 6:
        raise Unsupported("back-reference to a group with too many values")
    return sorted(cs)


def _with_bindings(p, groups, flags, build) -> tuple:
    import itertools
    global _BINDS
    choices = [_group_values(p, g, flags) for g in groups]
    saved = dict(_BINDS)
    out = EMPTY
    try:
        for combo in itertools.product(*choices):
            _BINDS = dict(saved)
            _BINDS.update(dict(zip(groups, combo)))
            out = alt(out, build())
    finally:
        _BINDS = saved
    return out


def _all_repeat_local(p) -> set:
    out = set()
    for op, av in _walk_ops(p):
        if op in (sre_c.MAX_REPEAT, sre_c.MIN_REPEAT) or str(op) == "POSSESSIVE_REPEAT":
            out |= set(_repeat_local_groups(av[2]))
    return out


def _comp_top(p, k, flags) -> tuple:
    refs = sorted({av for op, av in _walk_ops(p) if op is sre_c.GROUPREF} - _all_repeat_local(p))
    if not refs:
        return _comp(p, k, flags)
    import itertools
    choices = []
    for g in refs:
        body = [list(av[-1]) for op, av in _walk_ops(p) if op is sre_c.SUBPATTERN and av[0] == g]
        if len(body) != 1 or len(body[0]) != 1:
            raise Unsupported("back-reference to a group that is not a single character")
        op, av = body[0][0]
        if op is sre_c.LITERAL:
            cs = {chr(av)}
        elif op is sre_c.IN:
            cs = set(_in_set(av, bool(flags & re.IGNORECASE)))
        else:
            raise Unsupported("back-reference to a group that is not a single character")
        if len(cs) > 6:
            raise Unsupported("back-reference to a group with too many values")
        choices.append(sorted(cs))
    out = EMPTY
    global _BINDS
    try:
        for combo in itertools.product(*choices):
            _BINDS = dict(zip(refs, combo))
            out = alt(out, _comp(p, k, flags))
    finally:
        _BINDS = {}
    return out


def _has_lookaround(seq) -> bool:
    for op, av in seq:
        if op in (sre_c.ASSERT, sre_c.ASSERT_NOT):
            return True
        if op is sre_c.BRANCH:
            if any(_has_lookaround(a) for a in av[1]):
                return True
        elif op is sre_c.SUBPATTERN:
            if _has_lookaround(av[-1]):
                return True
        elif op in (sre_c.MAX_REPEAT, sre_c.MIN_REPEAT):
            if _has_lookaround(av[2]):
                return True
    return False


def _starts_anchored(seq) -> bool:
    items = list(seq)
    if not items:
        return False
    op, av = items[0]
    if op is sre_c.AT and str(av) in ("AT_BEGINNING", "AT_BEGINNING_STRING"):
        return True
    if op is sre_c.SUBPATTERN:
        return _starts_anchored(av[-1])
    if op is sre_c.BRANCH:
        return all(_starts_anchored(a) for a in av[1])
    return False


def parse(pattern: str, flags: int = 0):
    try:
        return sre_parse.parse(pattern, flags)
    except re.error as e:
        raise Unsupported(f"pattern does not parse: {e}")


def full(pattern: str, flags: int = 0) -> tuple:
    """language of strings s with re.fullmatch(pattern, s)."""
    p = parse(pattern, flags)
    return _comp_top(p, EPS, p.state.flags)


def match_lang(pattern: str, flags: int = 0) -> tuple:
    """language of strings s with re.match(pattern, s) (prefix match)."""
    p = parse(pattern, flags)
    return _comp_top(p, ANYSTAR, p.state.flags)


def search_lang(pattern: str, flags: int = 0) -> tuple:
    """language of strings s with re.search(pattern, s)."""
    p = parse(pattern, flags)
    m = _comp_top(p, ANYSTAR, p.state.flags)
    if _starts_anchored(p):
        return m
    return cat(ANYSTAR, m)


def prefix_lang(pattern: str, flags: int = 0) -> tuple:
    """language of the strings that a match of `pattern` can *consume* (match then stop)."""
    p = parse(pattern, flags)
    return _comp_top(p, EPS, p.state.flags)


def consumed_lang(pattern: str, flags: int = 0) -> tuple:
    """language of the texts a match of `pattern` can consume; a look-behind in front of the pattern and a look-ahead behind it
    constrain the surroundings, not the consumed text, and are left out (exact as far as the consumed text goes)."""
    p = parse(pattern, flags)
    lo, hi = 0, len(p)
    while lo < hi and p[lo][0] in (sre_c.ASSERT, sre_c.ASSERT_NOT) and p[lo][1][0] < 0:
        lo += 1
    while hi > lo and p[hi - 1][0] in (sre_c.ASSERT, sre_c.ASSERT_NOT) and p[hi - 1][1][0] > 0:
        hi -= 1
    return _comp_top(p[lo:hi], EPS, p.state.flags)


def atoms_consuming(pattern: str, ch: str, flags: int = 0) -> List[str]:
    """the one-character items of the pattern (outside look-arounds) that accept the character `ch`, as text - for characters
    outside the engine's alphabet (a line break): 'can a match contain ch' is answered by 'is there an item that takes it'."""
    p = parse(pattern, flags)
    fl = p.state.flags
    out: List[str] = []

    def in_accepts(items) -> bool:
        neg, hit = False, False
        for op, av in items:
            if op is sre_c.NEGATE:
                neg = True
            elif op is sre_c.LITERAL:
                hit |= chr(av) == ch
            elif op is sre_c.RANGE:
                hit |= av[0] <= ord(ch) <= av[1]
            elif op is sre_c.CATEGORY:
                name = str(av)
                is_sp, is_dg, is_w = ch.isspace(), ch.isdigit(), (ch.isalnum() or ch == "_")
                hit |= {"CATEGORY_SPACE": is_sp, "CATEGORY_NOT_SPACE": not is_sp, "CATEGORY_DIGIT": is_dg, "CATEGORY_NOT_DIGIT": not is_dg,
                        "CATEGORY_WORD": is_w, "CATEGORY_NOT_WORD": not is_w}.get(name, True)
        return hit != neg

    def walk(seq):
        for op, av in seq:
            if op in (sre_c.ASSERT, sre_c.ASSERT_NOT):
                continue
            if op is sre_c.LITERAL and chr(av) == ch:
                out.append(repr(ch))
            elif op is sre_c.NOT_LITERAL and chr(av) != ch:
                out.append(f"[^{chr(av)}]")
            elif op is sre_c.ANY and (ch != "\n" or fl & re.DOTALL):
                out.append(".")
            elif op is sre_c.IN and in_accepts(av):
                out.append("[...]" if len(av) > 3 else "[" + "".join("^" if o is sre_c.NEGATE else chr(a) if o is sre_c.LITERAL else "\\?" for o, a in av) + "]")
            elif op is sre_c.BRANCH:
                for a in av[1]:
                    walk(a)
            elif op is sre_c.SUBPATTERN:
                walk(av[-1])
            elif op in (sre_c.MAX_REPEAT, sre_c.MIN_REPEAT) or str(op) == "POSSESSIVE_REPEAT":
                walk(av[2])
    walk(p)
    return out


def has_cased_literal(pattern: str, flags: int = 0) -> Optional[str]:
    """a cased literal/range occurring in the pattern where IGNORECASE is not in effect - neither through `flags`, a global
    `(?i)` nor a scoped `(?i:...)` (None if the pattern is case-neutral)."""
    p = parse(pattern, flags)

    def walk(seq, ic: bool) -> Optional[str]:
        for op, av in seq:
            if op in (sre_c.LITERAL, sre_c.NOT_LITERAL):
                ch = chr(av)
                if not ic and ch.lower() != ch.upper():
                    return ch
            elif op is sre_c.IN:
                if ic:
                    continue
                for o2, a2 in av:
                    if o2 is sre_c.LITERAL and chr(a2).lower() != chr(a2).upper():
                        return chr(a2)
                    if o2 is sre_c.RANGE:
                        lo, hi = a2
                        rng = [chr(i) for i in range(lo, min(hi, 127) + 1)]
                        letters = [c for c in rng if c.isalpha()]
                        if letters and not (set(c.lower() for c in letters) <= set(rng)
                                            and set(c.upper() for c in letters) <= set(rng)):
                            return f"{chr(lo)}-{chr(hi)}"
            elif op is sre_c.BRANCH:
                for a in av[1]:
                    r = walk(a, ic)
                    if r:
                        return r
            elif op is sre_c.SUBPATTERN:
                sub_ic = ic
                if len(av) == 4:
                    if av[1] & re.IGNORECASE:
                        sub_ic = True
                    if av[2] & re.IGNORECASE:
                        sub_ic = False
                r = walk(av[-1], sub_ic)
                if r:
                    return r
            elif op in (sre_c.MAX_REPEAT, sre_c.MIN_REPEAT):
                r = walk(av[2], ic)
                if r:
                    return r
            elif op in (sre_c.ASSERT, sre_c.ASSERT_NOT):
                r = walk(av[1], ic)
                if r:
                    return r
        return None
    return walk(p, bool(p.state.flags & re.IGNORECASE))


def split_at_group(pattern: str, flags: int, group: int) -> Tuple[tuple, tuple]:
    """(language of what precedes capturing group `group`, language of the group and what follows it) for a pattern
    whose top level is a concatenation in which the group occurs - decided on the parsed regex, so the spelling of
    the pieces (verbose mode, [^\\n]* for .*, non-capturing groups) does not matter."""
    p = parse(pattern, flags)
    items = list(p)
    for i, (op, av) in enumerate(items):
        if op is sre_c.SUBPATTERN and av[0] == group:
            before = [it for it in items[:i]]
            return _comp(before, EPS, p.state.flags), _comp(items[i:], EPS, p.state.flags)
    raise Unsupported(f"capturing group {group} is not a top-level item of the pattern")


def group_starting_with(pattern: str, flags: int, first: str) -> Tuple[int, Optional[str]]:
    """(number, name) of the top-level capturing group whose text starts with the literal character `first` - the group is
    found by what it captures, not by its position or spelling"""
    p = parse(pattern, flags)
    names = {v: k for k, v in p.state.groupdict.items()}
    for op, av in p:
        if op is sre_c.SUBPATTERN and av[0] is not None:
            sub = list(av[-1])
            if sub and sub[0][0] is sre_c.LITERAL and chr(sub[0][1]) == first:
                return av[0], names.get(av[0])
    raise Unsupported(f"no top-level capturing group starts with {first!r}")
