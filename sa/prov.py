"""E6a — path provenance: resolve the destination expression of a file-system mutating call to
`ROOT(output_dir|graph_dir) / component / ...` by following local definitions, `self.X`
assignments in constructors, properties (including subclass overrides), parameters (through
their call sites, incl. constructor calls and process_map fan-out) and a reviewed table of
path-safe component producers.  Anything not understood is UNSAFE (never silently fine)."""
from __future__ import annotations

import ast
import re
from dataclasses import dataclass, field
from typing import Dict, List, Optional, Tuple

from .core import AnalysisError
from .pymodel import PyModel, call_name


@dataclass
class Prov:
    kind: str                 # PATH | COMP | INPUT | UNSAFE
    root: str = ""            # OUT | GRAPH  (for PATH)
    comps: List[str] = field(default_factory=list)
    why: str = ""

    def __str__(self):
        if self.kind == "PATH":
            return f"{self.root}" + "".join(f"/{c}" for c in self.comps)
        if self.kind == "COMP":
            return f"<{self.why}>"
        return f"{self.kind}({self.why})"


ROOT_KEYS = {"output_dir": "OUT", "graph_dir": "GRAPH"}

# attribute reads that yield a single path component without separators, with the reason
SAFE_COMPONENT_ATTRS = {
    "ident": "NameSelector.get_name replaces '/' (checked by C10.R3)",
    "imgfile": "graph ident: f-string of get_dir(), entity ident and class name",
    "template_path": "class constant",
    "out_page": "class constant",
    "object_page": "ident + '.html'",
}
# method calls yielding a safe component
SAFE_COMPONENT_CALLS = {
    "os.path.basename": "basename strips every directory part",
    "get_dir": "one of the literal directory names (C09.R5)",
}


class Resolver:
    def __init__(self, py: PyModel):
        self.py = py
        self.depth = 0
        self._calls_by_name: Dict[str, List[ast.Call]] = {}
        for mod, tree in py.modules.items():
            for c in ast.walk(tree):
                if isinstance(c, ast.Call):
                    n = call_name(c).split(".")[-1]
                    self._calls_by_name.setdefault(n, []).append(c)

    # ---------------------------------------------------------------- entry
    def resolve(self, expr: ast.AST, fn: Optional[ast.AST], cls: Optional[str],
                binds: Optional[dict] = None) -> Prov:
        self.depth += 1
        try:
            if self.depth > 25:
                return Prov("UNSAFE", why="resolution too deep")
            return self._res(expr, fn, cls, binds or {})
        finally:
            self.depth -= 1

    # ---------------------------------------------------------------- helpers
    def _lit(self, s: str) -> Prov:
        if s.startswith("/") or ".." in s.split("/"):
            return Prov("UNSAFE", why=f"literal {s!r} escapes")
        return Prov("COMP", why=repr(s))

    def _div(self, left: Prov, right: Prov, node) -> Prov:
        if left.kind == "PATH":
            if right.kind == "COMP":
                return Prov("PATH", left.root, left.comps + [right.why])
            if right.kind == "PATH" and right.root == "REL":
                return Prov("PATH", left.root, left.comps + right.comps)
            return Prov("UNSAFE", why=f"component `{ast.unparse(node.right)}` is not provably inside the "
                                      f"directory: {right.why or right.kind}")
        if left.kind == "COMP" and right.kind == "COMP":
            return Prov("PATH", "REL", [left.why, right.why])
        if left.kind == "COMP" and right.kind == "PATH" and right.root == "REL":
            return Prov("PATH", "REL", [left.why] + right.comps)       # Path("page") / <relative path>
        if left.kind == "PATH" and left.root == "REL":
            return left
        if left.kind == "INPUT":
            return Prov("INPUT", why=left.why)
        return Prov("UNSAFE", why=f"`{ast.unparse(node.left)}`: {left.why or left.kind}")

    def _res(self, e: ast.AST, fn, cls, binds) -> Prov:
        py = self.py
        if isinstance(e, ast.Constant) and isinstance(e.value, str):
            return self._lit(e.value)
        if isinstance(e, ast.JoinedStr):
            for v in e.values:
                if isinstance(v, ast.FormattedValue):
                    p = self.resolve(v.value, fn, cls, binds)
                    if p.kind not in ("COMP",) and not self._is_name_like(v.value):
                        return Prov("UNSAFE", why=f"f-string part `{ast.unparse(v.value)}`: {p.why or p.kind}")
                elif isinstance(v, ast.Constant) and ("/" in str(v.value) or ".." in str(v.value)):
                    return Prov("UNSAFE", why="f-string literal with separator")
            return Prov("COMP", why=f"f-string {ast.unparse(e)}")
        if isinstance(e, ast.BinOp) and isinstance(e.op, ast.Div):
            return self._div(self.resolve(e.left, fn, cls, binds), self.resolve(e.right, fn, cls, binds), e)
        if isinstance(e, ast.BinOp) and isinstance(e.op, ast.Add):
            l, r = self.resolve(e.left, fn, cls, binds), self.resolve(e.right, fn, cls, binds)
            if l.kind == "PATH" and r.kind == "COMP":
                return Prov("PATH", l.root, l.comps[:-1] + [(l.comps[-1] if l.comps else "") + "+" + r.why])
            if l.kind == "COMP" and r.kind == "COMP":
                return Prov("COMP", why=f"{l.why}+{r.why}")
            return Prov("UNSAFE", why=f"concatenation `{ast.unparse(e)}`")
        if isinstance(e, ast.BoolOp) and isinstance(e.op, ast.Or):
            ps = [self.resolve(v, fn, cls, binds) for v in e.values]
            bad = [p for p in ps if p.kind == "UNSAFE"]
            return bad[0] if bad else ps[0]
        if isinstance(e, ast.Subscript):
            base = ast.unparse(e.value)
            if isinstance(e.slice, ast.Constant) and isinstance(e.slice.value, str) and \
                    base in ("self.data", "data"):
                k = e.slice.value
                if k in ROOT_KEYS:
                    return Prov("PATH", ROOT_KEYS[k])
                return Prov("INPUT", why=f"setting {k}")
            # args[-1] etc: element of a tuple parameter
            if isinstance(e.value, ast.Name) and isinstance(e.slice, (ast.Constant, ast.UnaryOp)):
                idx = self._const_int(e.slice)
                if idx is not None:
                    return self._param_element(e.value.id, idx, fn, cls, binds)
            return Prov("UNSAFE", why=f"subscript `{ast.unparse(e)}`")
        if isinstance(e, ast.Call):
            cn = call_name(e)
            last = cn.split(".")[-1]
            if cn in ("pathlib.Path", "Path", "str", "os.fspath", "pathlib.PurePath") and len(e.args) == 1:
                return self.resolve(e.args[0], fn, cls, binds)
            # Path(a, b, ...) / a.joinpath(b, ...) / os.path.join(a, b, ...): the same as a / b / ...
            parts = None
            if cn in ("pathlib.Path", "Path", "pathlib.PurePath", "os.path.join") and len(e.args) > 1 and not e.keywords:
                parts = list(e.args)
            elif last == "joinpath" and isinstance(e.func, ast.Attribute) and e.args and not e.keywords:
                parts = [e.func.value] + list(e.args)
            if parts is not None and not any(isinstance(a, ast.Starred) for a in parts):
                acc = self.resolve(parts[0], fn, cls, binds)
                for a in parts[1:]:
                    node = ast.BinOp(left=parts[0], op=ast.Div(), right=a)
                    acc = self._div(acc, self.resolve(a, fn, cls, binds), node)
                    if acc.kind == "UNSAFE":
                        return acc
                return acc
            if cn in SAFE_COMPONENT_CALLS:
                return Prov("COMP", why=f"{cn}(..)")
            if last in SAFE_COMPONENT_CALLS and isinstance(e.func, ast.Attribute):
                return Prov("COMP", why=f".{last}()")
            if last in ("resolve", "absolute", "with_suffix", "expanduser") and isinstance(e.func, ast.Attribute):
                return self.resolve(e.func.value, fn, cls, binds)
            if last in ("with_name", "with_stem") and isinstance(e.func, ast.Attribute) and len(e.args) == 1:
                # same directory, another last component
                base = self.resolve(e.func.value, fn, cls, binds)
                comp = self.resolve(e.args[0], fn, cls, binds)
                if base.kind == "PATH" and comp.kind == "COMP" and base.comps:
                    return Prov("PATH", base.root, base.comps[:-1] + [comp.why])
                if base.kind == "PATH" and not base.comps:
                    return Prov("UNSAFE", why=f"`{ast.unparse(e)[:60]}` is a sibling of the {base.root} directory, not a path inside it")
                return base if base.kind == "UNSAFE" else Prov("UNSAFE", why=f"`{ast.unparse(e)[:60]}`: {comp.why or comp.kind}")
            if last == "get" and isinstance(e.func, ast.Attribute) and \
                    ast.unparse(e.func.value) in ("self.data", "data") and e.args and \
                    isinstance(e.args[0], ast.Constant):
                k = e.args[0].value
                if k in ROOT_KEYS:
                    return Prov("PATH", ROOT_KEYS[k])
                return Prov("INPUT", why=f"setting {k}")
            return Prov("UNSAFE", why=f"call `{ast.unparse(e)[:60]}`")
        if isinstance(e, ast.Attribute):
            # settings.output_dir / proj_data.output_dir
            if e.attr in ROOT_KEYS and isinstance(e.value, ast.Name) and \
                    e.value.id in ("settings", "proj_data", "self.settings"):
                return Prov("PATH", ROOT_KEYS[e.attr])
            if e.attr in ROOT_KEYS and ast.unparse(e.value).endswith("settings"):
                return Prov("PATH", ROOT_KEYS[e.attr])
            if isinstance(e.value, ast.Name) and e.value.id == "self" and cls:
                return self._self_attr(e.attr, cls, binds)
            if e.attr in SAFE_COMPONENT_ATTRS:
                return Prov("COMP", why=f".{e.attr}")
            if e.attr == "name":
                return Prov("COMP", why=".name (base name of a file / Path.name)")
            if e.attr == "parent":
                p = self.resolve(e.value, fn, cls, binds)
                if p.kind == "PATH" and p.comps:
                    return Prov("PATH", p.root, p.comps[:-1])
                return Prov("UNSAFE", why=f"`.parent` of {p}")
            return Prov("UNSAFE", why=f"attribute `{ast.unparse(e)}` has no path-safety argument")
        if isinstance(e, ast.Name):
            return self._name(e.id, fn, cls, binds, e)
        return Prov("UNSAFE", why=f"expression `{ast.unparse(e)[:60]}`")

    @staticmethod
    def _is_name_like(e) -> bool:
        return False

    @staticmethod
    def _const_int(s) -> Optional[int]:
        if isinstance(s, ast.Constant) and isinstance(s.value, int):
            return s.value
        if isinstance(s, ast.UnaryOp) and isinstance(s.op, ast.USub) and isinstance(s.operand, ast.Constant):
            return -s.operand.value
        return None

    # ---------------------------------------------------------------- names
    def _params(self, fn) -> List[str]:
        a = fn.args
        return [x.arg for x in a.posonlyargs + a.args + a.kwonlyargs]

    def _name(self, name: str, fn, cls, binds, use: Optional[ast.AST] = None) -> Prov:
        py = self.py
        # a use inside `for <name> in ...` refers to that loop's variable, not to other loops reusing the name
        own_loop = None
        n0 = use
        while n0 is not None and n0 in py.parents:
            n0 = py.parents[n0]
            if isinstance(n0, ast.For) and isinstance(n0.target, ast.Name) and n0.target.id == name:
                own_loop = n0
                break
            if isinstance(n0, (ast.FunctionDef, ast.AsyncFunctionDef)):
                break
        if name in binds:
            expr, bfn, bcls, bbinds = binds[name]
            return self.resolve(expr, bfn, bcls, bbinds)
        if fn is not None:
            defs = []
            for n in ast.walk(fn):
                if isinstance(n, ast.Assign):
                    for t in n.targets:
                        if isinstance(t, ast.Name) and t.id == name:
                            defs.append(("assign", n.value))
                    # `*rest, last = args` / `first, second = args`: element of a tuple parameter
                    for t in (n.targets if isinstance(n, ast.Assign) else []):
                        if isinstance(t, (ast.Tuple, ast.List)) and isinstance(n.value, ast.Name):
                            for k, el in enumerate(t.elts):
                                if isinstance(el, ast.Name) and el.id == name:
                                    starred_before = any(isinstance(x, ast.Starred) for x in t.elts[:k])
                                    idx = k - len(t.elts) if starred_before else k
                                    defs.append(("assign", ast.Subscript(value=n.value, slice=ast.Constant(value=idx), ctx=ast.Load())))
                elif isinstance(n, ast.AnnAssign) and isinstance(n.target, ast.Name) and \
                        n.target.id == name and n.value is not None:
                    defs.append(("assign", n.value))
                elif isinstance(n, ast.NamedExpr) and n.target.id == name:
                    defs.append(("assign", n.value))
                elif isinstance(n, (ast.For, ast.comprehension)) and isinstance(n.target, ast.Name) \
                        and n.target.id == name:
                    if own_loop is not None and n is not own_loop:
                        continue
                    if isinstance(n, ast.For) and self._escape_guarded(n, name):
                        defs.append(("guarded", n.iter))
                    else:
                        defs.append(("iter", n.iter))
            is_param = name in self._params(fn)
            results: List[Prov] = []
            for kind, v in defs:
                if kind == "assign":
                    mentions_self = any(isinstance(x, ast.Name) and x.id == name for x in ast.walk(v))
                    if mentions_self:
                        if not is_param:
                            results.append(Prov("UNSAFE", why=f"self-referential definition of {name}"))
                            continue
                        # x = f(x): evaluate with x bound to the parameter value
                        pv = self._param(name, fn, cls)
                        sub = _Subst(name, pv)
                        results.append(self._res_subst(v, fn, cls, binds, sub))
                    else:
                        results.append(self.resolve(v, fn, cls, binds))
                elif kind == "guarded":
                    results.append(Prov("PATH", "REL", [f"<{name}: relative, no '..' (guarded in the loop)>"]))
                else:
                    results.append(self._iter_elements(v, fn, cls, binds))
            if not defs and is_param:
                return self._param(name, fn, cls)
            if is_param and defs and not results:
                return self._param(name, fn, cls)
            if results:
                bad = [r for r in results if r.kind == "UNSAFE"]
                if bad:
                    return bad[0]
                return results[-1]
        # module-level global
        mod = py.module_of(fn) if fn is not None else None
        if mod:
            for st in py.modules[mod].body:
                if isinstance(st, ast.Assign) and any(isinstance(t, ast.Name) and t.id == name for t in st.targets):
                    if "__file__" in ast.unparse(st.value):
                        return Prov("INPUT", why="package directory")
                    return self.resolve(st.value, None, None, {})
        return Prov("UNSAFE", why=f"name `{name}` is not defined by anything understood")

    @staticmethod
    def _escape_guarded(loop: ast.For, name: str) -> bool:
        """Sanitiser idiom: inside the loop, every use of the loop variable as a path component runs only for values that are
        neither absolute nor contain a '..' part.  The rejecting test `isabs(x) or '..' in Path(x).parts` (any equivalent
        spelling; possibly hoisted into a local) either ends the iteration early (`if T: ...; continue`) or selects the branch
        (`if not T: <use> else: warn`)."""
        body = ast.Module(body=loop.body, type_ignores=[])
        single = {}
        for a_ in ast.walk(body):
            if isinstance(a_, ast.Assign) and len(a_.targets) == 1 and isinstance(a_.targets[0], ast.Name):
                single.setdefault(a_.targets[0].id, []).append(a_.value)

        import copy as _copy

        class _Sub(ast.NodeTransformer):
            def visit_Name(self, n):
                if isinstance(n.ctx, ast.Load) and n.id != name and len(single.get(n.id, [])) == 1:
                    return _copy.deepcopy(single[n.id][0])
                return n

        def expand(t: ast.AST) -> ast.AST:
            """locals that are bound once in the loop body are replaced by their value (`subdir = PurePath(item)`)"""
            t = _copy.deepcopy(t)
            for _ in range(3):
                t = _Sub().visit(t)
            return t

        def is_abs(x: ast.AST) -> bool:
            u = ast.unparse(x)
            return bool(re.fullmatch(rf"(os\.path\.isabs\({name}\)|(pathlib\.)?(Pure)?(Posix)?Path\({name}\)\.is_absolute\(\))", u))

        def has_dots(x: ast.AST) -> bool:
            u = ast.unparse(x)
            return bool(re.fullmatch(rf"('\.\.'|os\.pardir|os\.path\.pardir) in (pathlib\.)?(Pure)?(Posix)?Path\({name}\)\.parts", u))

        def rejecting(t: ast.AST) -> bool:
            t = expand(t)
            return isinstance(t, ast.BoolOp) and isinstance(t.op, ast.Or) and any(is_abs(v) for v in t.values) and \
                any(has_dots(v) for v in t.values)

        def accepting(t: ast.AST) -> bool:
            t = expand(t)
            if isinstance(t, ast.UnaryOp) and isinstance(t.op, ast.Not):
                return rejecting(t.operand)
            return isinstance(t, ast.BoolOp) and isinstance(t.op, ast.And) and \
                any(isinstance(v, ast.UnaryOp) and isinstance(v.op, ast.Not) and is_abs(v.operand) for v in t.values) and \
                any((isinstance(v, ast.UnaryOp) and isinstance(v.op, ast.Not) and has_dots(v.operand)) or
                    (isinstance(v, ast.Compare) and isinstance(v.ops[0], ast.NotIn) and has_dots(
                        ast.Compare(left=v.left, ops=[ast.In()], comparators=v.comparators))) for v in t.values)

        def joins(n: ast.AST) -> bool:
            return (isinstance(n, ast.BinOp) and isinstance(n.op, ast.Div) and any(isinstance(x, ast.Name) and x.id == name for x in ast.walk(n.right))) or \
                (isinstance(n, ast.Call) and isinstance(n.func, ast.Attribute) and n.func.attr in ("joinpath", "join") and
                 any(isinstance(x, ast.Name) and x.id == name for a2 in n.args for x in ast.walk(a2)))

        # (a) early exit: nothing but local bookkeeping (no path is built) precedes `if T: ...; continue`
        for st in loop.body:
            if isinstance(st, ast.If) and rejecting(st.test) and st.body and isinstance(st.body[-1], (ast.Continue, ast.Raise, ast.Return)) \
                    and not st.orelse:
                return True
            if isinstance(st, (ast.Assign, ast.AnnAssign)) and not any(joins(n) for n in ast.walk(st)):
                continue
            break

        # (b) branch form: path joins with the variable occur only where the test has accepted the value
        safe_nodes = set()
        found_branch = False
        for i in ast.walk(body):
            if isinstance(i, ast.If):
                if accepting(i.test):
                    found_branch = True
                    for st in i.body:
                        safe_nodes |= {id(x) for x in ast.walk(st)}
                elif rejecting(i.test):
                    found_branch = True
                    for st in i.orelse:
                        safe_nodes |= {id(x) for x in ast.walk(st)}
        if not found_branch:
            return False
        return all(id(n) in safe_nodes for n in ast.walk(body) if joins(n))

    def _res_subst(self, v, fn, cls, binds, sub: "_Subst") -> Prov:
        b2 = dict(binds)
        b2[sub.name] = (None, None, None, None)
        # evaluate v with name -> precomputed Prov
        saved = self._name

        def patched(name, fn2, cls2, binds2, use=None):
            if name == sub.name and fn2 is fn:
                return sub.prov
            return saved(name, fn2, cls2, binds2, use)
        self._name = patched  # type: ignore
        try:
            return self._res(v, fn, cls, binds)
        finally:
            self._name = saved  # type: ignore

    def _iter_elements(self, it, fn, cls, binds) -> Prov:
        if isinstance(it, (ast.List, ast.Tuple)) and it.elts and all(
                isinstance(x, ast.Constant) and isinstance(x.value, str) for x in it.elts):
            for x in it.elts:
                p = self._lit(x.value)
                if p.kind == "UNSAFE":
                    return p
            return Prov("COMP", why="one of " + ",".join(x.value for x in it.elts))
        # a module-level / class-level constant sequence of literals, referred to by name
        if isinstance(it, (ast.Name, ast.Attribute)):
            val = PyModel._UNKNOWN
            if isinstance(it, ast.Name) and fn is not None:
                val = self.py.module_env(self.py.module_of(fn)).get(it.id, PyModel._UNKNOWN)
            elif isinstance(it, ast.Attribute) and isinstance(it.value, ast.Name) and it.value.id in ("self", "cls") and cls:
                for c in self.py.mro(cls):
                    v = self.py.const_value(c, it.attr) if c in self.py.classes else PyModel._UNKNOWN
                    if v is not PyModel._UNKNOWN:
                        val = v
                        break
            elif isinstance(it, ast.Attribute) and isinstance(it.value, ast.Name) and it.value.id in self.py.classes:
                val = self.py.const_value(it.value.id, it.attr)
            if isinstance(val, (tuple, list)) and val and all(isinstance(x, str) for x in val):
                for x in val:
                    p = self._lit(x)
                    if p.kind == "UNSAFE":
                        return p
                return Prov("COMP", why="one of " + ",".join(val))
        if isinstance(it, ast.Call) and call_name(it).split(".")[-1] in ("rglob", "glob", "iterdir"):
            base = self.resolve(it.func.value, fn, cls, binds)
            if base.kind == "PATH":
                return Prov("PATH", base.root, base.comps + ["<found below it>"])
            return Prov("UNSAFE", why=f"walk of {base}")
        return Prov("UNSAFE", why=f"element of `{ast.unparse(it)[:60]}` (not a list of literals)")

    # ---------------------------------------------------------------- parameters
    def _callsites(self, fn, cls) -> List[Tuple[ast.Call, int]]:
        """call sites of fn; second item = offset of first explicit parameter (1 when `self` is implicit)."""
        py = self.py
        name = fn.name
        out = []
        if name == "__init__" and cls:
            names = [cls] + [c for c in py.subclasses(cls) if py.resolve_method(c, "__init__")[1] is fn]
            for n in set(names):
                for c in self._calls_by_name.get(n, []):
                    out.append((c, 1))
            # super().__init__(..) calls from subclasses
            for c in self._calls_by_name.get("__init__", []):
                ecls = py.enclosing_class(c)
                if ecls and ecls != cls and py.is_subclass(ecls, cls):
                    f = c.func
                    if isinstance(f, ast.Attribute) and isinstance(f.value, ast.Call) and \
                            call_name(f.value) == "super":
                        out.append((c, 1))
            return out
        static = any(ast.unparse(d) in ("staticmethod",) for d in getattr(fn, "decorator_list", []))
        for c in self._calls_by_name.get(name, []):
            if py.enclosing_function(c) is fn and not cls:
                continue
            if isinstance(c.func, ast.Attribute):
                out.append((c, 0 if static else (1 if cls else 0)))
            elif isinstance(c.func, ast.Name):
                out.append((c, 0 if not cls else 1))
        return out

    def _param(self, name: str, fn, cls) -> Prov:
        py = self.py
        params = self._params(fn)
        idx = params.index(name)
        sites = self._callsites(fn, cls)
        results = []
        for c, off in sites:
            arg = None
            for k in c.keywords:
                if k.arg == name:
                    arg = k.value
            pos = idx - off
            if arg is None and 0 <= pos < len(c.args):
                arg = c.args[pos]
            if arg is None:
                # default value
                a = fn.args
                defaults = dict(zip([x.arg for x in (a.posonlyargs + a.args)][-len(a.defaults):] if a.defaults else [], a.defaults))
                if name in defaults:
                    arg = defaults[name]
                    results.append(self.resolve(arg, fn, cls, {}))
                continue
            cfn = py.enclosing_function(c)
            ccls = py.enclosing_class(c)
            results.append(self.resolve(arg, cfn, ccls, {}))
        # function passed as a value to process_map(fn, iterable)
        for c in self._calls_by_name.get("process_map", []):
            if c.args and isinstance(c.args[0], ast.Name) and c.args[0].id == fn.name and len(c.args) > 1 and idx == 0:
                results.append(Prov("INPUT", why="process_map element"))  # resolved through _param_element
        if not results:
            return Prov("UNSAFE", why=f"parameter `{name}` of {fn.name}: no call site found")
        bad = [r for r in results if r.kind == "UNSAFE"]
        if bad:
            return bad[0]
        paths = [r for r in results if r.kind == "PATH"]
        if paths:
            if len(paths) != len(results):
                other = [r for r in results if r.kind != "PATH"][0]
                return Prov("UNSAFE", why=f"parameter `{name}` of {fn.name} is {other} at some call site")
            return paths[0]
        return results[0]

    def _param_element(self, name: str, idx: int, fn, cls, binds) -> Prov:
        """args[idx] where `args` is a parameter fed by process_map(fn, <list of tuples>)."""
        py = self.py
        if fn is None or name not in self._params(fn):
            return Prov("UNSAFE", why=f"`{name}[{idx}]`")
        results = []
        for c in self._calls_by_name.get("process_map", []):
            if c.args and isinstance(c.args[0], ast.Name) and c.args[0].id == fn.name and len(c.args) > 1:
                cfn, ccls = py.enclosing_function(c), py.enclosing_class(c)
                it = c.args[1]
                if isinstance(it, (ast.ListComp, ast.GeneratorExp)) and isinstance(it.elt, ast.Tuple):
                    # [(*graphs, self.graphdir) for graphs in groups]: an index counted from the end (or in front of any
                    # starred element) names one element of the display
                    elts = it.elt.elts
                    star = [i for i, x in enumerate(elts) if isinstance(x, ast.Starred)]
                    pick = None
                    if idx < 0 and (not star or len(elts) + idx > star[-1]):
                        pick = elts[idx]
                    elif idx >= 0 and (not star or idx < star[0]):
                        pick = elts[idx]
                    if pick is None:
                        return Prov("UNSAFE", why="process_map element index falls into a starred part of the tuple")
                    results.append(self.resolve(pick, cfn, ccls, {}))
                    continue
                if not isinstance(it, ast.Name):
                    return Prov("UNSAFE", why="process_map iterable is not a local list")
                # elements: tuples appended/extended to the list
                for n in ast.walk(cfn):
                    if isinstance(n, ast.Call) and call_name(n) in (f"{it.id}.extend", f"{it.id}.append"):
                        for t in ast.walk(n.args[0]):
                            if isinstance(t, ast.Tuple):
                                elt = t.elts[idx]
                                results.append(self.resolve(elt, cfn, ccls, {}))
        if not results:
            return Prov("UNSAFE", why=f"`{name}[{idx}]`: no process_map feed found")
        bad = [r for r in results if r.kind != "PATH"]
        return bad[0] if bad else results[0]

    # ---------------------------------------------------------------- self attributes
    def _self_attr(self, attr: str, cls: str, binds) -> Prov:
        py = self.py
        # class constants
        for c in py.mro(cls):
            ci = py.classes.get(c)
            if ci and attr in ci.class_attrs and attr not in ci.methods:
                v = ci.class_attrs[attr]
                if isinstance(v, ast.Constant) and isinstance(v.value, str):
                    return self._lit(v.value)
        if attr in SAFE_COMPONENT_ATTRS:
            return Prov("COMP", why=f"self.{attr}")
        # properties (with subclass overrides)
        impls = []
        for c in [cls] + [s for s in py.subclasses(cls) if s != cls]:
            r = py.resolve_method(c, attr)
            if r and attr in py.classes[r[0]].properties and (r[0], r[1]) not in impls:
                impls.append((r[0], r[1]))
        if impls:
            results = []
            for owner, fn in impls:
                rets = [n.value for n in ast.walk(fn) if isinstance(n, ast.Return) and n.value is not None]
                if not rets:
                    continue   # abstract (raise NotImplementedError)
                for r in rets:
                    results.append(self.resolve(r, fn, owner, {}))
            if results:
                bad = [r for r in results if r.kind == "UNSAFE"]
                if bad:
                    return bad[0]
                return results[0]
        # assignments self.attr = ... in the class (constructor first)
        results = []
        for c in py.mro(cls):
            ci = py.classes.get(c)
            if not ci:
                continue
            for mname, fn in ci.methods.items():
                for n in ast.walk(fn):
                    if isinstance(n, (ast.Assign, ast.AnnAssign)):
                        tg = n.targets if isinstance(n, ast.Assign) else [n.target]
                        for t in tg:
                            if isinstance(t, ast.Attribute) and t.attr == attr and \
                                    isinstance(t.value, ast.Name) and t.value.id == "self" and \
                                    getattr(n, "value", None) is not None:
                                results.append(self.resolve(n.value, fn, c, {}))
            if results:
                break
        if results:
            bad = [r for r in results if r.kind == "UNSAFE"]
            return bad[0] if bad else results[0]
        return Prov("UNSAFE", why=f"self.{attr}: no definition found in {cls}")


class _Subst:
    def __init__(self, name, prov):
        self.name = name
        self.prov = prov
