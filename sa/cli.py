"""CLI: python -m sa.cli <Cxx> [--tier quick|thorough] [--root /repo] [--replay file]"""
from __future__ import annotations

import argparse
import importlib
import json
import os
import sys
from pathlib import Path

from .core import AnalysisError, run_property
from .ctx import Ctx


def main(argv=None) -> int:
    ap = argparse.ArgumentParser()
    ap.add_argument("prop")
    ap.add_argument("--tier", default=os.environ.get("VERIF_TIER") or "quick",
                    choices=["quick", "thorough"])
    ap.add_argument("--root", default=os.environ.get("VERIF_ROOT", "/repo"))
    ap.add_argument("--replay", default=None)
    a = ap.parse_args(argv)
    prop = a.prop.upper()
    if a.replay:
        try:
            d = json.loads(Path(a.replay).read_text())
            print(f"replay: {d['property']} {d['rule']} {d['construct']}: {d['detail']} ({d['location']})")
            print("re-running the static check on the current tree:")
        except Exception as e:  # noqa
            print(f"cannot read replay file: {e}")
    try:
        mod = importlib.import_module(f"sa.rules.{prop.lower()}")
    except ModuleNotFoundError:
        print(f"ANALYSIS-ERROR property={prop} no rules implemented")
        return 2
    try:
        ctx = Ctx(Path(a.root))
    except AnalysisError as e:
        print(f"ANALYSIS-ERROR property={prop} {e}")
        return 2
    return run_property(prop, mod.RULES, ctx, a.tier, mod.EXPLANATION, mod.ASSUMPTIONS)


if __name__ == "__main__":
    try:
        rc = main()
    except SystemExit:
        raise
    except BaseException:  # never let a traceback look like a violation
        import traceback
        print("ANALYSIS-ERROR internal:\n" + traceback.format_exc())
        rc = 2
    sys.stdout.flush()
    sys.exit(rc)
