"""Summary of what a graph class's `add_node(self, hop_nodes, hop_edges, node, colour)` does, independent of how the loops are
written: which *relations* of `node` (node.calls, getattr(node, "used_by", []), node.comp_of.items(), node.ancestor ...) supply
the neighbours, in which direction and style the edges are drawn, whether the neighbour is queued into the hop (and under
which guard), whether the iteration order is fixed (sorted / insertion ordered), and under which conditions all this happens.

The facts are derived by *element provenance*: an edge endpoint or a queued node is a variable; the variable is bound by a
`for` statement or a comprehension; its iterable is unwound through sorted/list/chain/zip/enumerate/.items()/locals/
comprehensions down to an attribute of `node`.  Edge objects that are first collected in lists and read back through
`edge["tail_node"]` are followed through the factory's dictionary.  Works on the canonical program (sa/inline.py), so helper
functions, chain()/zip(repeat()) plumbing and `.extend(generator)` forms have already been reduced to plain loops."""
from __future__ import annotations

import ast
import re
from dataclasses import dataclass, field
from typing import Dict, List, Optional, Set, Tuple

from .core import AnalysisError
from .pymodel import call_name
from . import astq

_BUILTIN_CALLEES = {"getattr", "isinstance", "sorted", "len", "hasattr", "type", "id", "str", "list", "tuple", "set", "zip", "enumerate",
                    "chain", "repeat", "print", "warn", "min", "max", "sum", "any", "all", "iter", "next", "reversed", "dict", "range"}


@dataclass
class IterInfo:
    rels: Set[str] = field(default_factory=set)
    sorted: bool = False
    unknown: bool = False


@dataclass
class EdgeFact:
    rel: str                 # relation the non-`node` endpoint comes from ('?' if not understood)
    orient: str              # 'out' (node -> member), 'in' (member -> node) or a text
    style: Set[str]          # {'solid'}, {'dashed'}, both, or {'?'}
    node: ast.AST            # the factory call
    top: ast.AST             # the statement of the function body it belongs to
    sorted: bool
    conds: List[str]         # enclosing if-tests (text, with polarity prefix 'not ' for else branches)
    other: str               # source text of the non-node endpoint
    loop: Optional[ast.AST]  # the statement / comprehension that binds the endpoint


@dataclass
class AddFact:
    rel: str
    guarded: bool            # joins the hop only if `not in self.added`
    guards: List[str]
    node: ast.AST
    var: str


class HopSummary:
    def __init__(self, py, cls: str):
        self.py, self.cls = py, cls
        owner = next((c for c in py.mro(cls) if c in py.classes and "add_node" in py.classes[c].methods and c != "FortranGraph"), None)
        if owner is None:
            raise AnalysisError(f"{cls}.add_node not found")
        self.fn = py.ifunc(f"{owner}.add_node")      # the class's own, or the one it inherits
        ps = [a.arg for a in self.fn.args.args]
        if len(ps) < 4:
            raise AnalysisError(f"{cls}.add_node: expected (self, hop_nodes, hop_edges, node, ...)")
        self.nodes_p, self.edges_p, self.node_p = ps[1], ps[2], ps[3]
        self.parents: Dict[ast.AST, ast.AST] = {}
        for n in ast.walk(self.fn):
            for c in ast.iter_child_nodes(n):
                self.parents[c] = n
        self.factories = self._factories()
        self.edges: List[EdgeFact] = []
        self.adds: List[AddFact] = []
        self._collect()

    # ------------------------------------------------------------------ edge factories of the graphs module
    def _factories(self) -> Dict[str, Tuple[Set[str], Dict[str, int]]]:
        """name -> (styles, {dict key -> positional index of the parameter stored under it})"""
        py = self.py
        out: Dict[str, Tuple[Set[str], Dict[str, int]]] = {}
        tree = py.modules["graphs"]
        funcs = {n.name: n for n in tree.body if isinstance(n, ast.FunctionDef)}
        # base factories: return a dict display
        for name, fn in funcs.items():
            for r in ast.walk(fn):
                pairs = []
                if isinstance(r, ast.Return) and isinstance(r.value, ast.Name):
                    # `edge = {...}; ...; return edge`
                    vals = [st.value for st in ast.walk(fn) if isinstance(st, ast.Assign) and len(st.targets) == 1
                            and isinstance(st.targets[0], ast.Name) and st.targets[0].id == r.value.id]
                    if len(vals) == 1:
                        r = ast.Return(value=vals[0])
                if isinstance(r, ast.Return) and isinstance(r.value, ast.Dict):
                    pairs = [(k.value, v) for k, v in zip(r.value.keys, r.value.values) if isinstance(k, ast.Constant)]
                elif isinstance(r, ast.Return) and isinstance(r.value, ast.Call) and call_name(r.value) == "dict" and not r.value.args:
                    pairs = [(k.arg, k.value) for k in r.value.keywords if k.arg]
                if pairs:
                    params = [a.arg for a in fn.args.args]
                    keys = {k: params.index(v.id) for k, v in pairs if isinstance(v, ast.Name) and v.id in params}
                    if len(keys) >= 2:
                        out[name] = ({"?"}, keys)
        # wrappers: return base(<params...>, "style", ...)
        for _ in range(2):
            for name, fn in funcs.items():
                if name in out:
                    continue
                for r in ast.walk(fn):
                    if isinstance(r, ast.Return) and isinstance(r.value, ast.Call) and call_name(r.value) in out:
                        base_styles, base_keys = out[call_name(r.value)]
                        params = [a.arg for a in fn.args.args]
                        keys = {}
                        for key, idx in base_keys.items():
                            if idx < len(r.value.args) and isinstance(r.value.args[idx], ast.Name) and r.value.args[idx].id in params:
                                keys[key] = params.index(r.value.args[idx].id)
                        styles = {a.value for a in r.value.args if isinstance(a, ast.Constant) and a.value in ("solid", "dashed", "dotted")}
                        out[name] = (styles or base_styles, keys)
        if not out:
            raise AnalysisError("graphs: no edge factory (a function returning the edge dictionary) found")
        return out

    # ------------------------------------------------------------------ provenance
    def binding(self, name: str, at: ast.AST):
        """(target, iterable, position in a tuple target or None, binder) of the innermost loop/comprehension around `at` that
        binds `name`; ('walrus'|'assign', value) for a local bound by assignment"""
        p = at
        while p in self.parents:
            p = self.parents[p]
            gens = []
            if isinstance(p, (ast.ListComp, ast.SetComp, ast.GeneratorExp, ast.DictComp)):
                gens = [(g.target, g.iter, p) for g in p.generators]
            elif isinstance(p, ast.For):
                gens = [(p.target, p.iter, p)]
            for tgt, it, binder in gens:
                if isinstance(tgt, ast.Name) and tgt.id == name:
                    return tgt, it, None, binder
                if isinstance(tgt, (ast.Tuple, ast.List)):
                    for k, el in enumerate(tgt.elts):
                        if isinstance(el, ast.Name) and el.id == name:
                            return tgt, it, k, binder
        return None

    def iter_info(self, e: ast.AST, k: Optional[int] = None, depth: int = 0) -> IterInfo:
        if depth > 10:
            return IterInfo(unknown=True)
        rec = lambda x, kk=k: self.iter_info(x, kk, depth + 1)      # noqa: E731
        if isinstance(e, ast.Call):
            cn = call_name(e)
            last = cn.split(".")[-1]
            if cn == "sorted" and e.args:
                i = rec(e.args[0])
                # a sort fixes the order only if its key is total on the elements: the default order of nodes (their unique ident) is,
                # a label / a lower-cased name is not - elements with equal keys keep the order of the set they came from
                keys = [k.value for k in e.keywords if k.arg == "key"]
                total = not keys or (isinstance(keys[0], ast.Constant) and keys[0].value is None) or \
                    bool(re.search(r"\.ident\b|\bid\(|lambda (\w+): \1$", ast.unparse(keys[0])))
                return IterInfo(i.rels, total, i.unknown)
            # a helper of the graphs module that returns an expression over its parameters (`_by_label(nodes)`): read through it
            helper = self._module_funcs().get(cn)
            if helper is not None and depth < 8:
                body = [st for st in helper.body if not (isinstance(st, ast.Expr) and isinstance(st.value, ast.Constant))]
                ps = [a.arg for a in helper.args.args]
                if len(body) == 1 and isinstance(body[0], ast.Return) and body[0].value is not None and len(e.args) <= len(ps) and not e.keywords:
                    import copy as _copy
                    bind = dict(zip(ps, e.args))

                    class _S(ast.NodeTransformer):
                        def visit_Name(self, n):
                            return _copy.deepcopy(bind[n.id]) if isinstance(n.ctx, ast.Load) and n.id in bind else n

                        def visit_Lambda(self, n):
                            return n
                    return self.iter_info(_S().visit(_copy.deepcopy(body[0].value)), k, depth + 1)
            if cn in ("list", "tuple", "reversed", "iter") and e.args:
                return rec(e.args[0])
            if cn in ("set", "frozenset") and e.args:
                i = rec(e.args[0])
                return IterInfo(i.rels, False, i.unknown)
            if cn == "enumerate" and e.args:
                return self.iter_info(e.args[0], None, depth + 1) if k in (1, None) else IterInfo()
            if last == "chain" and e.args:
                parts = [rec(a) for a in e.args]
                return IterInfo(set().union(*[p.rels for p in parts]), all(p.sorted for p in parts), any(p.unknown for p in parts))
            if cn == "zip" and e.args:
                if k is not None and k < len(e.args):
                    return self.iter_info(e.args[k], None, depth + 1)
                parts = [self.iter_info(a, None, depth + 1) for a in e.args]
                return IterInfo(set().union(*[p.rels for p in parts]), all(p.sorted for p in parts), any(p.unknown for p in parts))
            if isinstance(e.func, ast.Attribute) and e.func.attr in ("items", "keys", "values") and not e.args:
                if e.func.attr == "values" or (e.func.attr == "items" and k == 1):
                    return IterInfo()          # the values are labels, not neighbours
                return self.iter_info(e.func.value, None, depth + 1)
            if cn == "getattr" and len(e.args) >= 2 and ast.unparse(e.args[0]) == self.node_p and isinstance(e.args[1], ast.Constant):
                return IterInfo({e.args[1].value})
            return IterInfo(unknown=True)
        if isinstance(e, ast.Attribute) and ast.unparse(e.value) == self.node_p:
            return IterInfo({e.attr})
        if isinstance(e, ast.Name):
            vals = [v for _t, v in astq.assignments(self.fn, e.id) if v is not None]
            extra = self._added_elements(e.id)
            if vals and extra:
                # a local list that is built up: `xs = [...]` ... `xs.append((node.ancestor, f))` / `xs.extend(...)`
                parts = [rec(v) for v in vals]
                for kind, x in extra:
                    if kind == "iter":
                        parts.append(rec(x))
                    else:
                        if isinstance(x, (ast.Tuple, ast.List)) and k is not None and k < len(x.elts):
                            x = x.elts[k]
                        parts.append(self._scalar_info(x))
                return IterInfo(set().union(*[p.rels for p in parts]), all(p.sorted for p in parts), any(p.unknown for p in parts))
            if not vals:
                # a loop variable of a loop over a literal table of rows: `for make, members in ((f, sorted(node.a)), (g, ...))`
                for lp in ast.walk(self.fn):
                    if isinstance(lp, ast.For) and isinstance(lp.target, (ast.Tuple, ast.List)):
                        for kk, t in enumerate(lp.target.elts):
                            if isinstance(t, ast.Name) and t.id == e.id:
                                rows = self._table_rows(lp.iter)
                                if rows:
                                    parts = [self.iter_info(r_.elts[kk], None, depth + 1) for r_ in rows
                                             if isinstance(r_, (ast.Tuple, ast.List)) and kk < len(r_.elts)]
                                    if parts:
                                        return IterInfo(set().union(*[p.rels for p in parts]), all(p.sorted for p in parts),
                                                        any(p.unknown for p in parts))
                return IterInfo(unknown=True)
            parts = [rec(v) for v in vals]
            return IterInfo(set().union(*[p.rels for p in parts]), all(p.sorted for p in parts), any(p.unknown for p in parts))
        if isinstance(e, (ast.ListComp, ast.GeneratorExp, ast.SetComp)) and len(e.generators) == 1:
            g = e.generators[0]
            elt = e.elt
            if isinstance(elt, ast.Tuple) and k is not None and k < len(elt.elts):
                elt = elt.elts[k]
            if isinstance(elt, ast.Name):
                if isinstance(g.target, ast.Name) and g.target.id == elt.id:
                    return self.iter_info(g.iter, None, depth + 1)
                if isinstance(g.target, (ast.Tuple, ast.List)):
                    for kk, t in enumerate(g.target.elts):
                        if isinstance(t, ast.Name) and t.id == elt.id:
                            return self.iter_info(g.iter, kk, depth + 1)
            return IterInfo(unknown=True)
        if isinstance(e, (ast.Tuple, ast.List)):
            parts = [rec(x) for x in e.elts]
            if parts:
                return IterInfo(set().union(*[p.rels for p in parts]), all(p.sorted for p in parts), any(p.unknown for p in parts))
        if isinstance(e, ast.BinOp) and isinstance(e.op, ast.Add):
            a, b = rec(e.left), rec(e.right)
            return IterInfo(a.rels | b.rels, a.sorted and b.sorted, a.unknown or b.unknown)
        return IterInfo(unknown=True)

    def _rows_for(self, at: ast.AST, endpoint_expr: ast.AST):
        """[(relation, sorted, factories named in the row, conditions of the row)] when the endpoint variable is one column of a
        table of rows that a single loop walks - a literal table, or a local list made of a comprehension of tuples and
        appended tuples; None if the table cannot be taken apart"""
        if not isinstance(endpoint_expr, ast.Name):
            return None
        b = self.binding(endpoint_expr.id, at)
        if b is None or b[2] is None:
            return None
        _tgt, it, k, _binder = b
        rows = []          # (row tuple, generator or None, node for conditions)
        lit = self._table_rows(it)
        if lit:
            rows = [(r_, None, None) for r_ in lit]
        elif isinstance(it, ast.Name):
            for st, v in astq.assignments(self.fn, it.id):
                if v is None:
                    continue
                if isinstance(v, (ast.ListComp, ast.GeneratorExp)) and len(v.generators) == 1 and isinstance(v.elt, ast.Tuple):
                    rows.append((v.elt, v.generators[0], st))
                elif isinstance(v, (ast.List, ast.Tuple)) and all(isinstance(x, ast.Tuple) for x in v.elts):
                    rows += [(x, None, st) for x in v.elts]
                else:
                    return None
            for n in ast.walk(self.fn):
                if isinstance(n, ast.Call) and isinstance(n.func, ast.Attribute) and isinstance(n.func.value, ast.Name) and \
                        n.func.value.id == it.id and n.func.attr in ("append", "extend", "add", "update", "insert"):
                    if n.func.attr == "append" and n.args and isinstance(n.args[0], ast.Tuple):
                        rows.append((n.args[0], None, n))
                    else:
                        return None
        else:
            return None
        out = []
        for row, gen, where in rows:
            if k >= len(row.elts):
                return None
            x = row.elts[k]
            if gen is not None and isinstance(x, ast.Name):
                kk = None
                if isinstance(gen.target, (ast.Tuple, ast.List)):
                    kk = next((i for i, t in enumerate(gen.target.elts) if isinstance(t, ast.Name) and t.id == x.id), None)
                    if kk is None:
                        return None
                elif not (isinstance(gen.target, ast.Name) and gen.target.id == x.id):
                    return None
                info = self.iter_info(gen.iter, kk)
            elif gen is None and isinstance(x, ast.Call) and call_name(x) == "sorted":
                info = self.iter_info(x)
            else:
                info = self._scalar_info(x) if not isinstance(x, (ast.Call,)) or call_name(x) == "getattr" else self.iter_info(x)
            if info.unknown or len(info.rels) != 1:
                return None
            facs = {n.id for e2 in row.elts for n in ast.walk(e2) if isinstance(n, ast.Name) and n.id in self.factories}
            conds = self._conds(where) if where is not None else []
            if gen is not None:
                conds = conds + [ast.unparse(i) for i in gen.ifs]
            out.append((next(iter(info.rels)), info.sorted, facs, conds))
        return out or None

    def _module_funcs(self) -> Dict[str, ast.FunctionDef]:
        memo = self.py.__dict__.setdefault("_graphs_module_funcs", None)
        if memo is None:
            memo = self.py.__dict__["_graphs_module_funcs"] = {n.name: n for n in self.py.modules["graphs"].body if isinstance(n, ast.FunctionDef)}
        return memo

    def _added_elements(self, name: str):
        """[('elem', x)] for `name.append(x)` / `name.add(x)`, [('iter', y)] for `name.extend(y)` / `name += y`"""
        out = []
        for n in ast.walk(self.fn):
            if isinstance(n, ast.Call) and isinstance(n.func, ast.Attribute) and isinstance(n.func.value, ast.Name) and \
                    n.func.value.id == name and n.args:
                if n.func.attr in ("append", "add"):
                    out.append(("elem", n.args[0]))
                elif n.func.attr in ("extend", "update"):
                    out.append(("iter", n.args[0]))
            elif isinstance(n, ast.AugAssign) and isinstance(n.op, ast.Add) and isinstance(n.target, ast.Name) and n.target.id == name:
                out.append(("iter", n.value))
        return out

    def _scalar_info(self, x: ast.AST) -> IterInfo:
        """a single neighbour: `node.ancestor` / getattr(node, "ancestor", None)"""
        if isinstance(x, ast.Attribute) and ast.unparse(x.value) == self.node_p:
            return IterInfo({x.attr}, True)
        if isinstance(x, ast.Call) and call_name(x) == "getattr" and len(x.args) >= 2 and ast.unparse(x.args[0]) == self.node_p and \
                isinstance(x.args[1], ast.Constant):
            return IterInfo({x.args[1].value}, True)
        return IterInfo(unknown=True)

    def _table_rows(self, it: ast.AST):
        """rows of a literal table (a display of displays), directly or through a local bound once to it"""
        if isinstance(it, ast.Name):
            vals = [v for _t, v in astq.assignments(self.fn, it.id) if v is not None]
            it = vals[0] if len(vals) == 1 else it
        if isinstance(it, (ast.Tuple, ast.List)) and it.elts and all(isinstance(r_, (ast.Tuple, ast.List)) for r_ in it.elts):
            return list(it.elts)
        return None

    def endpoint(self, e: ast.AST, at: ast.AST):
        """('node'|rel|'?', sorted, binder) for an edge endpoint / queued node expression"""
        t = ast.unparse(e)
        if t == self.node_p:
            return "node", True, None
        if isinstance(e, ast.Attribute) and ast.unparse(e.value) == self.node_p:
            return e.attr, True, None              # a scalar relation (node.ancestor)
        if isinstance(e, ast.NamedExpr):
            return self.endpoint(e.value, at)
        if isinstance(e, ast.Subscript) and isinstance(e.slice, ast.Constant) and isinstance(e.value, ast.Name):
            # edge["tail_node"]: the endpoint stored under that key by the factory call the edge object came from
            b = self.binding(e.value.id, at)
            if b is not None:
                for call, ctx_ in self._factory_calls_in(b[1]):
                    fac = self._callee_factories(call)
                    for f in fac:
                        idx = self.factories[f][1].get(e.slice.value)
                        if idx is not None and idx < len(call.args):
                            return self.endpoint(call.args[idx], call)
            return "?", False, None
        if isinstance(e, ast.Name):
            b = self.binding(e.id, at)
            if b is not None:
                _tgt, it, k, binder = b
                i = self.iter_info(it, k)
                if len(i.rels) == 1 and not i.unknown:
                    return next(iter(i.rels)), i.sorted, binder
                if i.rels and not i.unknown:
                    return "|".join(sorted(i.rels)), i.sorted, binder
                return "?", False, binder
            # a local alias: `tail = edge["tail_node"]` / walrus
            # (the binding that shares the innermost enclosing loop with the use: after `for e in chain(A, B)` has been split
            # into two loops each copy has a walrus / assignment of its own)
            loop = self._enclosing_loop(at)
            walrus = [st for st in ast.walk(self.fn) if isinstance(st, ast.NamedExpr) and st.target.id == e.id]
            near = [st for st in walrus if self._enclosing_loop(st) is loop] or walrus
            if near:
                return self.endpoint(near[0].value, near[0])
            vals = [(s_, v) for s_, v in astq.assignments(self.fn, e.id) if v is not None]
            nearv = [x for x in vals if self._enclosing_loop(x[0]) is loop] or vals
            if len(nearv) == 1:
                return self.endpoint(nearv[0][1], nearv[0][0])
        return "?", False, None

    def _enclosing_loop(self, n: ast.AST):
        p = n
        while p in self.parents:
            p = self.parents[p]
            if isinstance(p, (ast.For, ast.While)):
                return p
        return None

    def _factory_calls_in(self, it: ast.AST, depth: int = 0):
        """factory calls that produce the elements of an iterable of edge objects (through locals, chain, list displays)"""
        out = []
        if depth > 6:
            return out
        if isinstance(it, ast.Name):
            for _t, v in astq.assignments(self.fn, it.id):
                if v is not None:
                    out += self._factory_calls_in(v, depth + 1)
        elif isinstance(it, (ast.ListComp, ast.GeneratorExp)):
            if isinstance(it.elt, ast.Call) and self._callee_factories(it.elt):
                out.append((it.elt, it))
        elif isinstance(it, ast.Call) and call_name(it).split(".")[-1] in ("chain", "list", "tuple", "sorted"):
            for a in it.args:
                out += self._factory_calls_in(a, depth + 1)
        elif isinstance(it, (ast.List, ast.Tuple)):
            for x in it.elts:
                if isinstance(x, ast.Call) and self._callee_factories(x):
                    out.append((x, it))
                else:
                    out += self._factory_calls_in(x.value if isinstance(x, ast.Starred) else x, depth + 1)
        elif isinstance(it, ast.BinOp) and isinstance(it.op, ast.Add):
            out += self._factory_calls_in(it.left, depth + 1) + self._factory_calls_in(it.right, depth + 1)
        return out

    def _callee_factories(self, c: ast.Call) -> Set[str]:
        f = c.func
        if isinstance(f, ast.Name) and f.id in self.factories:
            return {f.id}
        if isinstance(f, ast.IfExp):
            out = set()
            for x in (f.body, f.orelse):
                if isinstance(x, ast.Name) and x.id in self.factories:
                    out.add(x.id)
            return out
        if isinstance(f, ast.Name) and f.id not in _BUILTIN_CALLEES:
            # a variable holding a factory: assigned (possibly conditionally) from factory names
            out = set()
            for _t, v in astq.assignments(self.fn, f.id):
                for x in ast.walk(v) if v is not None else []:
                    if isinstance(x, ast.Name) and x.id in self.factories:
                        out.add(x.id)
            b = self.binding(f.id, c)
            if b is not None:
                srcs = [b[1]] + ([r_ for r_ in (self._table_rows(b[1]) or [])])
                if isinstance(b[1], ast.Name):      # a table built up in a local list
                    srcs += [v for _t, v in astq.assignments(self.fn, b[1].id) if v is not None]
                    srcs += [x for _k, x in self._added_elements(b[1].id)]
                for src in srcs:
                    for x in ast.walk(src):
                        if isinstance(x, ast.Name) and x.id in self.factories:
                            out.add(x.id)
            return out
        return set()

    def _conds(self, n: ast.AST) -> List[str]:
        out = []
        child = n
        p = n
        while p in self.parents:
            child, p = p, self.parents[p]
            if isinstance(p, ast.If):
                t = ast.unparse(p.test)
                out.append(t if child in p.body else f"not ({t})")
            elif isinstance(p, (ast.ListComp, ast.GeneratorExp, ast.SetComp)):
                for g in p.generators:
                    out += [ast.unparse(i) for i in g.ifs]
        return out

    def _top(self, n: ast.AST) -> ast.AST:
        p = n
        while p in self.parents and self.parents[p] is not self.fn:
            p = self.parents[p]
        return p

    def _in_lambda(self, n: ast.AST) -> Optional[ast.Lambda]:
        p = n
        while p in self.parents:
            p = self.parents[p]
            if isinstance(p, ast.Lambda):
                return p
        return None

    def _collect(self):
        # lambdas that build an edge: `make = lambda x: _dashed_edge(node, x, colour)`; their calls `make(p)` are edges
        lambdas: Dict[str, ast.Lambda] = {}
        for st in ast.walk(self.fn):
            if isinstance(st, ast.Assign) and len(st.targets) == 1 and isinstance(st.targets[0], ast.Name) and isinstance(st.value, ast.Lambda):
                lambdas[st.targets[0].id] = st.value
        for c in ast.walk(self.fn):
            if not isinstance(c, ast.Call):
                continue
            if self._in_lambda(c) is not None:
                continue              # a definition; what matters are the calls of the lambda
            fac = self._callee_factories(c)
            args = list(c.args)
            ctx_of = [c] * len(args)
            if isinstance(c.func, ast.Name) and c.func.id in lambdas and isinstance(lambdas[c.func.id].body, ast.Call):
                lam = lambdas[c.func.id]
                inner = lam.body
                fac = self._callee_factories(inner)
                lp = [a.arg for a in lam.args.args]
                args, ctx_of = [], []
                for a in inner.args:
                    if isinstance(a, ast.Name) and a.id in lp and lp.index(a.id) < len(c.args):
                        args.append(c.args[lp.index(a.id)])
                    else:
                        args.append(a)
                    ctx_of.append(c)
            if fac and len(args) >= 2:
                a, b = args[0], args[1]
                ea, eb = self.endpoint(a, ctx_of[0]), self.endpoint(b, ctx_of[1])
                if ea[0] == "node" and eb[0] != "node":
                    rel, orient, srt, binder, other = eb[0], "out", eb[1], eb[2], ast.unparse(b)
                elif eb[0] == "node" and ea[0] != "node":
                    rel, orient, srt, binder, other = ea[0], "in", ea[1], ea[2], ast.unparse(a)
                else:
                    rel, orient, srt, binder, other = "?", f"{ast.unparse(a)}->{ast.unparse(b)}", False, None, ""
                styles = set().union(*[self.factories[f][0] for f in fac])
                rows = self._rows_for(c, a if orient == "in" else b) if "|" in rel else None
                if rows:
                    # a table of (neighbour, factory) rows walked by one loop: one fact per row, as if each had its own loop
                    for r_rel, r_sorted, r_fac, r_conds in rows:
                        r_styles = set().union(*[self.factories[f][0] for f in r_fac]) if r_fac else styles
                        self.edges.append(EdgeFact(r_rel, orient, r_styles, c, self._top(c), r_sorted, r_conds + self._conds(c), other, binder))
                    continue
                self.edges.append(EdgeFact(rel, orient, styles, c, self._top(c), srt, self._conds(c), other, binder))
            elif isinstance(c.func, ast.Attribute) and c.func.attr in ("add", "update") and ast.unparse(c.func.value) == self.nodes_p and c.args:
                x = c.args[0]
                rel, _s, _b = self.endpoint(x, c)
                conds = self._conds(c)
                rows = self._rows_for(c, x) if "|" in rel else None
                if rows:
                    for r_rel, _rs, _rf, r_conds in rows:
                        self.adds.append(AddFact(r_rel, any("not in self.added" in t and not t.startswith("not (") for t in conds),
                                                 r_conds + conds, c, ast.unparse(x)))
                    continue
                self.adds.append(AddFact(rel, any("not in self.added" in t and not t.startswith("not (") for t in conds), conds, c,
                                         ast.unparse(x)))
