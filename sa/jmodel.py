"""E3 — model of the Jinja2 templates (parsed, never rendered).

Two views are built:
 * `outputs`  : every output expression of every template file, as written (no inlining),
                with its filter chain, enclosing if/for stack and lexical HTML context;
 * `expand(t)`: the output stream of a *page* template with `extends` resolved and macro
                calls inlined, every name rewritten to a symbolic access path rooted in the
                page's render arguments (e.g. `module.common[*].anchor`).
"""
from __future__ import annotations

import re
from dataclasses import dataclass, field
from pathlib import Path
from typing import Dict, Iterator, List, Optional, Tuple

from .core import AnalysisError

try:
    import jinja2
    from jinja2 import nodes as N
except Exception as e:  # pragma: no cover
    raise AnalysisError(f"jinja2 parser not importable: {e}")


# --------------------------------------------------------------------------- HTML lexical state
class HtmlState:
    """Tiny tokenizer state carried along the template text stream."""
    __slots__ = ("mode", "tag", "attr", "quote", "pending")

    def __init__(self):
        self.mode = "text"   # text | tag | value | comment
        self.tag = ""
        self.attr = ""
        self.quote = ""
        self.pending = ""    # attribute-name accumulator inside a tag

    def copy(self):
        s = HtmlState()
        s.mode, s.tag, s.attr, s.quote, s.pending = self.mode, self.tag, self.attr, self.quote, self.pending
        return s

    def feed(self, text: str):
        i, n = 0, len(text)
        while i < n:
            c = text[i]
            if self.mode == "text":
                if text.startswith("<!--", i):
                    self.mode = "comment"
                    i += 4
                    continue
                if c == "<" and i + 1 < n and (text[i + 1].isalpha() or text[i + 1] == "/"):
                    m = re.match(r"</?([A-Za-z][\w-]*)", text[i:])
                    self.mode = "tag"
                    self.tag = m.group(1).lower() if m else ""
                    self.pending = ""
                    self.attr = ""
                    i += len(m.group(0)) if m else 1
                    continue
                if c == "<" and i + 1 == n:
                    # '<' right before an expression, e.g. <h{{ size }}>
                    self.mode = "tag"
                    self.tag = ""
                    self.pending = ""
                i += 1
            elif self.mode == "comment":
                j = text.find("-->", i)
                if j < 0:
                    return
                self.mode = "text"
                i = j + 3
            elif self.mode == "tag":
                if c == ">":
                    self.mode = "text"
                    self.pending = ""
                    self.attr = ""
                elif c == "=":
                    self.attr = self.pending.strip().lower()
                    self.pending = ""
                    # unquoted value?
                    j = i + 1
                    if j < n and text[j] in "\"'":
                        self.mode = "value"
                        self.quote = text[j]
                        i = j
                    elif j == n:
                        self.mode = "value"
                        self.quote = ""  # unquoted value supplied by an expression
                elif c.isspace():
                    self.pending = ""
                else:
                    self.pending += c
                i += 1
            elif self.mode == "value":
                if self.quote == "":
                    if c.isspace() or c == ">":
                        self.mode = "tag" if c != ">" else "text"
                        self.attr = ""
                    i += 1
                elif c == self.quote:
                    self.mode = "tag"
                    self.attr = ""
                    self.pending = ""
                    i += 1
                else:
                    i += 1

    def context(self) -> Tuple[str, str]:
        """('attr', name) | ('tag','') | ('text','') | ('comment','')"""
        if self.mode == "value":
            return ("attr", self.attr)
        return (self.mode, "")


# --------------------------------------------------------------------------- records
@dataclass
class OutRec:
    template: str            # file in which the expression is written
    lineno: int
    node: N.Node
    src: str                 # expression as written (normal form)
    sym: str                 # expression with names resolved to symbolic paths (expand only)
    filters: List[str]       # filter names applied at top level, innermost first
    ctx: Tuple[str, str]
    tag: str
    conds: List[tuple]
    loops: List[Tuple[str, str]]
    macros: List[str]
    page: str = ""           # page template being expanded ('' in the raw view)
    prefix: str = ""         # literal text preceding the expression inside the same attribute value
    suffix: str = ""
    etype: str = "S"
    core_etype: str = "S"
    flags: frozenset = frozenset()

    @property
    def loc(self) -> str:
        return f"ford/templates/{self.template}:{self.lineno}"


@dataclass
class LitRec:
    """A literal chunk of template text (used for literal-href rules)."""
    template: str
    lineno: int
    text: str
    conds: List[tuple]
    loops: List[Tuple[str, str]]
    macros: List[str]
    page: str = ""


# --------------------------------------------------------------------------- expression printing
_BIN = {N.Add: "+", N.Sub: "-", N.Mul: "*", N.Div: "/", N.FloorDiv: "//", N.Mod: "%", N.Pow: "**"}


def sym(node: N.Node, env: Optional[Dict[str, str]] = None) -> str:
    env = env or {}

    def s(n):
        return sym(n, env)
    if isinstance(node, N.Name):
        return env.get(node.name, node.name)
    if isinstance(node, N.Const):
        return repr(node.value)
    if isinstance(node, N.TemplateData):
        return repr(node.data)
    if isinstance(node, N.Getattr):
        return f"{s(node.node)}.{node.attr}"
    if isinstance(node, N.Getitem):
        if isinstance(node.arg, N.Slice):
            a = node.arg
            return f"{s(node.node)}[{s(a.start) if a.start else ''}:{s(a.stop) if a.stop else ''}]"
        return f"{s(node.node)}[{s(node.arg)}]"
    if isinstance(node, N.Filter):
        args = [s(a) for a in node.args] + [f"{k.key}={s(k.value)}" for k in node.kwargs]
        inner = s(node.node) if node.node is not None else ""
        if node.name in ("first", "last") and not args and node.node is not None:
            return f"{inner}[{0 if node.name == 'first' else -1}]"       # `xs|first` is `xs[0]`
        return f"{inner}|{node.name}" + (f"({', '.join(args)})" if args else "")
    if isinstance(node, N.Test):
        args = [s(a) for a in node.args]
        return f"{s(node.node)} is {node.name}" + (f"({', '.join(args)})" if args else "")
    if isinstance(node, N.Call):
        args = [s(a) for a in node.args] + [f"{k.key}={s(k.value)}" for k in node.kwargs]
        return f"{s(node.node)}({', '.join(args)})"
    if isinstance(node, N.CondExpr):
        e2 = s(node.expr2) if node.expr2 is not None else "''"
        return f"({s(node.expr1)} if {s(node.test)} else {e2})"
    if isinstance(node, N.Compare):
        out = s(node.expr)
        for op in node.ops:
            o = {"eq": "==", "ne": "!=", "gt": ">", "gteq": ">=", "lt": "<", "lteq": "<=",
                 "in": "in", "notin": "not in"}[op.op]
            out += f" {o} {s(op.expr)}"
        return f"({out})"
    if isinstance(node, N.And):
        return f"({s(node.left)} and {s(node.right)})"
    if isinstance(node, N.Or):
        return f"({s(node.left)} or {s(node.right)})"
    if isinstance(node, N.Not):
        return f"(not {s(node.node)})"
    if isinstance(node, N.Neg):
        return f"-{s(node.node)}"
    if isinstance(node, N.Pos):
        return f"+{s(node.node)}"
    for k, o in _BIN.items():
        if isinstance(node, k):
            return f"({s(node.left)} {o} {s(node.right)})"
    if isinstance(node, N.Concat):
        return "(" + " ~ ".join(s(x) for x in node.nodes) + ")"
    if isinstance(node, (N.List, N.Tuple)):
        return "[" + ", ".join(s(x) for x in node.items) + "]"
    if isinstance(node, N.Dict):
        return "{" + ", ".join(f"{s(p.key)}: {s(p.value)}" for p in node.items) + "}"
    if isinstance(node, N.Keyword):
        return f"{node.key}={s(node.value)}"
    raise AnalysisError(f"jinja expression form not understood: {type(node).__name__}")


def filter_chain(node: N.Node) -> Tuple[N.Node, List[N.Filter]]:
    """Strip top-level filters: returns (core expression, [filters innermost first])."""
    fs: List[N.Filter] = []
    while isinstance(node, N.Filter):
        fs.append(node)
        node = node.node
    fs.reverse()
    return node, fs


# --------------------------------------------------------------------------- the model
class JModel:
    def __init__(self, root: Path):
        self.root = Path(root)
        self.tdir = self.root / "ford" / "templates"
        if not self.tdir.is_dir():
            raise AnalysisError(f"{self.tdir} missing")
        self.env = jinja2.Environment(trim_blocks=True, lstrip_blocks=True)
        self.templates: Dict[str, N.Template] = {}
        self.sources: Dict[str, str] = {}
        for p in sorted(self.tdir.glob("*.html")):
            src = p.read_text(encoding="utf-8")
            try:
                self.templates[p.name] = self.env.parse(src, name=p.name)
            except jinja2.TemplateSyntaxError as e:
                raise AnalysisError(f"template {p.name} does not parse: {e}")
            self.sources[p.name] = src
        self.macros: Dict[Tuple[str, str], N.Macro] = {}
        self.extends: Dict[str, str] = {}
        self.imports: Dict[str, Dict[str, str]] = {}   # template -> alias -> template
        self.blocks: Dict[str, Dict[str, N.Block]] = {}
        for name, t in self.templates.items():
            self.imports[name] = {}
            self.blocks[name] = {}
            for n in t.find_all(N.Macro):
                self.macros[(name, n.name)] = n
            for n in t.find_all(N.Extends):
                if isinstance(n.template, N.Const):
                    self.extends[name] = n.template.value
            for n in t.find_all(N.Import):
                if isinstance(n.template, N.Const):
                    self.imports[name][n.target] = n.template.value
            for n in t.find_all(N.Block):
                self.blocks[name][n.name] = n
        self.outputs: List[OutRec] = []
        self.literals: List[LitRec] = []
        for name in self.templates:
            o, l = self._walk_file(name)
            self.outputs += o
            self.literals += l

    # ------------------------------------------------------------------ abstract types
    # E entity, EL list of entities, LS string that embeds entity links, P project object,
    # S anything else (plain data), U unknown (macro parameter in the raw view)
    ENTITY_ATTRS: set = set()
    ENTITY_LIST_ATTRS: set = set()
    LINKSTR_ATTRS: set = set()
    PROJECT_LISTS: set = set()
    ROOT_TYPES: dict = {}

    @staticmethod
    def join_type(a: str, b: str) -> str:
        if a == b:
            return a
        order = ["LS", "E", "EL", "U", "P", "S"]
        for t in order:
            if t in (a, b):
                return t
        return "S"

    def etype(self, node, tenv: Dict[str, str], senv: Optional[Dict[str, str]] = None) -> str:
        et = lambda n: self.etype(n, tenv, senv)  # noqa
        if isinstance(node, N.Name):
            if node.name in tenv:
                return tenv[node.name]
            return self.ROOT_TYPES.get(node.name, "S")
        if isinstance(node, N.Getattr):
            bt = et(node.node)
            if bt == "P":
                return "EL" if node.attr in self.PROJECT_LISTS else "S"
            if bt not in ("E", "U"):
                return "S"
            if node.attr in self.ENTITY_ATTRS:
                return "E"
            if node.attr in self.ENTITY_LIST_ATTRS:
                return "EL"
            if node.attr in self.LINKSTR_ATTRS:
                return "LS"
            return "S"
        if isinstance(node, N.Getitem):
            b = et(node.node)
            if isinstance(node.arg, N.Slice):
                return b
            if isinstance(node.node, N.Getattr) and node.node.attr == "proto" and \
                    isinstance(node.arg, N.Const) and node.arg.value != 0:
                return "S"   # proto = [entity-or-name, argument text]
            return "E" if b == "EL" else ("U" if b == "U" else "S")
        if isinstance(node, N.Filter):
            b = et(node.node) if node.node is not None else "S"
            if node.name in ("sort", "list", "reverse", "unique", "select", "reject",
                             "selectattr", "rejectattr", "batch", "slice"):
                return b
            if node.name == "map":
                for k in node.kwargs:
                    if k.key == "attribute" and isinstance(k.value, N.Const):
                        a = k.value.value
                        if a in self.ENTITY_ATTRS:
                            return "EL"
                        if a in self.LINKSTR_ATTRS:
                            return "EL"
                if node.args and isinstance(node.args[0], N.Const) and isinstance(node.args[0].value, str):
                    # map("filter", ...) applies the filter to every element
                    fname = node.args[0].value
                    if fname in ("lower", "upper", "trim", "string", "safe", "title", "capitalize", "replace"):
                        return b     # elements keep their links
                    return "S"
                return "S"
            if node.name in ("first", "last", "random"):
                return "E" if b == "EL" else b
            if node.name == "join":
                return "LS" if b in ("EL", "E", "LS") else ("U" if b == "U" else "S")
            if node.name in ("relurl",):
                return "S"
            if node.name in ("length", "count", "int", "float", "striptags", "meta", "e", "escape",
                             "urlencode", "wordcount", "tojson"):
                return "S"
            if node.name in ("lower", "upper", "trim", "string", "safe", "default", "d", "title",
                             "capitalize", "replace", "truncate", "indent", "center", "format"):
                return "LS" if b in ("E", "LS") else b
            return b
        if isinstance(node, N.CondExpr):
            a = et(node.expr1)
            b = et(node.expr2) if node.expr2 is not None else "S"
            # `x if x is string else ...`: in the first branch x is a plain string, whatever its declared kind
            # (the test may have been hoisted into a `set` variable: its symbolic value is compared)
            try:
                tsym, xsym = sym(node.test, senv or {}), sym(node.expr1, senv or {})
            except AnalysisError:
                tsym, xsym = "", "?"
            want = f"{xsym} is string"
            if tsym == want or (tsym.startswith("(") and tsym.endswith(")") and tsym[1:-1] == want):
                a = "S"
            return self.join_type(a, b)
        if isinstance(node, (N.Add, N.Concat)):
            parts = [node.left, node.right] if isinstance(node, N.Add) else node.nodes
            ts = [et(p) for p in parts]
            if "EL" in ts:
                return "EL"
            if any(t in ("E", "LS") for t in ts):
                return "LS"
            return "U" if "U" in ts else "S"
        if isinstance(node, (N.List, N.Tuple)):
            ts = [et(p) for p in node.items]
            return "EL" if any(t in ("E", "EL") for t in ts) else "S"
        if isinstance(node, (N.Or, N.And)):
            return self.join_type(et(node.left), et(node.right))
        if isinstance(node, N.Call):
            return "S"
        return "S"

    # ------------------------------------------------------------------ taint flags
    # attribute name -> flag; filters that remove every flag
    FLAG_SOURCES: Dict[str, str] = {}
    FLAG_SANITISERS = ("e", "escape", "forceescape", "striptags", "urlencode", "length", "count",
                       "int", "float", "wordcount", "tojson")

    def flags(self, node, fenv: Dict[str, frozenset]) -> frozenset:
        fl = lambda n: self.flags(n, fenv)  # noqa
        if node is None:
            return frozenset()
        if isinstance(node, N.Name):
            return fenv.get(node.name, frozenset())
        if isinstance(node, N.Getattr):
            base = fl(node.node)
            if node.attr in self.FLAG_SOURCES:
                return base | {self.FLAG_SOURCES[node.attr]}
            return frozenset()   # another attribute of the object: not the literal-bearing text
        if isinstance(node, N.Getitem):
            return fl(node.node)
        if isinstance(node, N.Filter):
            if node.name in self.FLAG_SANITISERS:
                return frozenset()
            out = fl(node.node)
            for a in node.args:
                out |= fl(a)
            return out
        if isinstance(node, N.Test):
            return frozenset()
        if isinstance(node, N.Compare):
            return frozenset()
        if isinstance(node, N.Not):
            return frozenset()
        if isinstance(node, N.CondExpr):
            return fl(node.expr1) | fl(node.expr2)
        if isinstance(node, (N.And, N.Or)):
            return fl(node.left) | fl(node.right)
        if isinstance(node, (N.Add, N.Sub, N.Mul, N.Div, N.FloorDiv, N.Mod, N.Pow)):
            return fl(node.left) | fl(node.right)
        if isinstance(node, N.Concat):
            out = frozenset()
            for x in node.nodes:
                out |= fl(x)
            return out
        if isinstance(node, (N.List, N.Tuple)):
            out = frozenset()
            for x in node.items:
                out |= fl(x)
            return out
        if isinstance(node, N.Call):
            out = frozenset()
            for a in list(node.args) + [k.value for k in node.kwargs]:
                out |= fl(a)
            if isinstance(node.node, N.Getattr):   # "...".format(x), x.strip()
                out |= fl(node.node.node)
            return out
        return frozenset()

    # ------------------------------------------------------------------ raw view
    def _walk_file(self, name: str) -> Tuple[List[OutRec], List[LitRec]]:
        w = _Walker(self, page="", inline=False)
        w.walk_nodes(self.templates[name].body, name, {}, [], [], [], HtmlState())
        return w.outs, w.lits

    # ------------------------------------------------------------------ expanded view
    def expand(self, page: str) -> Tuple[List[OutRec], List[LitRec]]:
        if page not in self.templates:
            raise AnalysisError(f"template {page} not found")
        # memoised per model and per typing configuration (the class-level tables set by setup_types)
        key = (page, tuple(tuple(sorted(getattr(JModel, a, None) or ())) for a in
                           ("ENTITY_LIST_ATTRS", "ENTITY_ATTRS", "LINKSTR_ATTRS", "PROJECT_LISTS")),
               tuple(sorted((getattr(JModel, "ROOT_TYPES", None) or {}).items())))
        memo = self.__dict__.setdefault("_expand_memo", {})
        if key in memo:
            outs, lits = memo[key]
            return list(outs), list(lits)
        w = _Walker(self, page=page, inline=True)
        chain = [page]
        while chain[-1] in self.extends:
            chain.append(self.extends[chain[-1]])
            if len(chain) > 6:
                raise AnalysisError("extends chain too deep")
        w.block_chain = chain
        root = chain[-1]
        st = HtmlState()
        # top-level statements of the child outside blocks (imports, set) are executed too
        w.walk_nodes(self.templates[root].body, root, {}, [], [], [], st)
        memo[key] = (w.outs, w.lits)
        return list(w.outs), list(w.lits)

    def macro_callers(self) -> Dict[Tuple[str, str], List[Tuple[str, N.Call]]]:
        out: Dict[Tuple[str, str], List[Tuple[str, N.Call]]] = {}
        for tname, t in self.templates.items():
            for c in t.find_all(N.Call):
                m = self.resolve_macro(tname, c.node)
                if m:
                    out.setdefault(m, []).append((tname, c))
        return out

    def resolve_macro(self, tname: str, fn: N.Node) -> Optional[Tuple[str, str]]:
        if isinstance(fn, N.Name):
            # own macro, or macro defined in a template up the extends chain
            t = tname
            seen = 0
            while t and seen < 6:
                if (t, fn.name) in self.macros:
                    return (t, fn.name)
                t = self.extends.get(t)
                seen += 1
            return None
        if isinstance(fn, N.Getattr) and isinstance(fn.node, N.Name):
            t = tname
            seen = 0
            while t and seen < 6:
                target = self.imports.get(t, {}).get(fn.node.name)
                if target and (target, fn.attr) in self.macros:
                    return (target, fn.attr)
                t = self.extends.get(t)
                seen += 1
            # imports inside blocks of other templates in chain are found by find_all already
        return None


class Env:
    """name -> symbolic value (s) and abstract type (t)."""
    __slots__ = ("s", "t", "f", "n", "b")

    def __init__(self, s=None, t=None, f=None, n=None, b=None):
        self.s = dict(s or {})
        self.t = dict(t or {})
        self.f = dict(f or {})
        self.n = dict(n or {})       # {% set x = [literal list] %}: the expression node, for loops over it
        self.b = dict(b or {})       # {% set x %}...{% endset %}: (body, template, env at the definition), replayed where x is output

    def copy(self):
        return Env(self.s, self.t, self.f, self.n, self.b)


class _Walker:
    def __init__(self, jm: JModel, page: str, inline: bool):
        self.jm = jm
        self.page = page
        self.inline = inline
        self.outs: List[OutRec] = []
        self.lits: List[LitRec] = []
        self.block_chain: List[str] = []
        self.depth = 0
        self.recursion_cuts = 0

    def walk_nodes(self, nodes, tname, env, conds, loops, macros, st: HtmlState):
        if isinstance(env, dict):
            env = Env(env)
        for n in nodes:
            self.walk(n, tname, env, conds, loops, macros, st)

    def etype(self, node, env: Env) -> str:
        return self.jm.etype(node, env.t, env.s)

    @staticmethod
    def _merge(env: Env, test: str, e1: Env, e2: Env):
        """`set` inside an if/else is visible after it (Jinja if-blocks have no scope)."""
        for k in set(e1.s) | set(e2.s):
            v1, v2 = e1.s.get(k), e2.s.get(k)
            if v1 == v2:
                if v1 is not None:
                    env.s[k] = v1
                    t1, t2 = e1.t.get(k, "S"), e2.t.get(k, "S")
                    env.t[k] = t1 if t1 == t2 else JModel.join_type(t1, t2)
                continue
            a = v1 if v1 is not None else "<undefined>"
            b = v2 if v2 is not None else "<undefined>"
            env.s[k] = f"({a} if {test} else {b})"
            env.t[k] = JModel.join_type(e1.t.get(k, "S"), e2.t.get(k, "S"))
        for k in set(e1.f) | set(e2.f):
            env.f[k] = e1.f.get(k, frozenset()) | e2.f.get(k, frozenset())

    def walk(self, n, tname, env: Env, conds, loops, macros, st: HtmlState):
        jm = self.jm
        if isinstance(n, N.Output):
            items = list(n.nodes)
            for idx, x in enumerate(items):
                if isinstance(x, N.TemplateData):
                    self.lits.append(LitRec(tname, x.lineno, x.data, list(conds), list(loops),
                                            list(macros), self.page))
                    st.feed(x.data)
                else:
                    self.emit(x, tname, env, conds, loops, macros, st, items, idx)
        elif isinstance(n, N.If):
            self._walk_if(n.test, n.body, list(n.elif_), n.else_, tname, env, conds, loops, macros, st)
        elif isinstance(n, N.For) and self._literal_rows(n.iter, env) is not None:
            # a loop over a literal table, `{% for title, coll in [("Functions", module.functions), ...] %}` (possibly held in a
            # {% set %} variable): unrolled, each target bound to the row's expression; a loop filter is a condition
            rows = self._literal_rows(n.iter, env)
            targets = [n.target] if isinstance(n.target, N.Name) else list(getattr(n.target, "items", []))
            for row in rows:
                e2 = env.copy()
                parts = list(row.items) if isinstance(row, (N.Tuple, N.List)) and len(targets) > 1 else [row]
                if len(parts) != len(targets):
                    continue
                for tg, part in zip(targets, parts):
                    if isinstance(tg, N.Name):
                        e2.s[tg.name] = sym(part, env.s)
                        e2.t[tg.name] = self.etype(part, env)
                        e2.f[tg.name] = self.jm.flags(part, env.f)
                        e2.n.pop(tg.name, None)
                e2.s["loop"] = "loop"
                if n.test is not None:
                    t_ = sym(n.test, e2.s)
                    self.walk_nodes(n.body, tname, e2, conds + [(t_, True, n.test, dict(e2.s), dict(e2.n))], loops, macros, st)
                else:
                    self.walk_nodes(n.body, tname, e2, conds, loops, macros, st)
        elif isinstance(n, N.For):
            it = sym(n.iter, env.s)
            ityp = self.etype(n.iter, env)
            e2 = env.copy()
            targets = [n.target] if isinstance(n.target, N.Name) else list(getattr(n.target, "items", []))
            for tg in targets:
                if isinstance(tg, N.Name):
                    e2.s[tg.name] = f"{it}[*]" if len(targets) == 1 else f"{it}[*].{tg.name}"
                    e2.t[tg.name] = {"EL": "E", "U": "U"}.get(ityp, "S") if len(targets) == 1 else "S"
                    e2.f[tg.name] = self.jm.flags(n.iter, env.f)
            e2.s["loop"] = "loop"
            tn = ",".join(t.name for t in targets if isinstance(t, N.Name))
            self.walk_nodes(n.body, tname, e2, conds, loops + [(tn, it)], macros, st)
            if n.else_:
                self.walk_nodes(n.else_, tname, env.copy(), conds, loops, macros, st.copy())
        elif isinstance(n, N.Macro):
            if not self.inline:
                e2 = env.copy()
                for a in n.args:
                    e2.s[a.name] = f"<{n.name}:{a.name}>"
                    e2.t[a.name] = "U"
                self.walk_nodes(n.body, tname, e2, [], [], macros + [n.name], HtmlState())
        elif isinstance(n, N.Block):
            body = n.body
            origin = tname
            if self.inline:
                for t in self.block_chain:
                    if n.name in jm.blocks.get(t, {}):
                        body = jm.blocks[t][n.name].body
                        origin = t
                        break
            self.walk_nodes(body, origin, env, conds, loops, macros, st)
        elif isinstance(n, N.Assign):
            if isinstance(n.target, N.Name):
                # the expression node behind the name: a literal list (loops over it are unrolled) or any other expression
                # (guards written in terms of the name are read through it)
                env.n[n.target.name] = n.node
                env.b.pop(n.target.name, None)
                v, t = sym(n.node, env.s), self.etype(n.node, env)
                env.f[n.target.name] = self.jm.flags(n.node, env.f)
                env.s[n.target.name] = v
                env.t[n.target.name] = t
        elif isinstance(n, N.AssignBlock):
            if isinstance(n.target, N.Name) and n.filter is None:
                # a captured fragment: nothing is written here; it is written, in the HTML context of that place, wherever the
                # variable is output (emit)
                env.s[n.target.name] = f"<block:{n.target.name}>"
                env.t[n.target.name] = "S"
                env.b[n.target.name] = (n.body, tname, env.copy())
            else:
                self.walk_nodes(n.body, tname, env, conds, loops, macros, st.copy())
        elif isinstance(n, (N.Import, N.FromImport, N.Extends)):
            pass
        elif isinstance(n, N.With):
            e2 = env.copy()
            for tg, v in zip(n.targets, n.values):
                if isinstance(tg, N.Name):
                    e2.s[tg.name] = sym(v, env.s)
                    e2.t[tg.name] = self.etype(v, env)
                    e2.f[tg.name] = self.jm.flags(v, env.f)
            self.walk_nodes(n.body, tname, e2, conds, loops, macros, st)
        elif isinstance(n, (N.CallBlock, N.FilterBlock, N.Scope, N.ScopedEvalContextModifier)):
            self.walk_nodes(getattr(n, "body", []), tname, env, conds, loops, macros, st)
        elif isinstance(n, N.ExprStmt):
            pass
        elif isinstance(n, N.Include):
            raise AnalysisError(f"{tname}: include not modelled")
        else:
            raise AnalysisError(f"{tname}:{getattr(n, 'lineno', 0)}: template statement "
                                f"{type(n).__name__} not understood")

    def _literal_rows(self, it, env):
        """the element nodes of a loop iterable that is a literal list/tuple, directly or through a {% set %} variable"""
        if isinstance(it, N.Name) and it.name in env.n:
            it = env.n[it.name]
        if isinstance(it, (N.List, N.Tuple)) and 0 < len(it.items) <= 12:
            return list(it.items)
        return None

    def _walk_if(self, test, body, elifs, else_, tname, env, conds, loops, macros, st):
        t = sym(test, env.s)
        self.scan_calls(test, tname, env, conds, loops, macros, st, in_test=True)
        st0 = st.copy()
        e1 = env.copy()
        if isinstance(test, N.Test) and test.name == "string" and isinstance(test.node, N.Name):
            e1.t[test.node.name] = "S"   # `x is string`: a plain name, not an entity
        self.walk_nodes(body, tname, e1, conds + [(t, True, test, dict(env.s), dict(env.n))], loops, macros, st)
        e2 = env.copy()
        if isinstance(test, N.Not) and isinstance(test.node, N.Test) and test.node.name == "string" and isinstance(test.node.node, N.Name):
            e2.t[test.node.node.name] = "S"   # `x is not string` ... else: a plain name
        neg = conds + [(t, False, test, dict(env.s), dict(env.n))]
        if elifs:
            first = elifs[0]
            self._walk_if(first.test, first.body, elifs[1:], else_, tname, e2, neg, loops, macros, st0.copy())
        elif else_:
            self.walk_nodes(else_, tname, e2, neg, loops, macros, st0.copy())
        self._merge(env, t, e1, e2)

    # -------------------------------------------------------------- expression emission
    def emit(self, x, tname, env: Env, conds, loops, macros, st, items, idx):
        core, fs = filter_chain(x)
        if isinstance(core, N.Name) and core.name in env.b and all(f.name == "safe" for f in fs) and self.depth < 12:
            body, t_def, e_def = env.b[core.name]
            self.depth += 1
            try:
                self.walk_nodes(body, t_def, e_def.copy(), conds, loops, macros, st)
            finally:
                self.depth -= 1
            return
        # macro call as an output: inline it
        if isinstance(core, N.Call) and self.inline:
            m = self._resolve(tname, core.node)
            if m:
                self.inline_call(m, core, tname, env, conds, loops, macros, st,
                                 outer_filters=[f.name for f in fs])
                return
        self.scan_calls(x, tname, env, conds, loops, macros, st)
        prefix, suffix = "", ""
        if idx > 0 and isinstance(items[idx - 1], N.TemplateData):
            prefix = items[idx - 1].data
        if idx + 1 < len(items) and isinstance(items[idx + 1], N.TemplateData):
            suffix = items[idx + 1].data
        rec = OutRec(tname, x.lineno, x, sym(x), sym(x, env.s), [f.name for f in fs], st.context(),
                     st.tag, list(conds), list(loops), list(macros), self.page, prefix, suffix)
        rec.etype = self.etype(x, env)
        rec.flags = self.jm.flags(x, env.f)
        rec.core_etype = self.etype(core, env)
        self.outs.append(rec)

    def _resolve(self, tname, fn):
        m = self.jm.resolve_macro(tname, fn)
        if m is None and self.inline:
            # imports are written in the child template's block; search the whole chain
            for t in self.block_chain:
                m = self.jm.resolve_macro(t, fn)
                if m:
                    break
        return m

    def scan_calls(self, expr, tname, env, conds, loops, macros, st, in_test=False):
        """Macro calls nested inside expressions (filters, tests, arguments)."""
        if not self.inline:
            return
        for c in expr.find_all(N.Call):
            m = self._resolve(tname, c.node)
            if m:
                self.inline_call(m, c, tname, env, conds, loops,
                                 macros + (["<in-test>"] if in_test else ["<in-expr>"]),
                                 st.copy(), outer_filters=[])

    def inline_call(self, m, call, tname, env: Env, conds, loops, macros, st, outer_filters):
        if m[1] in macros:
            # recursive macro (variable_list <-> proc_summary): cut the cycle; the body has
            # already been expanded once on this path with the outer arguments
            self.recursion_cuts += 1
            return
        if self.depth > 10:
            raise AnalysisError(f"macro inlining deeper than 10 at {m}")
        macro = self.jm.macros[m]
        e2 = Env()
        params = [a.name for a in macro.args]
        ndef = len(macro.defaults)
        for i, p in enumerate(params):
            di = i - (len(params) - ndef)
            if di >= 0:
                e2.s[p] = sym(macro.defaults[di], {})
                e2.t[p] = "S"
            else:
                e2.s[p] = "<missing>"
                e2.t[p] = "S"
        for i, a in enumerate(call.args):
            if i < len(params):
                e2.s[params[i]] = sym(a, env.s)
                e2.t[params[i]] = self.etype(a, env)
                e2.f[params[i]] = self.jm.flags(a, env.f)
        for k in call.kwargs:
            e2.s[k.key] = sym(k.value, env.s)
            e2.t[k.key] = self.etype(k.value, env)
            e2.f[k.key] = self.jm.flags(k.value, env.f)
        # nested macro calls inside the arguments
        for a in list(call.args) + [k.value for k in call.kwargs]:
            self.scan_calls(a, tname, env, conds, loops, macros, st)
        self.depth += 1
        before = len(self.outs)
        self.walk_nodes(macro.body, m[0], e2, conds, loops, macros + [m[1]], st)
        if outer_filters:
            for r in self.outs[before:]:
                r.filters = r.filters + outer_filters
        self.depth -= 1



# --------------------------------------------------------------------------- string structure of a symbolic value
def string_alternatives(symtext: str, limit: int = 16, decide=None):
    """The string a symbolic template value denotes, as alternatives of part lists: [("lit", text) | ("expr", text), ...].
    Understands concatenation (`~`, `+`), `'...{}...'.format(a, b)`, `[a, b]|join('x')`, conditional expressions and the
    `e` / `string` filters - however the template spells the composition.  `decide(test text)` may settle the test of a
    conditional expression (True / False / None = unknown).  Returns None when the text is not understood."""
    import ast as _ast
    t = symtext.replace("[*]", "[STAR]")
    t = re.sub(r" is (\w+)", r".IS_\1", t)
    t = t.replace(" ~ ", " + ")
    t = re.sub(r"\|(\w+)\(", r".FILTER_\1(", t)
    t = re.sub(r"\|(\w+)", r".FILTER_\1()", t)
    try:
        tree = _ast.parse(t, mode="eval").body
    except SyntaxError:
        return None

    def txt(n) -> str:
        u = _ast.unparse(n).replace("[STAR]", "[*]")
        u = re.sub(r"\.IS_(\w+)", r" is \1", u)
        u = re.sub(r"\.FILTER_(\w+)\(\)", r"|\1", u)
        u = re.sub(r"\.FILTER_(\w+)\(", r"|\1(", u)
        return u

    def cat(a, b):
        return [x + y for x in a for y in b][:limit]

    def ev(n):
        if isinstance(n, _ast.Constant):
            return [[("lit", str(n.value))]]
        if isinstance(n, _ast.BinOp) and isinstance(n.op, _ast.Add):
            return cat(ev(n.left), ev(n.right))
        if isinstance(n, _ast.IfExp):
            if isinstance(n.test, _ast.Constant):          # a macro argument that is a constant: only one branch is live
                return ev(n.body) if n.test.value else ev(n.orelse)
            if decide is not None:                         # the caller knows the value of some tests (e.g. `page.obj != 'x'`)
                d = decide(txt(n.test))
                if d is not None:
                    return ev(n.body) if d else ev(n.orelse)
            return (ev(n.body) + ev(n.orelse))[:limit]
        if isinstance(n, _ast.Call) and isinstance(n.func, _ast.Attribute):
            if n.func.attr == "format" and isinstance(n.func.value, _ast.Constant) and isinstance(n.func.value.value, str):
                pieces = re.split(r"(\{\d*\})", n.func.value.value)
                out = [[]]
                k = 0
                for pc in pieces:
                    m = re.fullmatch(r"\{(\d*)\}", pc)
                    if m:
                        i = int(m.group(1)) if m.group(1) else k
                        k += 1
                        if i >= len(n.args):
                            return [[("expr", txt(n))]]
                        out = cat(out, ev(n.args[i]))
                    elif pc:
                        out = cat(out, [[("lit", pc)]])
                return out
            if n.func.attr == "FILTER_join" and isinstance(n.func.value, (_ast.List, _ast.Tuple)):
                sep = n.args[0].value if n.args and isinstance(n.args[0], _ast.Constant) else ""
                out = [[]]
                for i, el in enumerate(n.func.value.elts):
                    if i:
                        out = cat(out, [[("lit", str(sep))]])
                    out = cat(out, ev(el))
                return out
            if n.func.attr in ("FILTER_e", "FILTER_escape", "FILTER_string", "FILTER_safe") and not n.args:
                return ev(n.func.value)
        return [[("expr", txt(n))]]
    alts = ev(tree)
    # merge adjacent literals
    out = []
    for a in alts:
        m = []
        for k, v in a:
            if m and k == "lit" and m[-1][0] == "lit":
                m[-1] = ("lit", m[-1][1] + v)
            else:
                m.append((k, v))
        out.append(m)
    return out
