"""Core plumbing for the FORD static-analysis checks.

Every rule produces *obligations*.  An obligation is one decided instance of a
rule: it names the rule, the *construct* it is about (a stable key that does
not contain line numbers), whether it holds, and a human readable detail with
file:line.  A failing obligation is a violation unless (property, rule,
construct) is listed with status "known" in /verif/known_findings.json.

Exit codes: 0 all obligations hold (or only known findings fail);
1 at least one unlisted violation (a `VIOLATION property=.. replay=..` line is
printed); 2 the analysis itself could not be carried out (`ANALYSIS-ERROR`).
"""
from __future__ import annotations

import json
import os
import sys
import time
import traceback
from dataclasses import dataclass, field
from pathlib import Path
from typing import Any, Callable, Dict, List, Optional

VERIF = Path(__file__).resolve().parent.parent


class AnalysisError(Exception):
    """The extractor does not understand the code / an anchor vanished."""


@dataclass
class Ob:
    rule: str
    construct: str
    ok: bool
    detail: str = ""
    loc: str = ""
    nontrivial: bool = True
    witness: Any = None


@dataclass
class RuleSpec:
    rid: str
    fn: Callable
    title: str
    floor: int = 1
    tier: str = "quick"  # quick rules also run in thorough


class Report:
    def __init__(self, prop: str, tier: str):
        self.prop = prop
        self.tier = tier
        self.obs: List[Ob] = []
        self.rule_titles: Dict[str, str] = {}
        self.notes: List[str] = []
        self.stats: Dict[str, Any] = {}
        self._cur: Optional[str] = None

    def ob(self, construct: str, ok: bool, detail: str = "", loc: str = "",
           nontrivial: bool = True, witness: Any = None, rule: Optional[str] = None):
        self.obs.append(Ob(rule or self._cur, construct, bool(ok), detail, loc,
                           nontrivial, witness))
        return ok

    def note(self, s: str):
        self.notes.append(s)


def load_known() -> List[dict]:
    p = VERIF / "known_findings.json"
    if not p.exists():
        return []
    return json.loads(p.read_text())["findings"]


def evaluate(prop: str, rules: List[RuleSpec], ctx, tier: str):
    """run the rules; returns (report, error message or None)."""
    rep = Report(prop, tier)
    try:
        for rs in rules:
            if rs.tier == "thorough" and tier != "thorough":
                continue
            rep._cur = rs.rid
            rep.rule_titles[rs.rid] = rs.title
            before = len(rep.obs)
            rs.fn(ctx, rep)
            n = len([o for o in rep.obs[before:] if o.rule == rs.rid])
            if n < rs.floor:
                raise AnalysisError(
                    f"{rs.rid}: only {n} instance(s) examined, floor is {rs.floor} "
                    f"(vacuity guard: the anchor of this rule has moved or vanished)")
    except AnalysisError as e:
        return rep, str(e)
    except Exception:
        return rep, f"internal error in rule {rep._cur}:\n{traceback.format_exc()}"
    return rep, None


def run_property(prop: str, rules: List[RuleSpec], ctx, tier: str, explanation: str,
                 assumptions: List[str]) -> int:
    t0 = time.time()
    if tier == "thorough":
        from . import selftest
        rules = list(rules) + [RuleSpec(f"{prop}.ST", lambda c, r, _p=prop: selftest.run(_p, c, r),
                                        "self-test: seeded mutations and reverted fixes are detected", floor=1,
                                        tier="thorough")]
    rep, err = evaluate(prop, rules, ctx, tier)
    if err is not None:
        print(f"ANALYSIS-ERROR property={prop} {err}")
        return 2

    known = [k for k in load_known() if k["property"] == prop]
    known_keys = {(k["rule"], k["construct"]): k for k in known if k.get("status") == "known"}
    fails = [o for o in rep.obs if not o.ok]
    kf_hit, viol = [], []
    seen = set()
    for o in fails:
        key = (o.rule, o.construct)
        if key in seen:
            continue
        seen.add(key)
        (kf_hit if key in known_keys else viol).append(o)

    for o in kf_hit:
        k = known_keys[(o.rule, o.construct)]
        print(f"KNOWN-FINDING: property={prop} {o.rule} {o.construct} -- {k.get('what', o.detail)}")

    vdir = VERIF / "evidence" / "violations"
    rc = 0
    if vdir.is_dir():
        for old in vdir.glob(f"{prop}.*.json"):      # replay files of earlier runs of this property
            old.unlink()
    if viol:
        vdir.mkdir(parents=True, exist_ok=True)
        rc = 1
        for i, o in enumerate(viol):
            path = vdir / f"{prop}.{o.rule}.{i}.json"
            path.write_text(json.dumps({
                "property": prop, "rule": o.rule, "rule_title": rep.rule_titles.get(o.rule, ""),
                "construct": o.construct, "detail": o.detail, "location": o.loc,
                "witness": o.witness, "root": str(ctx.root)}, indent=1, default=str))
            print(f"  [{o.rule}] {o.construct}: {o.detail} ({o.loc})")
            print(f"VIOLATION property={prop} replay={path}")

    # evidence
    per_rule: Dict[str, Dict[str, int]] = {}
    for o in rep.obs:
        d = per_rule.setdefault(o.rule, {"instances": 0, "nontrivial": 0, "failed": 0})
        d["instances"] += 1
        d["nontrivial"] += 1 if o.nontrivial else 0
        d["failed"] += 0 if o.ok else 1
    distinct = {(o.rule, o.construct) for o in rep.obs if o.nontrivial}
    samples = []
    shown = set()
    for o in rep.obs:
        if o.rule in shown and o.ok:
            continue
        if len([s for s in samples if s["rule"] == o.rule]) >= 3:
            continue
        shown.add(o.rule)
        samples.append({"rule": o.rule, "construct": o.construct, "holds": o.ok,
                        "detail": o.detail[:400], "location": o.loc})
    ev = {
        "property_id": prop,
        "tier": tier,
        "seed": int(os.environ.get("VERIF_SEED", "0") or 0),
        "level": "other",
        "coverage": {
            "explanation": explanation,
            "evaluations": len(rep.obs),
            "distinct_nontrivial": len(distinct),
            "rule": "one evaluation = one decided instance of a rule on one construct of /repo's "
                    "current source (a site, a pair of sites, a regex obligation, a guard "
                    "implication); non-trivial = deciding it needed a real step (automaton "
                    "exploration, dataflow/dominance query, cross-artifact comparison), as flagged "
                    "by the rule; distinct = distinct (rule, construct) keys",
            "samples": samples[:40],
            "rules": {rid: dict(title=rep.rule_titles.get(rid, ""), **d) for rid, d in per_rule.items()},
            "analysed": ctx.analysed_summary(),
            "known_findings_hit": [f"{o.rule} {o.construct}" for o in kf_hit],
            "notes": rep.notes,
            "stats": rep.stats,
            "exhaustive": False,
        },
        "assumptions": assumptions,
        "wall_s": round(time.time() - t0, 3),
        "violations": len(viol),
    }
    evp = VERIF / "evidence" / f"{prop}.json"
    evp.parent.mkdir(exist_ok=True)
    evp.write_text(json.dumps(ev, indent=1, default=str) + "\n")
    nrules = len(per_rule)
    print(f"{prop} [{tier}] rules={nrules} obligations={len(rep.obs)} "
          f"held={len(rep.obs) - len(fails)} known-findings={len(kf_hit)} violations={len(viol)} "
          f"wall={ev['wall_s']}s")
    return rc
