"""E5 — finite model of the statement-dispatch loop in FortranContainer.__init__.

The extractor turns the `for line in source:` loop into: the ordered pre-arm statements, and an
ordered list of arms (guard atoms + body facts).  Guard atoms are regex tests
`self.X_RE.match|search(line)`, literal tests on `line_lower`, and residual conjuncts
(`blocklevel == 0`, `incontains`, isinstance/hasattr tests).  Unknown shapes raise AnalysisError.
"""
from __future__ import annotations

import ast
from dataclasses import dataclass, field
from typing import Dict, List, Optional, Set, Tuple

from .core import AnalysisError
from .pymodel import PyModel, call_name


@dataclass
class Construct:
    cls: str                 # constructed class
    dest: Optional[str]      # self.<dest> list it is appended/extended to (None if via variable)
    perm: Optional[str]      # source text of the permission argument (None if not passed)
    conds: List[str]         # enclosing conditions inside the arm body
    node: ast.AST = None


@dataclass
class Arm:
    index: int
    test: ast.AST
    body: List[ast.stmt]
    regexes: List[Tuple[str, str]] = field(default_factory=list)   # (REGEX NAME, match|search)
    literals: List[str] = field(default_factory=list)
    residual: List[str] = field(default_factory=list)
    disjunctive: bool = False
    constructs: List[Construct] = field(default_factory=list)
    errors: List[Tuple[str, List[str]]] = field(default_factory=list)   # (message, conds)
    calls: Set[str] = field(default_factory=set)
    continues: bool = False
    returns: bool = False
    writes: Set[str] = field(default_factory=set)      # loop-carried variables assigned
    reads: Set[str] = field(default_factory=set)

    @property
    def name(self) -> str:
        if self.regexes:
            return "+".join(r for r, _ in self.regexes)
        if self.literals:
            return "lit:" + "|".join(self.literals)
        return f"arm{self.index}"

    @property
    def lineno(self) -> int:
        return self.test.lineno


CARRIED = ("incontains", "child_permission", "blocklevel", "associations")   # default; recomputed per run (Cascade.carried)


class Cascade:
    def __init__(self, py: PyModel):
        self.py = py
        # canonical form: helpers called from the loop body (`self._add_interface_block(...)`) are inlined, so that an arm is
        # what it does, however it is cut into methods
        fn = py.ifunc("FortranContainer.__init__")
        self.fn = fn
        params = [a.arg for a in fn.args.args]
        loops = [n for n in fn.body if isinstance(n, ast.For) and isinstance(n.iter, ast.Name) and n.iter.id in params
                 and isinstance(n.target, ast.Name)]
        if len(loops) != 1:
            raise AnalysisError("FortranContainer.__init__: statement loop `for <line> in <source parameter>` not found")
        self.loop = loops[0]
        self.line_var = self.loop.target.id
        self.lower_var = "line_lower"
        for st in self.loop.body:
            if isinstance(st, ast.Assign) and isinstance(st.targets[0], ast.Name) and isinstance(st.value, ast.Call) \
                    and isinstance(st.value.func, ast.Attribute) and st.value.func.attr in ("lower", "casefold") \
                    and ast.unparse(st.value.func.value) == self.line_var:
                self.lower_var = st.targets[0].id
        # loop-carried state: local names initialised before the loop and assigned again inside it
        before = {t.id for st in fn.body[:fn.body.index(self.loop)] for n in ast.walk(st) if isinstance(n, (ast.Assign, ast.AnnAssign))
                  for t in (n.targets if isinstance(n, ast.Assign) else [n.target]) if isinstance(t, ast.Name)}
        inside = {t.id for n in ast.walk(self.loop) if isinstance(n, (ast.Assign, ast.AugAssign))
                  for t in (n.targets if isinstance(n, ast.Assign) else [n.target]) if isinstance(t, ast.Name)}
        self.carried = tuple(sorted(before & inside)) or CARRIED
        self.pre: List[ast.stmt] = []
        chain = None
        for st in self.loop.body:
            if isinstance(st, ast.If) and self._is_chain_head(st):
                chain = st
                break
            self.pre.append(st)
        if chain is None:
            raise AnalysisError("dispatch chain (if line_lower == 'contains' ...) not found")
        after = self.loop.body[self.loop.body.index(chain) + 1:]
        if after:
            raise AnalysisError("statements after the dispatch chain inside the loop are not modelled")
        self.chain = chain
        self.arms: List[Arm] = []
        node = chain
        i = 0
        while True:
            arm = Arm(i, node.test, node.body)
            self._guard(arm, node.test)
            self._body(arm)
            self.arms.append(arm)
            i += 1
            if len(node.orelse) == 1 and isinstance(node.orelse[0], ast.If):
                node = node.orelse[0]
            elif not node.orelse:
                break
            else:
                raise AnalysisError("dispatch chain ends in a bare else: not modelled")
        if len(self.arms) < 25:
            raise AnalysisError(f"only {len(self.arms)} arms extracted from the dispatch chain")
        self.after_loop = fn.body[fn.body.index(self.loop) + 1:]

    @staticmethod
    def _is_chain_head(st: ast.If) -> bool:
        n = 0
        node = st
        while len(node.orelse) == 1 and isinstance(node.orelse[0], ast.If):
            node = node.orelse[0]
            n += 1
        return n >= 10

    # ------------------------------------------------------------------ guards
    def _atom(self, arm: Arm, t: ast.AST) -> bool:
        """classify one conjunct; returns False if not understood."""
        if isinstance(t, ast.NamedExpr):
            return self._atom(arm, t.value)
        # truth-value wrappers around a match: bool(m), m is not None
        if isinstance(t, ast.Call) and isinstance(t.func, ast.Name) and t.func.id == "bool" and len(t.args) == 1 and not t.keywords:
            return self._atom(arm, t.args[0])
        if isinstance(t, ast.Compare) and len(t.ops) == 1 and isinstance(t.ops[0], ast.IsNot) and \
                isinstance(t.comparators[0], ast.Constant) and t.comparators[0].value is None:
            return self._atom(arm, t.left)
        if isinstance(t, ast.Call) and isinstance(t.func, ast.Attribute) and t.func.attr in ("match", "search") \
                and isinstance(t.func.value, ast.Attribute) and ast.unparse(t.func.value.value) == "self" \
                and len(t.args) == 1 and ast.unparse(t.args[0]) == self.line_var:
            arm.regexes.append((t.func.value.attr, t.func.attr))
            return True
        if isinstance(t, ast.Compare) and len(t.ops) == 1 and ast.unparse(t.left) == self.lower_var:
            if isinstance(t.ops[0], ast.Eq) and isinstance(t.comparators[0], ast.Constant):
                arm.literals.append(t.comparators[0].value)
                return True
            if isinstance(t.ops[0], ast.In) and isinstance(t.comparators[0], (ast.List, ast.Tuple)):
                arm.literals += [e.value for e in t.comparators[0].elts if isinstance(e, ast.Constant)]
                return True
        arm.residual.append(ast.unparse(t))
        return True

    def _guard(self, arm: Arm, test: ast.AST):
        if isinstance(test, ast.BoolOp) and isinstance(test.op, ast.And):
            for v in test.values:
                if isinstance(v, ast.BoolOp) and isinstance(v.op, ast.Or):
                    arm.residual.append(ast.unparse(v))
                else:
                    self._atom(arm, v)
        elif isinstance(test, ast.BoolOp) and isinstance(test.op, ast.Or):
            arm.disjunctive = True
            for v in test.values:
                self._atom(arm, v)
        else:
            self._atom(arm, test)
        if not arm.regexes and not arm.literals:
            raise AnalysisError(f"arm at line {test.lineno}: guard `{ast.unparse(test)[:60]}` has no regex/literal atom")

    # ------------------------------------------------------------------ bodies
    def _body(self, arm: Arm):
        py = self.py

        # local names that stand for one of the container's own lists: `x = self.A` / `x = self.A if c else self.B`
        aliases: Dict[str, List[str]] = {}
        for a in ast.walk(ast.Module(body=arm.body, type_ignores=[])):
            if isinstance(a, ast.Assign) and len(a.targets) == 1 and isinstance(a.targets[0], ast.Name):
                alts = [a.value.body, a.value.orelse] if isinstance(a.value, ast.IfExp) else [a.value]
                if all(isinstance(v, ast.Attribute) and isinstance(v.value, ast.Name) and v.value.id == "self" for v in alts):
                    aliases[a.targets[0].id] = [v.attr for v in alts]

        def list_dests(m: ast.Call) -> List[str]:
            """the self.<list>s that `m` (an append/extend call) adds to"""
            if not (isinstance(m.func, ast.Attribute) and m.func.attr in ("append", "extend")):
                return []
            r = m.func.value
            if isinstance(r, ast.Attribute) and isinstance(r.value, ast.Name) and r.value.id == "self":
                return [r.attr]
            if isinstance(r, ast.Name) and r.id in aliases:
                return aliases[r.id]
            return []

        def visit(stmts, conds: List[str]):
            for st in stmts:
                if isinstance(st, ast.Expr) and isinstance(st.value, ast.Constant) and isinstance(st.value.value, str):
                    from .inline import MARKER
                    if st.value.value.startswith(MARKER):      # an inlined helper: recorded like a call of it
                        arm.calls.add(st.value.value[len(MARKER):])
                    continue
                if isinstance(st, ast.If):
                    t = ast.unparse(st.test)
                    visit(st.body, conds + [t])
                    visit(st.orelse, conds + [f"not ({t})"])
                    for n in ast.walk(st.test):
                        if isinstance(n, ast.Name) and n.id in self.carried:
                            arm.reads.add(n.id)
                    continue
                if isinstance(st, (ast.For, ast.While, ast.With, ast.Try)):
                    visit(getattr(st, "body", []), conds)
                    visit(getattr(st, "orelse", []), conds)
                    for h in getattr(st, "handlers", []):
                        visit(h.body, conds)
                    hdr = st.iter if isinstance(st, ast.For) else getattr(st, "test", None)
                    if hdr is not None:
                        scan_expr(hdr, conds, st)
                    continue
                if isinstance(st, ast.Continue):
                    if not conds:
                        arm.continues = True
                    continue
                if isinstance(st, ast.Return):
                    arm.returns = True
                    continue
                if isinstance(st, (ast.Assign, ast.AugAssign)):
                    tg = st.targets if isinstance(st, ast.Assign) else [st.target]
                    for t in tg:
                        if isinstance(t, ast.Name) and t.id in self.carried:
                            arm.writes.add(t.id)
                        if isinstance(t, ast.Attribute) and ast.unparse(t) == "self.permission":
                            arm.writes.add("self.permission")
                scan_expr(st, conds, st)

        def scan_expr(node, conds, st):
            for n in ast.walk(node):
                if isinstance(n, ast.Name) and n.id in self.carried and isinstance(n.ctx, ast.Load):
                    arm.reads.add(n.id)
                if not isinstance(n, ast.Call):
                    continue
                cn = call_name(n)
                last = cn.split(".")[-1]
                arm.calls.add(last)
                if cn == "self.print_error":
                    msg = ast.unparse(n.args[1]) if len(n.args) > 1 else "?"
                    arm.errors.append((msg, list(conds)))
                if last in py.classes and (last.startswith("Fortran")):
                    dest = None
                    p = py.parents.get(n)
                    hops = 0
                    while p is not None and hops < 6:
                        if isinstance(p, ast.Call) and list_dests(p):
                            dest = "|".join(list_dests(p))
                            break
                        if isinstance(p, ast.stmt):
                            break
                        p = py.parents.get(p)
                        hops += 1
                    var0 = None
                    if dest is None and isinstance(st, ast.Assign) and isinstance(st.targets[0], ast.Name):
                        var0 = st.targets[0].id          # intr = FortranInterface(...) / items = [Fortran...(x) for x in ...]
                    elif dest is None:
                        # collected in a local first: `items.append(FortranX(...))` ... `self.X.extend(items)`
                        p = py.parents.get(n)
                        hops = 0
                        while p is not None and hops < 6 and not isinstance(p, ast.stmt):
                            if isinstance(p, ast.Call) and isinstance(p.func, ast.Attribute) and p.func.attr in ("append", "extend", "add") \
                                    and isinstance(p.func.value, ast.Name):
                                var0 = p.func.value.id
                                break
                            p = py.parents.get(p)
                            hops += 1
                    if var0 is not None:
                        # follow the local to the self.X.append/extend(...) it ends up in (through further locals)
                        todo, seen_v = [var0], set()
                        while todo:
                            var = todo.pop()
                            if var in seen_v:
                                continue
                            seen_v.add(var)
                            for m in ast.walk(ast.Module(body=arm.body, type_ignores=[])):
                                if not (isinstance(m, ast.Call) and m.args and
                                        any(isinstance(x, ast.Name) and x.id == var for x in ast.walk(m.args[0]))):
                                    continue
                                if list_dests(m):
                                    for dd in list_dests(m):
                                        if dd not in (dest or "").split("|"):
                                            dest = (dest + "|" if dest else "") + dd
                                elif isinstance(m.func, ast.Attribute) and m.func.attr in ("append", "extend", "add") and \
                                        isinstance(m.func.value, ast.Name) and len(seen_v) < 4:
                                    todo.append(m.func.value.id)
                    perm = None
                    r = py.resolve_method(last, "__init__")
                    pidx = 3
                    pname = "inherited_permission"
                    if r is not None:
                        ps = [a.arg for a in r[1].args.args][1:]
                        cand = [i for i, x in enumerate(ps) if "permission" in x]
                        if cand:
                            pidx, pname = cand[0], ps[cand[0]]
                    if len(n.args) > pidx:
                        perm = ast.unparse(n.args[pidx])
                    for k in n.keywords:
                        if k.arg in (pname, "inherited_permission", "permission"):
                            perm = ast.unparse(k.value)
                    arm.constructs.append(Construct(last, dest, perm, list(conds), n))
                if cn in ("line_to_variables", "get_mod_procs"):
                    dest = None
                    p = py.parents.get(n)
                    if isinstance(p, ast.Call) and list_dests(p):
                        dest = "|".join(list_dests(p))
                    elif isinstance(p, ast.Call) and call_name(p).startswith("self."):
                        dest = call_name(p).split(".")[1]
                    perm = None
                    if cn == "line_to_variables":
                        ltv = py.functions.get("sourceform.line_to_variables")
                        ps = [a.arg for a in ltv.args.args] if ltv is not None else []
                        cand = [i for i, x in enumerate(ps) if "permission" in x]
                        pi = cand[0] if cand else 2
                        if len(n.args) > pi:
                            perm = ast.unparse(n.args[pi])
                        for k in n.keywords:
                            if "permission" in (k.arg or ""):
                                perm = ast.unparse(k.value)
                    arm.constructs.append(Construct(
                        "FortranVariable" if cn == "line_to_variables" else "FortranModuleProcedureReference",
                        dest, perm, list(conds), n))

        visit(arm.body, [])

    # ------------------------------------------------------------------ queries
    def arm_by_regex(self, name: str) -> Arm:
        for a in self.arms:
            if any(r == name for r, _ in a.regexes):
                return a
        raise AnalysisError(f"no arm tests {name}")

    def arm_by_literal(self, lit: str) -> Arm:
        for a in self.arms:
            if lit in a.literals:
                return a
        raise AnalysisError(f"no arm tests literal {lit!r}")
