"""E4 — finite-state extraction from the two hand-written character scanners.

The loop body of the scanner is interpreted *abstractly*: characters are drawn from a finite set
of classes (each quote character, the separator, `x` = any other character); all other loop state
is finite (booleans / small enums).  Soundness precondition, checked while interpreting: two
`x` characters are never compared with each other, and characters are only compared with
constants or with variables holding characters.  The resulting finite transducer is compared
with a reference automaton by exhaustive exploration of the reachable product, which decides
equivalence for strings of every length, or yields a shortest distinguishing string.
"""
from __future__ import annotations

import ast
from collections import deque
from typing import Dict, List, Optional, Tuple

from .core import AnalysisError

X = "x"   # class of all characters the scanner does not mention


class _Continue(Exception):
    pass


class Interp:
    """evaluates the small statement/expression subset used by the scanners over abstract values."""

    def __init__(self, alphabet: List[str], consts: Optional[Dict[str, object]] = None, string_var: str = "string",
                 list_var: str = "retlist"):
        self.alphabet = alphabet
        self.consts = consts or {}
        self.string_var = string_var
        self.list_var = list_var

    def ev(self, e: ast.AST, env: Dict[str, object]):
        if isinstance(e, ast.Constant):
            return e.value
        if isinstance(e, ast.Name):
            if e.id not in env:
                if e.id in self.consts:
                    return self.consts[e.id]
                raise AnalysisError(f"scanner uses unknown name {e.id}")
            return env[e.id]
        if isinstance(e, ast.Tuple):
            return tuple(self.ev(x, env) for x in e.elts)
        if isinstance(e, ast.UnaryOp) and isinstance(e.op, ast.Not):
            return not self.ev(e.operand, env)
        if isinstance(e, ast.BoolOp):
            if isinstance(e.op, ast.And):
                for v in e.values:
                    if not self.ev(v, env):
                        return False
                return True
            for v in e.values:
                if self.ev(v, env):
                    return True
            return False
        if isinstance(e, ast.Compare) and len(e.ops) > 1:
            # a < b < c  ==  a < b and b < c  (short-circuit)
            left = e.left
            for op, right in zip(e.ops, e.comparators):
                if not self.ev(ast.Compare(left=left, ops=[op], comparators=[right]), env):
                    return False
                left = right
            return True
        if isinstance(e, (ast.List, ast.Set)):
            return tuple(self.ev(x, env) for x in e.elts)
        if isinstance(e, ast.IfExp):
            return self.ev(e.body, env) if self.ev(e.test, env) else self.ev(e.orelse, env)
        if isinstance(e, ast.Compare) and len(e.ops) == 1:
            a, b = self.ev(e.left, env), self.ev(e.comparators[0], env)
            op = e.ops[0]
            if isinstance(op, (ast.Eq, ast.NotEq)):
                if a == X and b == X:
                    raise AnalysisError("scanner compares two unspecified characters: abstraction unsound")
                return (a == b) if isinstance(op, ast.Eq) else (a != b)
            if isinstance(op, (ast.In, ast.NotIn)):
                r = a in b
                return r if isinstance(op, ast.In) else not r
            if isinstance(op, ast.Lt):
                return a < b
            if isinstance(op, ast.GtE):
                return a >= b
            if isinstance(op, ast.Gt):
                return a > b
            if isinstance(op, ast.LtE):
                return a <= b
            if isinstance(op, ast.Is):
                return a is b
            if isinstance(op, ast.IsNot):
                return a is not b
        if isinstance(e, ast.Subscript) and ast.unparse(e.value) == self.string_var and isinstance(e.slice, ast.Slice):
            # a slice never raises: characters beyond the end are simply missing
            lo = self.ev(e.slice.lower, env) if e.slice.lower is not None else 0
            hi = self.ev(e.slice.upper, env) if e.slice.upper is not None else None
            if hi is None or e.slice.step is not None or hi - lo > 2 or lo < 0:
                raise AnalysisError(f"scanner slice not understood: {ast.unparse(e)[:60]}")
            n_ = env["__len__"]()
            out = [env["__at__"](k) for k in range(lo, min(hi, n_))]
            if len(out) == 1:
                return out[0]
            if not out:
                return ""
            raise AnalysisError(f"scanner slice of more than one character: {ast.unparse(e)[:60]}")
        if isinstance(e, ast.Subscript) and ast.unparse(e.value) == self.string_var:
            idx = self.ev(e.slice, env)
            return env["__at__"](idx)
        if isinstance(e, ast.BinOp) and isinstance(e.op, ast.Add):
            return self.ev(e.left, env) + self.ev(e.right, env)
        if isinstance(e, ast.BinOp) and isinstance(e.op, ast.Mod):
            return self.ev(e.left, env) % self.ev(e.right, env)
        if isinstance(e, ast.Call) and ast.unparse(e.func) == self.string_var + ".count" and len(e.args) == 1 and \
                isinstance(e.args[0], ast.Constant) and "__count__" in env:
            return env["__count__"](e.args[0].value)
        if isinstance(e, ast.Call) and ast.unparse(e.func) == "len" and ast.unparse(e.args[0]) == self.string_var:
            return env["__len__"]()
        if isinstance(e, ast.BinOp) and isinstance(e.op, ast.Sub):
            return self.ev(e.left, env) - self.ev(e.right, env)
        raise AnalysisError(f"scanner expression not understood: {ast.unparse(e)[:60]}")

    def run(self, stmts: List[ast.stmt], env: Dict[str, object]):
        for st in stmts:
            if isinstance(st, ast.If):
                if self.ev(st.test, env):
                    self.run(st.body, env)
                else:
                    self.run(st.orelse, env)
            elif isinstance(st, ast.Assign) and len(st.targets) == 1 and isinstance(st.targets[0], ast.Name):
                env[st.targets[0].id] = self.ev(st.value, env)
            elif isinstance(st, ast.AugAssign) and isinstance(st.target, ast.Name) and isinstance(st.op, ast.Add):
                env[st.target.id] = env[st.target.id] + self.ev(st.value, env)
            elif isinstance(st, ast.Continue):
                raise _Continue()
            elif isinstance(st, ast.Expr) and isinstance(st.value, ast.Call) and \
                    ast.unparse(st.value.func) == self.list_var + ".append":
                env["__split__"] = True
            elif isinstance(st, ast.Break):
                raise AnalysisError("scanner leaves its loop early (break) on a path that default arguments reach")
            elif isinstance(st, ast.Pass):
                pass
            elif isinstance(st, ast.Expr) and isinstance(st.value, ast.Constant):
                pass
            else:
                raise AnalysisError(f"scanner statement not understood: {ast.unparse(st)[:60]}")


class _Normalise(ast.NodeTransformer):
    """AnnAssign with a value -> Assign; bare annotations and docstrings dropped (they carry no scanner semantics)"""
    def visit_AnnAssign(self, n):
        if n.value is None:
            return None
        return ast.copy_location(ast.Assign(targets=[n.target], value=n.value, lineno=n.lineno), n)


def normalise(fn: ast.FunctionDef) -> ast.FunctionDef:
    import copy
    f2 = _Normalise().visit(copy.deepcopy(fn))
    ast.fix_missing_locations(f2)
    return f2



# --------------------------------------------------------------------------- unterminated string
def extract_unterminated(fn: ast.FunctionDef, consts: Optional[Dict[str, object]] = None):
    """returns (initial state, step(state, cls) -> state, accept(state) -> bool, alphabet).

    Recognised function shape: constant initialisations, optional early `if <cond>: return <const>`
    statements whose condition may use `string.count(<quote>) % 2` (modelled exactly by two parity
    bits carried in the automaton state), one `for char in string` loop, one final return."""
    fn = normalise(fn)
    params = [a.arg for a in fn.args.args]
    loops = [s for s in fn.body if isinstance(s, ast.For)]
    if len(loops) != 1 or ast.unparse(loops[0].iter) not in params or not isinstance(loops[0].target, ast.Name):
        raise AnalysisError("_contains_unterminated_string: `for <char> in <string parameter>` loop not found")
    loop = loops[0]
    var = loop.target.id
    svar = ast.unparse(loop.iter)
    init: Dict[str, object] = {}
    early: List[ast.If] = []
    ret = None
    for s in fn.body:
        if isinstance(s, ast.Expr) and isinstance(s.value, ast.Constant):
            continue
        if isinstance(s, ast.Assign) and isinstance(s.targets[0], ast.Name) and isinstance(s.value, ast.Constant):
            init[s.targets[0].id] = s.value.value
        elif isinstance(s, ast.If) and len(s.body) == 1 and isinstance(s.body[0], ast.Return) and not s.orelse \
                and fn.body.index(s) < fn.body.index(loop):
            early.append(s)
        elif s is loop:
            continue
        elif isinstance(s, ast.Return) and s is fn.body[-1]:
            ret = s
        else:
            raise AnalysisError(f"_contains_unterminated_string: statement not understood: {ast.unparse(s)[:60]}")
    if ret is None:
        raise AnalysisError("_contains_unterminated_string: final return not found")
    names = sorted(init)
    interp = Interp(["'", '"', X], consts, string_var=svar)

    def step(state: tuple, cls: str) -> tuple:
        vals, par = state[:-1], state[-1]
        env = dict(zip(names, vals))
        env[var] = cls
        try:
            interp.run(loop.body, env)
        except _Continue:
            pass
        ps, pd = par
        if cls == "'":
            ps ^= 1
        elif cls == '"':
            pd ^= 1
        return tuple(env[n] for n in names) + ((ps, pd),)

    def accept(state: tuple) -> bool:
        vals, par = state[:-1], state[-1]
        env = dict(zip(names, vals))
        env["__count__"] = lambda c: {"'": par[0], '"': par[1]}.get(c, 0)
        for e in early:
            if interp.ev(e.test, dict(env, **{k: init[k] for k in init})):
                return bool(interp.ev(e.body[0].value, env))
        return bool(interp.ev(ret.value, env))

    return tuple(init[n] for n in names) + ((0, 0),), step, accept, ["'", '"', X]


def ref_unterminated():
    """reference: 'the string ends inside a character literal' (doubled delimiter = close + open)."""
    def step(s: str, c: str) -> str:
        if s == "out":
            return {"'": "inS", '"': "inD"}.get(c, "out")
        if s == "inS":
            return "out" if c == "'" else "inS"
        return "out" if c == '"' else "inD"
    return "out", step, (lambda s: s != "out")


def compare_acceptors(impl, ref) -> Tuple[Optional[str], int]:
    i0, istep, iacc, alphabet = impl
    r0, rstep, racc = ref
    seen = {(i0, r0)}
    dq = deque([((i0, r0), "")])
    while dq:
        (i, r), w = dq.popleft()
        if iacc(i) != racc(r):
            return w, len(seen)
        for c in alphabet:
            nxt = (istep(i, c), rstep(r, c))
            if nxt not in seen:
                seen.add(nxt)
                dq.append((nxt, w + c))
        if len(seen) > 5000:
            raise AnalysisError("scanner state space unexpectedly large")
    return None, len(seen)


# --------------------------------------------------------------------------- quote_split
def extract_quote_split(fn: ast.FunctionDef, consts: Optional[Dict[str, object]] = None):
    """Transducer of quote_split: for (state, current class, next class or None) returns
    (state', advance in {1,2}, split?).  Recognised loop forms: `while i < len(string)` with
    `string[i]` / one character of look-ahead, `for i, char in enumerate(string)`, `for char in string`."""
    fn = normalise(fn)
    init: Dict[str, object] = {}
    for s in fn.body:
        if isinstance(s, ast.Assign) and isinstance(s.targets[0], ast.Name) and isinstance(s.value, ast.Constant):
            init[s.targets[0].id] = s.value.value
    # scanner state: flags and (string-valued) "which delimiter is open" variables that the loop updates
    assigned_in_loop = {t.id for lp in fn.body if isinstance(lp, (ast.While, ast.For)) for st in ast.walk(lp)
                        if isinstance(st, ast.Assign) for t in st.targets if isinstance(t, ast.Name)}
    state_names = sorted(n for n, v in init.items() if isinstance(v, bool) or (isinstance(v, str) and n in assigned_in_loop))
    if not state_names:
        raise AnalysisError("quote_split: scanner state not found")
    params = [a.arg for a in fn.args.args]
    if len(params) < 2:
        raise AnalysisError("quote_split: expected (sep, string, ...)")
    sep_var, svar = params[0], params[1]
    defaults = {}
    pos = fn.args.args
    for a, d in zip(pos[len(pos) - len(fn.args.defaults):], fn.args.defaults):
        if isinstance(d, ast.Constant) or (isinstance(d, ast.UnaryOp) and isinstance(d.operand, ast.Constant)):
            defaults[a.arg] = ast.literal_eval(d)
    for a, d in zip(fn.args.kwonlyargs, fn.args.kw_defaults):
        if d is not None and (isinstance(d, ast.Constant) or (isinstance(d, ast.UnaryOp) and isinstance(d.operand, ast.Constant))):
            defaults[a.arg] = ast.literal_eval(d)
    rets = [s.value for s in ast.walk(fn) if isinstance(s, ast.Return) and s.value is not None]
    list_var = ast.unparse(rets[-1]) if rets and isinstance(rets[-1], ast.Name) else "retlist"
    interp = Interp(["'", '"', "S", X], consts, string_var=svar, list_var=list_var)
    loops = [s for s in fn.body if isinstance(s, (ast.While, ast.For))]
    if len(loops) != 1:
        raise AnalysisError("quote_split: scanning loop not found")
    loop = loops[0]
    allowed_other = [s for s in fn.body if s is not loop and not (
        isinstance(s, ast.Expr) and isinstance(s.value, ast.Constant)) and not isinstance(s, (ast.Assign, ast.Return))
        and not (isinstance(s, ast.If) and any(isinstance(x, ast.Raise) for x in s.body))
        and not (isinstance(s, ast.Expr) and (list_var + ".append") in ast.unparse(s))]
    if allowed_other:
        raise AnalysisError(f"quote_split: statement not understood: {ast.unparse(allowed_other[0])[:60]}")
    char_var = None
    idx_var = "i"
    if isinstance(loop, ast.While):
        t = loop.test
        if not (isinstance(t, ast.Compare) and len(t.ops) == 1 and isinstance(t.ops[0], ast.Lt) and isinstance(t.left, ast.Name)
                and ast.unparse(t.comparators[0]) == f"len({svar})"):
            raise AnalysisError("quote_split: `while <i> < len(<string>)` loop not found")
        idx_var = t.left.id
        mode = "while"
    else:
        it = ast.unparse(loop.iter)
        if it == f"enumerate({svar})" and isinstance(loop.target, ast.Tuple) and len(loop.target.elts) == 2:
            idx_var = loop.target.elts[0].id
            char_var = loop.target.elts[1].id
        elif it == svar and isinstance(loop.target, ast.Name):
            char_var = loop.target.id
        else:
            raise AnalysisError(f"quote_split: loop over `{it}` not understood")
        mode = "for"
    other_init = {k: v for k, v in init.items() if k not in state_names and k != idx_var}

    def step(state: tuple, cur: str, nxt: Optional[str]):
        env: Dict[str, object] = dict(defaults)
        env.update(other_init)
        env.update(zip(state_names, state))
        env.update({idx_var: 0, sep_var: "S", "__split__": False})
        env["__len__"] = lambda: 1 if nxt is None else 2
        env["__at__"] = lambda k: cur if k == 0 else (nxt if (k == 1 and nxt is not None) else _oob())
        if char_var:
            env[char_var] = cur
        try:
            interp.run(loop.body, env)
        except _Continue:
            pass
        adv = env[idx_var] if mode == "while" else 1
        if adv not in (1, 2):
            raise AnalysisError(f"quote_split: iteration advances by {adv}")
        return tuple(env[n] for n in state_names), adv, bool(env["__split__"])

    return tuple(init[n] for n in state_names), step, ["'", '"', "S", X]


def _oob():
    raise AnalysisError("quote_split reads beyond the look-ahead modelled")


def compare_quote_split(impl) -> Tuple[Optional[str], int]:
    """product of the implementation (one character look-ahead, may skip) with the reference
    'split exactly at separators outside character literals'."""
    i0, istep, alphabet = impl
    rstart, rstep, _ = ref_unterminated()
    # configuration: (impl state, held char or None, ref state before held, skip flag)
    start = (i0, None, rstart, False)
    seen = {start}
    dq = deque([(start, "")])

    def ref_next(rs: str, c: str) -> str:
        return rstep(rs, c if c in ("'", '"') else X)

    while dq:
        (ist, held, rs, skip), w = dq.popleft()
        # end of input: decide the held character with no look-ahead
        if held is not None:
            _, _, split = istep(ist, held, None)
            want = held == "S" and rs == "out"
            if split != want:
                return w, len(seen)
        for c in alphabet:
            if held is None:
                if skip:
                    raise AnalysisError("internal: skip without held")
                nxt = (ist, c, rs, False)
            else:
                ist2, adv, split = istep(ist, held, c)
                want = held == "S" and rs == "out"
                if split != want:
                    # decision for `held` when followed by c
                    return w + c, len(seen)
                rs2 = ref_next(rs, held)
                if adv == 2:
                    # c is consumed without being examined: it must not be a separator outside a literal
                    if c == "S" and rs2 == "out":
                        return w + c, len(seen)
                    rs3 = ref_next(rs2, c)
                    nxt = (ist2, None, rs3, False)
                else:
                    nxt = (ist2, c, rs2, False)
            if nxt not in seen:
                seen.add(nxt)
                dq.append((nxt, w + c))
        if len(seen) > 5000:
            raise AnalysisError("quote_split state space unexpectedly large")
    return None, len(seen)
