"""Reference regular languages for the *heads* of the statements FORD's dispatch loop must
recognise (Fortran 2008, free source form, one logical line, character literals already masked
as "<digits>", leading/trailing blanks stripped).  All are compiled with IGNORECASE.

Conventions transcribed from the standard: a blank is mandatory between two adjacent
names/keywords (3.3.2.2) and optional around delimiters; where the standard lists an optional
blank between keyword pairs (END xxx, BLOCK DATA, DOUBLE PRECISION, ELSE IF, ...) both spellings
are included.  Expressions / argument lists are abstracted to parenthesis-free text.
"""

N = r"[a-z][a-z0-9_]*"
NLIST = rf"{N}(?:\s*,\s*{N})*"
DARG = rf"(?:{N}|\*)"
DARGS = rf"(?:\s*{DARG}(?:\s*,\s*{DARG})*)?\s*"
LIT = r'"[0-9]+"'                    # a masked character literal
KINDSEL = rf"\(\s*(?:kind\s*=\s*)?[a-z0-9_]+\s*\)"
CHARSEL = rf"\(\s*(?:len\s*=\s*)?(?:[a-z0-9_]+|\*|:)\s*(?:,\s*(?:kind\s*=\s*)?[a-z0-9_]+\s*)?\)"
# intrinsic / derived type specifications; TS_OPEN end in a name (blank needed before a following
# name), TS_CLOSED end in ')' or a digit string after '*'
TS_WORD = r"(?:integer|real|complex|logical|character|double\s*precision|double\s*complex)"
TS_PAREN = (rf"(?:(?:integer|real|complex|logical)\s*{KINDSEL}|character\s*{CHARSEL}"
            rf"|type\s*\(\s*{N}\s*\)|class\s*\(\s*(?:{N}|\*)\s*\)|procedure\s*\(\s*(?:{N})?\s*\))")
TS_STAR = r"(?:(?:integer|real|complex|logical)\s*\*\s*[0-9]+|character\s*\*\s*(?:[0-9]+|\(\s*\*\s*\)))"
BIND = rf"bind\s*\(\s*c\s*(?:,\s*name\s*=\s*{LIT}\s*)?\)"
PREFIX_KW = r"(?:pure|impure|elemental|recursive|non_recursive|module)"
# a prefix-spec followed by the blank (or not) that separates it from the next token
PFX = rf"(?:{PREFIX_KW}\s+|{TS_WORD}\s+|{TS_PAREN}\s*|{TS_STAR}\s+)"

DIMS0 = r"\s*(?:[a-z0-9_:*]+(?:\s*,\s*[a-z0-9_:*]+)*)?\s*"
ATTR = (r"(?:allocatable|asynchronous|contiguous|external|intrinsic|optional|parameter|pointer|private|protected|public"
        rf"|save|target|value|volatile|intent\s*\(\s*(?:in|out|in\s*out)\s*\)|dimension\s*\({DIMS0}\))")
DIMS = r"\s*(?:[a-z0-9_:*]+(?:\s*,\s*[a-z0-9_:*]+)*)?\s*"     # array-spec abstracted: no blanks inside a bound
ENT = rf"{N}(?:\s*\({DIMS}\))?(?:\s*=\s*[a-z0-9_.+-]+|\s*=>\s*{N}(?:\s*\(\s*\))?)?"
ENTLIST = rf"{ENT}(?:\s*,\s*{ENT})*"

ENDKIND = r"(?:module|submodule|subroutine|function|procedure|program|type|interface|enum|block\s*data|block|associate)"
OPSPEC = rf"(?:operator\s*\(\s*(?:[-+*/<>=]+|\.{N}\.)\s*\)|assignment\s*\(\s*=\s*\))"

CODE_UNITS = ["FortranModule", "FortranSubmodule", "FortranProgram", "FortranSubroutine", "FortranFunction",
              "FortranModuleProcedureImplementation"]
PROCS = ["FortranProgram", "FortranSubroutine", "FortranFunction", "FortranModuleProcedureImplementation"]

# kind -> (reference regex, regex constant(s) of the arm that must take it, container classes in
#          which the statement is legal, state: 'spec' | 'contains' (after CONTAINS) | 'any')
KINDS = {
    "module": (rf"module\s+(?!(?:procedure|function|subroutine)\s){N}", "MODULE_RE", ["FortranSourceFile"], "any"),
    "submodule": (rf"submodule\s*\(\s*{N}\s*(?::\s*{N}\s*)?\)\s*{N}", "SUBMODULE_RE", ["FortranSourceFile"], "any"),
    "program": (rf"program\s+{N}", "PROGRAM_RE", ["FortranSourceFile"], "any"),
    "block data": (rf"block\s*data(?:\s+{N})?", "BLOCK_DATA_RE", ["FortranSourceFile"], "any"),
    "subroutine": (rf"(?:{PREFIX_KW}\s+)*subroutine\s+{N}(?:\s*\({DARGS}\))?(?:\s*{BIND})?",
                   "SUBROUTINE_RE", ["FortranSourceFile", "FortranModule", "FortranSubroutine", "FortranInterface"], "contains"),
    "function": (rf"{PFX}*function\s+{N}\s*\({DARGS}\)(?:\s*(?:result\s*\(\s*{N}\s*\)|{BIND}))*",
                 "FUNCTION_RE", ["FortranSourceFile", "FortranModule", "FortranFunction", "FortranInterface"], "contains"),
    "derived type": (rf"type(?:(?:\s*,\s*(?:public|private|abstract|{BIND}|extends\s*\(\s*{N}\s*\)))*\s*::\s*|\s+(?!is\s*\())"
                     rf"(?!is\s*\(){N}(?:\s*\(\s*{NLIST}\s*\))?", "TYPE_RE", ["FortranModule", "FortranSubroutine", "FortranBlockData"], "spec"),
    "interface": (rf"(?:interface(?:\s+(?:{N}|{OPSPEC}))?|abstract\s+interface)", "INTERFACE_RE",
                  ["FortranModule", "FortranSubroutine"], "spec"),
    "enum": (r"enum\s*,\s*bind\s*\(\s*c\s*\)", "ENUM_RE", ["FortranModule", "FortranSubroutine"], "spec"),
    "enumerator": (rf"enumerator(?:\s*::\s*|\s+){N}(?:\s*=\s*[0-9]+)?(?:\s*,\s*{N}(?:\s*=\s*[0-9]+)?)*",
                   "VARIABLE_RE", ["FortranEnum"], "spec"),
    "end": (rf"end(?:\s*{ENDKIND}(?:\s+(?:{N}|{OPSPEC}))?)?", "END_RE",
            ["FortranModule", "FortranSubroutine", "FortranType", "FortranInterface", "FortranEnum", "FortranBlockData"], "any"),
    "access statement": (rf"(?:public|private|protected)(?:\s*::\s*|\s+)(?:{N}|{OPSPEC})(?:\s*,\s*(?:{N}|{OPSPEC}))*",
                         "ATTRIB_RE", ["FortranModule"], "spec"),
    "attribute statement": (rf"(?:allocatable|asynchronous|external|optional|pointer|save|target|value|volatile|"
                            rf"intent\s*\(\s*(?:in|out|in\s*out)\s*\)|dimension)(?:\s*::\s*|\s+){ENTLIST}",
                            "ATTRIB_RE", ["FortranModule", "FortranSubroutine"], "spec"),
    "parameter statement": (rf"parameter\s*\(\s*{N}\s*=\s*[a-z0-9_.+-]+(?:\s*,\s*{N}\s*=\s*[a-z0-9_.+-]+)*\s*\)",
                            "ATTRIB_RE", ["FortranModule", "FortranSubroutine"], "spec"),
    "bind statement": (rf"{BIND}(?:\s*::\s*|\s*){N}(?:\s*,\s*{N})*", "ATTRIB_RE", ["FortranModule"], "spec"),
    "use": (rf"use(?:\s+|\s*::\s*|\s*,\s*(?:non_)?intrinsic\s*::\s*){N}(?:\s*,\s*(?:only\s*:\s*)?(?:{N}(?:\s*=>\s*{N})?)?"
            rf"(?:\s*,\s*{N}(?:\s*=>\s*{N})?)*)?", "USE_RE", ["FortranModule", "FortranSubroutine", "FortranBlockData"], "spec"),
    "common": (rf"common(?:\s*/\s*(?:{N})?\s*/\s*|\s+){ENTLIST}", "COMMON_RE", ["FortranModule", "FortranSubroutine", "FortranBlockData"], "spec"),
    "namelist": (rf"namelist\s*/\s*{N}\s*/\s*{NLIST}", "NAMELIST_RE", ["FortranModule", "FortranSubroutine"], "spec"),
    "final": (rf"final(?:\s*::\s*|\s+){NLIST}", "FINAL_RE", ["FortranType"], "contains"),
    "type-bound procedure": (rf"procedure(?:\s*\(\s*{N}\s*\))?(?:\s*,\s*(?:public|private|deferred|non_overridable|nopass|pass(?:\s*\(\s*{N}\s*\))?))*"
                             rf"(?:\s*::\s*|\s+){N}(?:\s*=>\s*{N})?(?:\s*,\s*{N}(?:\s*=>\s*{N})?)*",
                             "BOUNDPROC_RE", ["FortranType"], "contains"),
    "generic binding": (rf"generic(?:\s*,\s*(?:public|private))?\s*::\s*(?:{N}|{OPSPEC})\s*=>\s*{NLIST}",
                        "BOUNDPROC_RE", ["FortranType"], "contains"),
    "module procedure (interface)": (rf"(?:module\s+)?procedure(?:\s*::\s*|\s+){NLIST}", "MODPROC_RE", ["FortranInterface"], "any"),
    "module procedure (submodule)": (rf"module\s+procedure\s+{N}", "MODPROC_RE", ["FortranSubmodule"], "contains"),
    "type declaration (::)": (rf"(?:{TS_WORD}|{TS_PAREN}|{TS_STAR})(?:\s*,\s*{ATTR})*\s*::\s*{ENTLIST}",
                              "VARIABLE_RE", ["FortranModule", "FortranSubroutine", "FortranType", "FortranBlockData"], "spec"),
    "type declaration (no ::)": (rf"(?:{TS_WORD}\s+|{TS_PAREN}\s*|{TS_STAR}\s+){ENTLIST}",
                                 "VARIABLE_RE", ["FortranModule", "FortranSubroutine", "FortranType"], "spec"),
}
