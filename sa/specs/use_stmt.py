"""Reference language of the USE statement (F2008 R1109-R1115), as the parser sees it: one
logical line, lower/upper case arbitrary, character literals cannot occur."""
NAME = r"[a-z][a-z0-9_]*"
OPNAME = r"(?:operator\s*\(\s*[^()\s]+\s*\)|assignment\s*\(\s*=\s*\))"
ITEM = rf"(?:{NAME}\s*=>\s*{NAME}|{OPNAME}\s*=>\s*{OPNAME}|{NAME}|{OPNAME})"
LIST = rf"{ITEM}(?:\s*,\s*{ITEM})*"
HEAD_PLAIN = rf"use\s+{NAME}"
HEAD_COLON = rf"use\s*::\s*{NAME}"
HEAD_NATURE = rf"use\s*,\s*(?:non_)?intrinsic\s*::\s*{NAME}"
HEADS = {"use m": HEAD_PLAIN, "use :: m": HEAD_COLON, "use, intrinsic :: m": HEAD_NATURE}
RENAME_LIST = rf"(?:{NAME}\s*=>\s*{NAME}|{OPNAME}\s*=>\s*{OPNAME})(?:\s*,\s*(?:{NAME}\s*=>\s*{NAME}|{OPNAME}\s*=>\s*{OPNAME}))*"
TAILS = {
    "": r"",
    ", only: list": rf"\s*,\s*only\s*:\s*{LIST}",
    ", only:": r"\s*,\s*only\s*:\s*",
    ", rename-list": rf"\s*,\s*{RENAME_LIST}",
}
