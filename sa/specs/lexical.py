"""Reference regular languages for Fortran's free-form lexical rules (F2008 3.3.2, 4.4.3.3),
written as ordinary regular expressions in the subset rxlang supports."""

# text that contains no comment-introducing '!' and in which every character literal is closed:
# outside literals any character except the two quote characters and '!'; a literal is a quote,
# any characters except that quote, and the same quote (a doubled quote is two adjacent literals)
CODE_PREFIX = r"""(?:[^"'!]|'[^']*'|"[^"]*")*"""

# char-literal-constant (R423 without kind prefix): delimiter, rep-chars where the delimiter itself
# is represented by two consecutive delimiters, delimiter
CHAR_LITERAL = r"""\"(?:[^\"]|\"\")*\"|'(?:[^']|'')*'"""
