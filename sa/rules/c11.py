"""C11 — [[...]] references link to the entity the documented rules select (structural clauses)."""
from __future__ import annotations

import ast
import importlib.util
import re
from pathlib import Path
from typing import Dict, List, Optional, Set, Tuple

from ..core import AnalysisError, RuleSpec
from ..pymodel import call_name
from . import c09

EXPLANATION = (
    "R1: the kinds documented in docs/user_guide/writing_documentation.rst (parsed from the rst list "
    "items) are the keys of LINK_TYPES / SUBLINK_TYPES; every LINK_TYPES value is the project "
    "collection from which pages of that kind are created (entity_list_page_map), every SUBLINK_TYPES "
    "value is an attribute of at least one entity class, and unknown kinds raise ValueError in find / "
    "find_child. R2: lookup order in convert_link - the documented entity's own contents, then its "
    "parent's, each attempt individually protected against 'cannot have that kind', then the whole "
    "project; the child part is resolved on the item found; not-found yields an <a> without href plus a "
    "warning. R3: the inline pattern is registered with a priority strictly below the code-span "
    "pattern and above the reference/link patterns of the installed Markdown (read from its source, "
    "not imported). R4: every md.convert call site passes a location (context= or path=). R5: the link "
    "regex accepts exactly the documented reference spellings (E2). Which of several equally named "
    "candidates wins is documented as undefined and is not decided."
)
ASSUMPTIONS = ["the rst bullet lists under 'The available options are:' and 'but has different options:' enumerate the documented kinds"]


def documented_kinds(ctx) -> Tuple[List[str], List[str]]:
    p = ctx.root / "docs" / "user_guide" / "writing_documentation.rst"
    if not p.exists():
        raise AnalysisError(f"{p} missing")
    txt = p.read_text(encoding="utf-8")
    m1 = re.search(r"The available options are:(.*?)The majority of these", txt, re.S)
    m2 = re.search(r"but has different options:(.*?)None of these options", txt, re.S)
    if not m1 or not m2:
        raise AnalysisError("writing_documentation.rst: kind lists not found")
    q = r"[\"“”]([a-z]+)[\"“”]"
    return re.findall(q, m1.group(1)), re.findall(q, m2.group(1))


def dict_const(py, mod: str, name: str) -> Dict[str, str]:
    for st in py.modules[mod].body:
        if isinstance(st, ast.Assign) and any(isinstance(t, ast.Name) and t.id == name for t in st.targets) \
                and isinstance(st.value, ast.Dict):
            return {k.value: v.value for k, v in zip(st.value.keys, st.value.values)
                    if isinstance(k, ast.Constant) and isinstance(v, ast.Constant)}
    raise AnalysisError(f"{mod}.{name} not found")


def r1_kinds(ctx, rep):
    py = ctx.py
    kinds1, kinds2 = documented_kinds(ctx)
    lt = dict_const(py, "fortran_project", "LINK_TYPES")
    st = dict_const(py, "sourceform", "SUBLINK_TYPES")
    for k in sorted(set(kinds1)):
        rep.ob(f"documented kind {k!r} implemented", k in lt, f"LINK_TYPES[{k!r}] = {lt.get(k)!r}" if k in lt else
               f"documented kind {k!r} is not a key of LINK_TYPES", "ford/fortran_project.py")
    for k in sorted(k for k in lt if not k.startswith("ext")):
        rep.ob(f"implemented kind {k!r} documented", k in kinds1, "" if k in kinds1 else
               f"LINK_TYPES key {k!r} is not documented", "docs/user_guide/writing_documentation.rst", nontrivial=False)
    for k in sorted(k for k in lt if k.startswith("ext")):
        base = k[3:]
        rep.ob(f"ext kind {k!r} has a documented base kind", base in lt and base in kinds1, "", "ford/fortran_project.py", nontrivial=False)
    for k in sorted(set(kinds2)):
        rep.ob(f"documented item kind {k!r} implemented", k in st, f"SUBLINK_TYPES[{k!r}] = {st.get(k)!r}" if k in st else
               f"documented item kind {k!r} is not a key of SUBLINK_TYPES", "ford/sourceform.py")
    for k in sorted(st):
        rep.ob(f"implemented item kind {k!r} documented", k in kinds2, "", "docs/user_guide/writing_documentation.rst", nontrivial=False)
    # values: collection from which pages of that kind are made
    epm = c09.entity_page_map(py)
    subl = c09.property_sublists(py, "Project")
    plists = set(__import__("sa.tables", fromlist=["x"]).project_lists(py))
    for k, v in sorted(lt.items()):
        if k.startswith("ext"):
            ok = v in plists
            rep.ob(f"LINK_TYPES[{k!r}] = {v!r} is a project collection", ok, "" if ok else
                   f"Project has no list attribute {v!r}: [[x({k})]] fails only for that kind", "ford/fortran_project.py")
            continue
        ok = v in epm
        rep.ob(f"LINK_TYPES[{k!r}] = {v!r} is the collection pages of that kind are made from", ok,
               f"pages for project.{v} are created in Documentation.__init__" if ok else
               f"[[x({k})]] searches project.{v}, but pages of that kind are created from "
               f"{sorted(p for p in epm)}: entities that have a page (e.g. non-Fortran source files in allfiles) "
               f"cannot be linked", "ford/fortran_project.py")
    # sub-link values are attributes of some entity class
    allattrs: Set[str] = set()
    for c in py.classes:
        if c.startswith("Fortran"):
            allattrs |= c09.all_self_attrs(py, c)
    for k, v in sorted(st.items()):
        rep.ob(f"SUBLINK_TYPES[{k!r}] = {v!r} is an entity attribute", v in allattrs, "", "ford/sourceform.py")
    pf = py.func("Project.find")
    ok = "except KeyError" in ast.unparse(pf) and "raise ValueError(f'Unknown class of entity" in ast.unparse(pf).replace('"', "'")
    rep.ob("Project.find raises ValueError for an unknown kind", ok, "", py.nloc(pf))
    fc = py.func("FortranBase.find_child")
    t = ast.unparse(fc).replace('"', "'")
    ok = t.count("raise ValueError") == 2 and "SUBLINK_TYPES[entity.lower()]" in t
    rep.ob("find_child raises ValueError for unknown / impossible kinds", ok, "", py.nloc(fc))
    ok = "entity.lower()" in ast.unparse(pf) and "name.lower() == item.name.lower()" in ast.unparse(py.func("sourceform._find_in_list"))
    rep.ob("kind qualifiers and names are compared case-insensitively", ok, "", py.nloc(pf))


def r2_lookup_order(ctx, rep):
    py = ctx.py
    fn = py.func("FordLinkProcessor.convert_link")
    t = ast.unparse(fn)
    # protected attempts: each suppress/try block contains exactly one find_child call
    blocks = [n for n in ast.walk(fn) if isinstance(n, ast.With) and "suppress(ValueError)" in ast.unparse(n.items[0])]
    blocks += [n for n in ast.walk(fn) if isinstance(n, ast.Try) and any("ValueError" in ast.unparse(h.type or ast.Name(id="")) for h in n.handlers)
               and not any(isinstance(x, ast.Raise) for h in n.handlers for x in ast.walk(h))]
    if not blocks:
        raise AnalysisError("convert_link: no protected find_child attempt found")
    for b in blocks:
        calls = [c for c in py.walk_calls(ast.Module(body=b.body, type_ignores=[])) if call_name(c).endswith(".find_child")]
        ok = len(calls) <= 1
        rep.ob(f"protected lookup block at line {b.lineno - fn.lineno}: one attempt per block", ok,
               "a ValueError ('cannot have that kind') only abandons that one attempt" if ok else
               f"{len(calls)} find_child attempts share one suppress(ValueError) block: when the documented entity "
               f"cannot contain the requested kind, the parent scope is skipped and the reference is resolved "
               f"project-wide (or not at all)", py.nloc(b))
    # order: context, then parent (guarded by item is None), then project (guarded by item is None)
    ctx_i = t.find("item = find_child(context)")
    par_i = t.find("item = find_child(parent)")
    prj_i = t.find("item = self.project.find(**m.groupdict())")
    ok = 0 <= ctx_i < par_i < prj_i
    rep.ob("lookup order: own contents, parent's contents, whole project", ok, "", py.nloc(fn))
    ok = "if item is None and (parent := context.parent) is not None" in t
    rep.ob("parent is consulted only if the entity itself has no such child", ok, "", py.nloc(fn))
    ok = re.search(r"if item is None:\s+item = self\.project\.find\(\*\*m\.groupdict\(\)\)", t) is not None
    rep.ob("project-wide search only when the scoped lookups found nothing", ok, "", py.nloc(fn))
    ok = "item = item.find_child(m['child_name'], m['child_entity'])" in t
    rep.ob("child part is resolved on the item found, honouring its kind", ok, "", py.nloc(fn))
    # not found: no href, warn
    nf = [n for n in ast.walk(fn) if isinstance(n, ast.If) and ast.unparse(n.test) == "item is None" and
          any(isinstance(x, ast.Return) for x in n.body)]
    ok = bool(nf) and "warn(" in ast.unparse(nf[0]) and "link.text = name" in ast.unparse(nf[0]) and "href" not in ast.unparse(nf[0])
    rep.ob("unknown target: plain text (no href) plus a warning", ok, "", py.nloc(nf[0]) if nf else py.nloc(fn))
    ok = "rel_url = relpath(full_url, self.md.current_path)" in t and "full_url = self.md.base_url / item_url" in t
    rep.ob("link is made relative to the page being converted", ok, "", py.nloc(fn))
    ok = "item_url.startswith('http')" in t
    rep.ob("external URLs are kept absolute", ok, "", py.nloc(fn), nontrivial=False)


def r3_priority(ctx, rep):
    py = ctx.py
    ext = py.func("FordLinkExtension.extendMarkdown")
    reg = [c for c in py.walk_calls(ext) if call_name(c) == "md.inlinePatterns.register"]
    if not reg or len(reg[0].args) < 3 or not isinstance(reg[0].args[2], ast.Constant):
        raise AnalysisError("FordLinkExtension: inline pattern registration not found")
    prio = reg[0].args[2].value
    spec = importlib.util.find_spec("markdown")
    if spec is None or not spec.submodule_search_locations:
        raise AnalysisError("installed markdown package not found")
    src = Path(list(spec.submodule_search_locations)[0]) / "inlinepatterns.py"
    tree = ast.parse(src.read_text(encoding="utf-8"))
    prios: Dict[str, float] = {}
    for c in ast.walk(tree):
        if isinstance(c, ast.Call) and call_name(c) == "inlinePatterns.register" and len(c.args) >= 3 and \
                isinstance(c.args[1], ast.Constant) and isinstance(c.args[2], ast.Constant):
            prios[c.args[1].value] = c.args[2].value
    for k in ("backtick", "reference", "link"):
        if k not in prios:
            raise AnalysisError(f"markdown inline pattern {k!r} not found in {src}")
    ok = prios["backtick"] > prio
    rep.ob("ford_links priority below code spans", ok, f"{prio} < backtick {prios['backtick']}: [[x]] inside `code` stays verbatim"
           if ok else f"ford_links priority {prio} >= backtick {prios['backtick']}: references inside code spans are converted", py.nloc(reg[0]))
    ok = prio > prios["reference"] and prio > prios["link"]
    rep.ob("ford_links priority above reference/link patterns", ok,
           f"{prio} > reference {prios['reference']}, link {prios['link']}" if ok else
           f"Markdown's own [..][..] handling runs first and consumes [[x]]", py.nloc(reg[0]))


def r4_conversion_location(ctx, rep):
    py = ctx.py
    n = 0
    for mod, tree in py.modules.items():
        if mod == "_markdown":
            continue
        for c in ast.walk(tree):
            if isinstance(c, ast.Call) and isinstance(c.func, ast.Attribute) and c.func.attr == "convert" and \
                    re.search(r"\bmd\b", ast.unparse(c.func.value)):
                n += 1
                kws = {k.arg for k in c.keywords}
                ok = bool(kws & {"context", "path"}) or len(c.args) >= 2
                fn = py.enclosing_function(c)
                rep.ob(f"{py.qualname(fn) if fn else mod}: md.convert({ast.unparse(c.args[0])[:40]})", ok,
                       f"location given ({sorted(kws)})" if ok else
                       f"`{ast.unparse(c)[:70]}` converts text without context= or path=: a [[name]] reference in it is made "
                       f"relative to the process's working directory instead of the page it is shown on", py.nloc(c))
    if n < 5:
        raise AnalysisError(f"only {n} md.convert call sites found")
    cv = py.func("MetaMarkdown.convert")
    t = ast.unparse(cv)
    ok = "self.current_path = self.base_url / Path(url).parent.parent / 'non-existent dir'" in t and "self.current_path = path" in t
    rep.ob("convert derives the virtual sibling directory from the entity URL", ok, "", py.nloc(cv))
    rl = py.func("RelativeLinksTreeProcessor.run")
    ok = re.search(r"if self\.md\.current_path is None:\s+return", ast.unparse(rl)) is not None
    rep.ob("relative-link post-processing is skipped without a location", ok, "", py.nloc(rl))


def r5_link_syntax(ctx, rep):
    py, rx = ctx.py, ctx.rx
    pat, flags, node, _ = ctx.regexes["FordLinkProcessor.LINK_RE"]
    L = rx.full(pat, flags & ~re.UNICODE)
    W = r"[A-Za-z0-9_é]+"
    forms = {
        "[[name]]": rf"\[\[{W}\]\]",
        "[[file.ext]]": rf"\[\[{W}\.{W}\]\]",
        "[[name(kind)]]": rf"\[\[{W}\({W}\)\]\]",
        "[[name:item]]": rf"\[\[{W}:{W}\]\]",
        "[[name(kind):item]]": rf"\[\[{W}\({W}\):{W}\]\]",
        "[[name:item(kind)]]": rf"\[\[{W}:{W}\({W}\)\]\]",
        "[[name(kind):item(kind)]]": rf"\[\[{W}\({W}\):{W}\({W}\)\]\]",
    }
    for label, ref in forms.items():
        w = rx.subset_witness(rx.full(ref, 0), L)
        rep.ob(f"documented spelling {label}", w is None, "matched by LINK_RE for all names" if w is None else
               f"`{w}` is a documented reference spelling that LINK_RE does not match", py.nloc(node), witness=w)
    w = rx.disjoint_witness(rx.full(rf"\[\[{W}:\]\]", 0), L)
    rep.ob("colon without item is not a reference", w is None, "", py.nloc(node), witness=w)


def r6_item_anchors(ctx, rep):
    c09.r8_anchor_targets_exist(ctx, rep)


def attr_shapes(py, attr: str) -> Dict[str, List[ast.AST]]:
    """shape ('list' | 'scalar' | 'other') of every value assigned to self.<attr> in the entity classes"""
    out: Dict[str, List[ast.AST]] = {"list": [], "scalar": [], "other": []}

    def shape(value: Optional[ast.AST], ann: Optional[ast.AST]) -> str:
        if ann is not None:
            a = ast.unparse(ann)
            if re.match(r"(typing\.)?(List|list|Sequence|Tuple|tuple)\b", a):
                return "list"
            if re.match(r"(typing\.)?Optional\[(?!List|list)", a) or re.match(r"Fortran\w+$", a):
                return "scalar"
        if isinstance(value, (ast.List, ast.ListComp, ast.Tuple)):
            return "list"
        if isinstance(value, ast.BinOp) and isinstance(value.op, ast.Add):
            return "list"
        if isinstance(value, ast.Call) and call_name(value).split(".")[-1] in ("list", "sorted", "filter_display", "filter_public"):
            return "list"
        if isinstance(value, ast.Constant) and value.value is None:
            return "scalar"
        if isinstance(value, ast.Subscript):          # a single element taken out of a table
            return "scalar"
        return "other"

    for cname, ci in py.classes.items():
        if not cname.startswith("Fortran") and cname != "ExternalBase":
            continue
        for n in ast.walk(ci.node):
            if isinstance(n, ast.AnnAssign) and isinstance(n.target, ast.Attribute) and n.target.attr == attr \
                    and isinstance(n.target.value, ast.Name) and n.target.value.id == "self":
                out[shape(n.value, n.annotation)].append(n)
            elif isinstance(n, ast.Assign):
                for t in n.targets:
                    if isinstance(t, ast.Attribute) and t.attr == attr and isinstance(t.value, ast.Name) and t.value.id == "self":
                        out[shape(n.value, None)].append(n)
    return out


def r7_item_collections(ctx, rep):
    """find_child hands the attribute named by SUBLINK_TYPES to _find_in_list, which iterates it.  Every such
    attribute must be a sequence at every assignment - or find_child must wrap the single-valued ones in a list
    display before iterating (`[[type:name(constructor)]]` raised TypeError: list(<FortranFunction>))."""
    py = ctx.py
    st = dict_const(py, "sourceform", "SUBLINK_TYPES")
    fc = py.func("FortranBase.find_child")
    # the variable handed to _find_in_list
    calls = [c for c in py.walk_calls(fc) if call_name(c).endswith("_find_in_list")]
    if len(calls) != 1 or not isinstance(calls[0].args[0], ast.Name):
        raise AnalysisError("find_child: the _find_in_list(collection, name) call was not found")
    var = calls[0].args[0].id
    # is there a guard `isinstance(var, (list, ...))` / `var is None` whose branch rebinds var to a list display?
    wraps = False
    for n in ast.walk(fc):
        if isinstance(n, ast.If) and "isinstance(" + var in ast.unparse(n.test):
            for b in ast.walk(n):
                if isinstance(b, ast.Assign) and any(isinstance(t, ast.Name) and t.id == var for t in b.targets):
                    if any(isinstance(x, ast.List) and any(isinstance(e, ast.Name) and e.id == var for e in x.elts)
                           for x in ast.walk(b.value)):
                        wraps = True
    raw_iter = [n for n in ast.walk(fc) if isinstance(n, ast.Call) and call_name(n) in ("list", "tuple", "iter")
                and n.args and isinstance(n.args[0], ast.Call) and call_name(n.args[0]) == "getattr"]
    for kind, attr in sorted(st.items()):
        sh = attr_shapes(py, attr)
        if not sh["list"] and not sh["scalar"]:
            raise AnalysisError(f"no classified assignment to self.{attr} in the entity classes")
        if not sh["scalar"]:
            rep.ob(f"item kind {kind!r}: self.{attr} is a sequence at every assignment", True,
                   f"{len(sh['list'])} sequence-valued assignment(s)", py.nloc(sh["list"][0]))
            continue
        ok = wraps and not raw_iter
        rep.ob(f"item kind {kind!r}: single-valued self.{attr} is wrapped before it is searched", ok,
               f"find_child rebinds `{var}` to a list display under an isinstance test" if ok else
               f"self.{attr} holds a single entity (or None) ({py.nloc(sh['scalar'][0])}) but find_child iterates it "
               f"directly: [[owner:name({kind})]] raises TypeError instead of linking", py.nloc(fc))


def isinstance_tuples(fn: ast.AST, subject: str) -> List[List[str]]:
    out = []
    for n in ast.walk(fn):
        if isinstance(n, ast.Call) and isinstance(n.func, ast.Name) and n.func.id == "isinstance" and len(n.args) == 2 \
                and ast.unparse(n.args[0]) == subject:
            t = n.args[1]
            out.append([e.id for e in (t.elts if isinstance(t, ast.Tuple) else [t]) if isinstance(e, ast.Name)])
    return out


def r8_found_items_have_urls(ctx, rep):
    """convert_link turns the item found into a link via item.get_url() and raises when that is None.  So every class
    of entity that find_child can hand out for a documented item kind must have a URL wherever it can be declared:
    its own page (get_dir), an anchor on its owner's page (the isinstance tuple in get_url), or a get_url override."""
    py = ctx.py
    from . import c05
    st = dict_const(py, "sourceform", "SUBLINK_TYPES")
    gd = py.func("FortranBase.get_dir")
    gu = py.func("FortranBase.get_url")
    selfs = isinstance_tuples(gd, "self")
    pars = isinstance_tuples(gd, "self.parent")
    if len(selfs) != 2 or len(pars) != 1:
        raise AnalysisError("FortranBase.get_dir: expected isinstance(self, A) or (isinstance(self, B) and isinstance(self.parent, P))")
    uncond, cond = (selfs[0], selfs[1]) if "FortranSourceFile" in selfs[0] else (selfs[1], selfs[0])
    parents_ok = pars[0]
    anchored = [c for t in isinstance_tuples(gu, "self") for c in t]
    if len(anchored) < 4:
        raise AnalysisError("FortranBase.get_url: anchored-entity tuple not found")
    concrete = [c for c in py.classes if c.startswith("Fortran") and c not in ("FortranBase", "FortranContainer", "FortranCodeUnit", "FortranSpoof")]
    sub = lambda c, names: any(py.is_subclass(c, n) for n in names if n in py.classes)
    for kind, attr in sorted(st.items()):
        elems = ["FortranInterface", "FortranFunction"] if attr == "constructor" else [c05.LIST_ELEM.get(attr)]
        if elems[0] is None:
            raise AnalysisError(f"no element class known for collection {attr!r}")
        owners = [c for c in concrete if attr in c09.all_self_attrs(py, c)]
        if attr == "constructor":
            owners = ["FortranModule"]      # the constructor is looked up in the all_procs of the type's scope
        for e in elems:
            r = py.resolve_method(e, "get_url")
            for o in owners:
                if r is not None and r[0] != "FortranBase":
                    how = f"{r[0]}.get_url override"
                elif sub(e, uncond):
                    how = "own page"
                elif sub(e, cond) and sub(o, parents_ok):
                    how = "own page (declared in a program unit)"
                elif sub(e, anchored):
                    how = "anchor on the owner's page"
                else:
                    how = None
                rep.ob(f"item kind {kind!r}: a {e} found in {o}.{attr} has a URL", how is not None,
                       how or f"get_url() of a {e} declared in a {o} is None (no page: get_dir needs a parent in {parents_ok}; "
                              f"not in the anchor tuple of get_url): [[x:name({kind})]] finds it and convert_link raises "
                              f"'Found item ... but no url', aborting the run", py.nloc(gu), nontrivial=how not in ("own page",))


RULES = [
    RuleSpec("C11.R6", r6_item_anchors, "[[owner:item]] targets: item anchors exist on the owner's page (shared with C09.R8)", floor=30),
    RuleSpec("C11.R1", r1_kinds, "documented kinds are the implemented kinds", floor=50),
    RuleSpec("C11.R2", r2_lookup_order, "lookup order and protected attempts", floor=8),
    RuleSpec("C11.R3", r3_priority, "code spans win", floor=2),
    RuleSpec("C11.R4", r4_conversion_location, "every conversion has a location", floor=7),
    RuleSpec("C11.R5", r5_link_syntax, "reference syntax", floor=8),
    RuleSpec("C11.R8", r8_found_items_have_urls, "every entity find_child can hand out has a URL", floor=30),
    RuleSpec("C11.R7", r7_item_collections, "item collections searched by find_child are sequences", floor=8),
]
