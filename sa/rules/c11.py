"""C11 — [[...]] references link to the entity the documented rules select (structural clauses)."""
from __future__ import annotations

import ast
import importlib.util
import re
from pathlib import Path
from typing import Dict, List, Optional, Set, Tuple

from ..core import AnalysisError, RuleSpec
from . import common
from ..pymodel import call_name
from .. import astq
from . import c09

EXPLANATION = (
    "R1: the kinds documented in docs/user_guide/writing_documentation.rst (parsed from the rst list "
    "items) are the keys of LINK_TYPES / SUBLINK_TYPES; every LINK_TYPES value is the project "
    "collection from which pages of that kind are created (entity_list_page_map), every SUBLINK_TYPES "
    "value is an attribute of at least one entity class, and unknown kinds raise ValueError in find / "
    "find_child. R2: lookup order in convert_link - the documented entity's own contents, then its "
    "parent's, each attempt individually protected against 'cannot have that kind', then the whole "
    "project; the child part is resolved on the item found; not-found yields an <a> without href plus a "
    "warning. R3: the inline pattern is registered with a priority strictly below the code-span "
    "pattern and above the reference/link patterns of the installed Markdown (read from its source, "
    "not imported). R4: every md.convert call site passes a location (context= or path=). R5: the link "
    "regex accepts exactly the documented reference spellings (E2). Which of several equally named "
    "candidates wins is documented as undefined and is not decided."
    " R6 (shared with C09.R8): item anchors exist on the owner's page. R7: every collection find_child searches is a sequence at every assignment, or is wrapped before it is searched. R8: every class of entity that find_child can hand out has a URL wherever it can be declared (own page, anchor on the owner's page, or a get_url override). R2 is decided on the inlined event trace of convert_link; R4 also requires the converter's state (current_context, current_path) to be reset on every call."
    " Added after waves 6/7 - an unresolved reference (an <a> without href) is harmless in every filter it passes; a dummy procedure is re-parented to its host."
)
ASSUMPTIONS = ["the rst bullet lists under 'The available options are:' and 'but has different options:' enumerate the documented kinds"]


def documented_kinds(ctx) -> Tuple[List[str], List[str]]:
    p = ctx.root / "docs" / "user_guide" / "writing_documentation.rst"
    if not p.exists():
        raise AnalysisError(f"{p} missing")
    txt = p.read_text(encoding="utf-8")
    m1 = re.search(r"The available options are:(.*?)The majority of these", txt, re.S)
    m2 = re.search(r"but has different options:(.*?)None of these options", txt, re.S)
    if not m1 or not m2:
        raise AnalysisError("writing_documentation.rst: kind lists not found")
    q = r"[\"“”]([a-z]+)[\"“”]"
    return re.findall(q, m1.group(1)), re.findall(q, m2.group(1))


def dict_const(py, mod: str, name: str) -> Dict[str, str]:
    v = py.const_value(mod, name)
    if not isinstance(v, dict) or not v:
        raise AnalysisError(f"{mod}.{name}: not a dictionary of constants (anchor vanished or built at run time)")
    return {k: x for k, x in v.items() if isinstance(k, str) and isinstance(x, str)}


def r1_kinds(ctx, rep):
    py = ctx.py
    kinds1, kinds2 = documented_kinds(ctx)
    lt = dict_const(py, "fortran_project", "LINK_TYPES")
    st = dict_const(py, "sourceform", "SUBLINK_TYPES")
    for k in sorted(set(kinds1)):
        rep.ob(f"documented kind {k!r} implemented", k in lt, f"LINK_TYPES[{k!r}] = {lt.get(k)!r}" if k in lt else
               f"documented kind {k!r} is not a key of LINK_TYPES", "ford/fortran_project.py")
    for k in sorted(k for k in lt if not k.startswith("ext")):
        rep.ob(f"implemented kind {k!r} documented", k in kinds1, "" if k in kinds1 else
               f"LINK_TYPES key {k!r} is not documented", "docs/user_guide/writing_documentation.rst", nontrivial=False)
    for k in sorted(k for k in lt if k.startswith("ext")):
        base = k[3:]
        rep.ob(f"ext kind {k!r} has a documented base kind", base in lt and base in kinds1, "", "ford/fortran_project.py", nontrivial=False)
    for k in sorted(set(kinds2)):
        rep.ob(f"documented item kind {k!r} implemented", k in st, f"SUBLINK_TYPES[{k!r}] = {st.get(k)!r}" if k in st else
               f"documented item kind {k!r} is not a key of SUBLINK_TYPES", "ford/sourceform.py")
    for k in sorted(st):
        rep.ob(f"implemented item kind {k!r} documented", k in kinds2, "", "docs/user_guide/writing_documentation.rst", nontrivial=False)
    # values: collection from which pages of that kind are made
    epm = c09.entity_page_map(py)
    subl = c09.property_sublists(py, "Project")
    plists = set(__import__("sa.tables", fromlist=["x"]).project_lists(py))
    for k, v in sorted(lt.items()):
        if k.startswith("ext"):
            ok = v in plists
            rep.ob(f"LINK_TYPES[{k!r}] = {v!r} is a project collection", ok, "" if ok else
                   f"Project has no list attribute {v!r}: [[x({k})]] fails only for that kind", "ford/fortran_project.py")
            continue
        ok = v in epm
        rep.ob(f"LINK_TYPES[{k!r}] = {v!r} is the collection pages of that kind are made from", ok,
               f"pages for project.{v} are created in Documentation.__init__" if ok else
               f"[[x({k})]] searches project.{v}, but pages of that kind are created from "
               f"{sorted(p for p in epm)}: entities that have a page (e.g. non-Fortran source files in allfiles) "
               f"cannot be linked", "ford/fortran_project.py")
    # sub-link values are attributes of some entity class
    allattrs: Set[str] = set()
    for c in py.classes:
        if c.startswith("Fortran"):
            allattrs |= c09.all_self_attrs(py, c)
    for k, v in sorted(st.items()):
        rep.ob(f"SUBLINK_TYPES[{k!r}] = {v!r} is an entity attribute", v in allattrs, "", "ford/sourceform.py")
    pf = py.ifunc("Project.find")
    fc = py.ifunc("FortranBase.find_child")      # canonical form: the kind -> collection step may live in a helper
    fil = py.func("sourceform._find_in_list")

    def unknown_kind_raises(fn, table: str) -> Tuple[bool, bool]:
        """(an unknown key of `table` leads to `raise ValueError`, the key is lower-cased before the lookup)"""
        par = astq.parents_of(fn)
        raises, lowered = False, False
        for n in ast.walk(fn):
            if isinstance(n, ast.Subscript) and ast.unparse(n.value) == table and isinstance(n.ctx, ast.Load):
                lowered |= any(isinstance(c, ast.Call) and isinstance(c.func, ast.Attribute) and c.func.attr in ("lower", "casefold")
                               for c in ast.walk(n.slice))
                t = astq.enclosing(n, par, ast.Try)
                if t is not None:
                    for h in t.handlers:
                        if {"KeyError", "LookupError", "Exception"} & set(astq.handler_types(h)) and any(
                                isinstance(r, ast.Raise) and r.exc is not None and "ValueError" in ast.unparse(r.exc)
                                for r in ast.walk(h)):
                            raises = True
            # lookup with a default:  x = TABLE.get(kind.lower());  if x is None: raise ValueError
            if isinstance(n, ast.Assign) and isinstance(n.value, ast.Call) and isinstance(n.value.func, ast.Attribute) and \
                    n.value.func.attr == "get" and ast.unparse(n.value.func.value) == table and n.value.args and \
                    len(n.targets) == 1 and isinstance(n.targets[0], ast.Name):
                v = n.targets[0].id
                lowered |= any(isinstance(c, ast.Call) and isinstance(c.func, ast.Attribute) and c.func.attr in ("lower", "casefold")
                               for x in astq.expand_locals(n.value.args[0], fn) for c in ast.walk(x))
                for i in ast.walk(fn):
                    if isinstance(i, ast.If) and isinstance(i.test, ast.Compare) and ast.unparse(i.test.left) == v and \
                            isinstance(i.test.ops[0], ast.Is) and ast.unparse(i.test.comparators[0]) == "None" and \
                            any(isinstance(r, ast.Raise) and r.exc is not None and "ValueError" in ast.unparse(r.exc) for r in ast.walk(i)):
                        raises = True
                    if isinstance(i, ast.If) and isinstance(i.test, ast.UnaryOp) and isinstance(i.test.op, ast.Not) and \
                            ast.unparse(i.test.operand) == v and \
                            any(isinstance(r, ast.Raise) and r.exc is not None and "ValueError" in ast.unparse(r.exc) for r in ast.walk(i)):
                        raises = True
            # membership test form:  if kind not in TABLE: raise ValueError
            if isinstance(n, ast.If) and any(isinstance(c, ast.Compare) and isinstance(c.ops[0], (ast.NotIn, ast.In))
                                             and ast.unparse(c.comparators[0]) == table for c in ast.walk(n.test)):
                if any(isinstance(r, ast.Raise) and r.exc is not None and "ValueError" in ast.unparse(r.exc) for r in ast.walk(n)):
                    raises = True
                    lowered |= ".lower()" in ast.unparse(n.test) or ".casefold()" in ast.unparse(n.test) or any(
                        ".lower()" in ast.unparse(v) for _, v in astq.assignments(fn, ast.unparse(next(
                            c.left for c in ast.walk(n.test) if isinstance(c, ast.Compare)))) if v is not None)
        return raises, lowered

    r1, l1 = unknown_kind_raises(pf, "LINK_TYPES")
    rep.ob("Project.find raises ValueError for an unknown kind", r1, "" if r1 else
           "an unknown kind qualifier is not turned into ValueError: convert_link's protected attempts do not catch it", py.nloc(pf))
    r2, l2 = unknown_kind_raises(fc, "SUBLINK_TYPES")
    has_attr_guard = any(isinstance(n, ast.If) and "hasattr(" in ast.unparse(n.test) and any(
        isinstance(r, ast.Raise) and r.exc is not None and "ValueError" in ast.unparse(r.exc) for r in ast.walk(n)) for n in ast.walk(fc))
    rep.ob("find_child raises ValueError for unknown / impossible kinds", r2 and has_attr_guard,
           "" if r2 and has_attr_guard else "unknown item kind / an entity that cannot have that kind is not reported as ValueError",
           py.nloc(fc))
    def is_lowered(x) -> bool:
        return any(isinstance(c, ast.Call) and isinstance(c.func, ast.Attribute) and c.func.attr in ("lower", "casefold")
                   and c is y for y in astq.expand_locals(x, fil)[:3] for c in [y])
    cmp_ci = any(isinstance(c, ast.Compare) and len(c.ops) == 1 and isinstance(c.ops[0], ast.Eq)
                 and all(is_lowered(x) for x in (c.left, c.comparators[0])) for c in ast.walk(fil))
    ok = l1 and l2 and cmp_ci
    rep.ob("kind qualifiers and names are compared case-insensitively", ok, "" if ok else
           f"case-sensitive comparison (LINK_TYPES key lowered: {l1}, SUBLINK_TYPES key lowered: {l2}, names compared lowered: {cmp_ci})",
           py.nloc(pf))


def r2_lookup_order(ctx, rep):
    """Decided on the inlined, condition-annotated event trace of convert_link (helpers and closures it calls are
    inlined), so the rule does not depend on how the lookup is split into functions or how its conditions are spelled."""
    py = ctx.py
    fn = py.func("FordLinkProcessor.convert_link")
    ev = astq.trace(fn, astq.class_method_resolver(py, "FordLinkProcessor", "_markdown"), max_depth=3)
    idx = {id(e): i for i, e in enumerate(ev)}

    def recv(e):
        return e.text(e.node.func.value) if isinstance(e.node.func, ast.Attribute) else ""

    fc = [e for e in ev if e.kind == "call" and isinstance(e.node.func, ast.Attribute) and e.node.func.attr == "find_child"]
    pf = [e for e in ev if e.kind == "call" and isinstance(e.node.func, ast.Attribute) and e.node.func.attr == "find"
          and "project" in recv(e)]
    if not fc or not pf:
        raise AnalysisError("convert_link: find_child / project.find calls not found")

    def origin(name: str, before: int) -> str:
        """text of the latest value assigned to `name` before event index `before` (resolving one alias step)"""
        for e in reversed(ev[:before]):
            if e.kind == "assign" and e.target == name and e.value is not None:
                return e.text(e.value)
        return name

    child = [e for e in fc if any("child_name" in e.text(a) for a in e.node.args)]
    scoped = [e for e in fc if e not in child]
    own = [e for e in scoped if "current_context" in origin(recv(e), idx[id(e)]) or "current_context" in recv(e)]
    par = [e for e in scoped if ".parent" in origin(recv(e), idx[id(e)]) or recv(e).endswith(".parent")]
    if not own or not par:
        raise AnalysisError(f"convert_link: scoped lookups not recognised (receivers: {[recv(e) for e in scoped]})")
    # (a) every scoped attempt is individually protected against ValueError
    blocks: Dict[int, List] = {}
    for e in scoped:
        sw = [p for p in e.protected if "ValueError" in p[1] or "Exception" in p[1]]
        sw = [p for p in sw if p[0] == "suppress" or not any(isinstance(x, ast.Raise) for h in p[2].handlers for x in ast.walk(h))]
        ok = bool(sw)
        rep.ob(f"scoped lookup on `{recv(e)}` is allowed to fail", ok,
               "a ValueError ('cannot have that kind') only abandons this attempt" if ok else
               f"`{e.text()[:60]}` is not protected against ValueError: a kind the documented entity cannot contain aborts the "
               f"conversion instead of falling through to the next scope", py.nloc(e.node))
        for p in sw[-1:]:
            blocks.setdefault((id(p[2]), p[3]), []).append(e)
    for k, es in blocks.items():
        ok = len(es) <= 1
        rep.ob(f"protected lookup block at line {es[0].protected[-1][2].lineno - fn.lineno}: one attempt per block", ok,
               "a ValueError ('cannot have that kind') only abandons that one attempt" if ok else
               f"{len(es)} find_child attempts share one protected block: when the documented entity "
               f"cannot contain the requested kind, the parent scope is skipped and the reference is resolved "
               f"project-wide (or not at all)", py.nloc(es[0].node))
    # (b) order
    i_own, i_par, i_prj = idx[id(own[0])], idx[id(par[0])], idx[id(pf[0])]
    ok = i_own < i_par < i_prj
    rep.ob("lookup order: own contents, parent's contents, whole project", ok,
           "" if ok else "the lookups are attempted in a different order than documented", py.nloc(fn))
    # result variable(s) of the scoped lookups and their aliases
    res: Set[str] = set()
    for e in ev:
        if e.kind == "assign" and e.value is not None:
            vt = e.text(e.value)
            if any(c.node is x for c in scoped for x in ast.walk(e.value)) or vt in res or \
                    (isinstance(e.value, ast.Call) and any(ev2.kind == "inline" and ev2.node is e.value for ev2 in ev)
                     and any(idx[id(c)] < idx[id(e)] for c in scoped) and e.depth == 0):
                res.add(e.target)
    forced_none = lambda e: any(v in res and isnone for v, isnone in astq.implied_none_tests(e).items())  # noqa: E731
    ok = forced_none(par[0])
    rep.ob("parent is consulted only if the entity itself has no such child", ok,
           f"parent lookup runs under {par[0].cond_texts()[-1:]}" if ok else
           f"the parent's contents are searched even when the entity's own contents had a match (conditions: {par[0].cond_texts()})",
           py.nloc(par[0].node))
    ok = forced_none(pf[0])
    rep.ob("project-wide search only when the scoped lookups found nothing", ok,
           "" if ok else f"project.find runs under {pf[0].cond_texts()}: a project-wide match overrides the scoped one", py.nloc(pf[0].node))
    # (e) child part
    if not child:
        rep.ob("child part is resolved on the item found, honouring its kind", False,
               "no find_child call takes the child name: [[owner:item]] ignores the item part", py.nloc(fn))
    for e in child[:1]:
        args = [e.text(a) for a in e.node.args] + [e.text(k.value) for k in e.node.keywords]
        ok = (recv(e) in res) and any("child_entity" in a for a in args)
        rep.ob("child part is resolved on the item found, honouring its kind", ok,
               "" if ok else f"`{e.text()}`: the item part is not looked up on the entity found with its kind qualifier", py.nloc(e.node))
    # (f) nothing found: plain text plus a warning, no href
    rets = [e for e in ev if e.kind == "return" and e.depth == 0 and forced_none(e)]
    hrefs = [e for e in ev if e.kind == "assign" and e.target and "href" in e.target]
    warns = [e for e in ev if e.kind == "call" and call_name(e.node).split(".")[-1] in ("warn", "warning")]
    ok = bool(rets) and any(set(w.cond_texts()) >= set(rets[0].cond_texts()) for w in warns) and \
        not any(set(h.cond_texts()) <= set(rets[0].cond_texts()) for h in hrefs)
    rep.ob("unknown target: plain text (no href) plus a warning", ok, "", py.nloc(rets[0].node) if rets else py.nloc(fn))
    # (f') a kind qualifier that cannot apply ("bound" item of a module, unknown kind word) makes find / find_child raise
    # ValueError: that is "something that does not exist" and must end as plain text with a warning, so every lookup of the
    # conversion is protected by a handler (or suppress) for ValueError that does not raise again
    def contained(e) -> bool:
        for p in e.protected:
            if not ("ValueError" in p[1] or "Exception" in p[1] or "BaseException" in p[1]):
                continue
            if p[0] == "suppress" or not any(isinstance(x, ast.Raise) for h in p[2].handlers
                                             if any(t in astq.handler_types(h) for t in ("ValueError", "Exception", "BaseException"))
                                             for x in ast.walk(h)):
                return True
        return False
    for e in child + pf:
        ok = contained(e)
        rep.ob(f"lookup `{e.text()[:50]}` cannot abort the conversion", ok,
               "an impossible / unknown kind qualifier is reported and the reference stays plain text" if ok else
               f"`{e.text()[:60]}` lets the ValueError of an impossible kind qualifier escape (or re-raises it): `[[mod:foo(bound)]]` "
               f"aborts the run instead of being rendered as plain text with a warning", py.nloc(e.node), nontrivial=not ok)
    # (f'') a source file has a page only when incl_src is on (FortranSourceFile.visible records exactly that): the href of a
    # [[file]] reference must depend on it, otherwise the link points at a page that is never written
    for h in hrefs:
        # (the setting itself: a `visible` flag is not enough - files of extra_filetypes do not carry one, and a
        # `getattr(x, "visible", True)` lets them through)
        ok = any("incl_src" in c for c in h.cond_texts_x(fn))
        rep.ob("a reference to a source file is only linked when source pages are written", ok,
               "the href is set under a condition on `incl_src` / the item's `visible` flag" if ok else
               "the href is set for every item found: with `incl_src: false`, `[[prog.f90]]` links to sourcefile/prog.f90.html, which is "
               "not generated", py.nloc(h.node), nontrivial=not ok)
    # (g) the link is relative to the page being converted, external URLs stay absolute
    rel = [e for e in ev if e.kind == "call" and call_name(e.node).split(".")[-1] in ("relpath", "relative_to")]
    ok = any("current_path" in e.text() for e in rel) and any(
        "base_url" in origin(e.text(e.node.args[0]), idx[id(e)]) or "base_url" in e.text() for e in rel if e.node.args)
    rep.ob("link is made relative to the page being converted", ok, "", py.nloc(rel[0].node) if rel else py.nloc(fn))
    def ext_atom(x):
        # "the URL is absolute already": `url.startswith('http...')`, directly or through a local that holds the test
        alts = astq.alternatives(x, fn) if isinstance(x, (ast.Name, ast.Call)) else []
        y = alts[0][0] if len(alts) == 1 else x
        if isinstance(y, ast.Call) and isinstance(y.func, ast.Attribute) and y.func.attr == "startswith" and y.args and \
                any(isinstance(c, ast.Constant) and isinstance(c.value, str) and c.value.startswith("http") for c in ast.walk(y.args[0])):
            return ("ext", True)
        return None
    ok = bool(rel) and any(astq.path_implies(e, ext_atom, {"ext": False}) is True for e in rel)
    rep.ob("external URLs are kept absolute", ok, "", py.nloc(fn), nontrivial=False)


def r3_priority(ctx, rep):
    py = ctx.py
    ext = py.func("FordLinkExtension.extendMarkdown")
    reg = [c for c in py.walk_calls(ext) if call_name(c) == "md.inlinePatterns.register"]
    if not reg or len(reg[0].args) < 3 or not isinstance(reg[0].args[2], ast.Constant):
        raise AnalysisError("FordLinkExtension: inline pattern registration not found")
    prio = reg[0].args[2].value
    spec = importlib.util.find_spec("markdown")
    if spec is None or not spec.submodule_search_locations:
        raise AnalysisError("installed markdown package not found")
    src = Path(list(spec.submodule_search_locations)[0]) / "inlinepatterns.py"
    tree = ast.parse(src.read_text(encoding="utf-8"))
    prios: Dict[str, float] = {}
    for c in ast.walk(tree):
        if isinstance(c, ast.Call) and call_name(c) == "inlinePatterns.register" and len(c.args) >= 3 and \
                isinstance(c.args[1], ast.Constant) and isinstance(c.args[2], ast.Constant):
            prios[c.args[1].value] = c.args[2].value
    for k in ("backtick", "reference", "link"):
        if k not in prios:
            raise AnalysisError(f"markdown inline pattern {k!r} not found in {src}")
    ok = prios["backtick"] > prio
    rep.ob("ford_links priority below code spans", ok, f"{prio} < backtick {prios['backtick']}: [[x]] inside `code` stays verbatim"
           if ok else f"ford_links priority {prio} >= backtick {prios['backtick']}: references inside code spans are converted", py.nloc(reg[0]))
    ok = prio > prios["reference"] and prio > prios["link"]
    rep.ob("ford_links priority above reference/link patterns", ok,
           f"{prio} > reference {prios['reference']}, link {prios['link']}" if ok else
           f"Markdown's own [..][..] handling runs first and consumes [[x]]", py.nloc(reg[0]))


def r4_conversion_location(ctx, rep):
    py = ctx.py
    n = 0
    for mod, tree in py.modules.items():
        if mod == "_markdown":
            continue
        for c in ast.walk(tree):
            if isinstance(c, ast.Call) and isinstance(c.func, ast.Attribute) and c.func.attr == "convert" and \
                    re.search(r"\bmd\b", ast.unparse(c.func.value)):
                n += 1
                kws = {k.arg for k in c.keywords}
                ok = bool(kws & {"context", "path"}) or len(c.args) >= 2
                fn = py.enclosing_function(c)
                rep.ob(f"{py.qualname(fn) if fn else mod}: md.convert({ast.unparse(c.args[0])[:40]})", ok,
                       f"location given ({sorted(kws)})" if ok else
                       f"`{ast.unparse(c)[:70]}` converts text without context= or path=: a [[name]] reference in it is made "
                       f"relative to the process's working directory instead of the page it is shown on", py.nloc(c))
    if n < 5:
        raise AnalysisError(f"only {n} md.convert call sites found")
    cv = py.ifunc("MetaMarkdown.convert")
    asg = astq.assignments(cv, "self.current_path")
    from_path = any(isinstance(v, ast.Name) and v.id == "path" for _, v in asg)
    derived = [v for _, v in asg if astq.mentions(v, "self.base_url", cv) and any(
        isinstance(c, ast.Call) and call_name(c).endswith("get_url") for e in astq.expand_locals(v, cv) for c in ast.walk(e))]
    ok = from_path and bool(derived)
    rep.ob("convert derives the virtual sibling directory from the entity URL", ok,
           "path= is used when given, otherwise a location is derived from the context entity's URL below base_url" if ok else
           "MetaMarkdown.convert no longer sets current_path from path= / the context entity's URL", py.nloc(cv))
    cev = astq.trace(cv)
    for attr in ("self.current_context", "self.current_path"):
        ok = astq.assigned_on_every_path(cev, attr)
        rep.ob(f"convert resets {attr} on every call", ok,
               "assigned on every path" if ok else
               f"{attr} keeps the value of the previous conversion on some path: text converted without a context/path (project "
               f"summary, static pages) is linked relative to whatever was converted before", py.nloc(cv))
    from . import c17
    c17.r4_conversion_path(ctx, rep)
    rl = py.func("RelativeLinksTreeProcessor.run")
    ev = astq.trace(rl)
    first_ret = next((e for e in ev if e.kind == "return"), None)
    ok = first_ret is not None and any(k.endswith("current_path") and v for k, v in astq.implied_none_tests(first_ret).items()) \
        and not any(e.kind in ("call", "loop") for e in ev[:ev.index(first_ret)])
    rep.ob("relative-link post-processing is skipped without a location", ok, "", py.nloc(rl))


def r5_link_syntax(ctx, rep):
    py, rx = ctx.py, ctx.rx
    pat, flags, node, _ = ctx.regexes["FordLinkProcessor.LINK_RE"]
    L = rx.full(pat, flags & ~re.UNICODE)
    W = r"[A-Za-z0-9_é]+"
    forms = {
        "[[name]]": rf"\[\[{W}\]\]",
        "[[file.ext]]": rf"\[\[{W}\.{W}\]\]",
        "[[name(kind)]]": rf"\[\[{W}\({W}\)\]\]",
        "[[name:item]]": rf"\[\[{W}:{W}\]\]",
        "[[name(kind):item]]": rf"\[\[{W}\({W}\):{W}\]\]",
        "[[name:item(kind)]]": rf"\[\[{W}:{W}\({W}\)\]\]",
        "[[name(kind):item(kind)]]": rf"\[\[{W}\({W}\):{W}\({W}\)\]\]",
    }
    for label, ref in forms.items():
        w = rx.subset_witness(rx.full(ref, 0), L)
        rep.ob(f"documented spelling {label}", w is None, "matched by LINK_RE for all names" if w is None else
               f"`{w}` is a documented reference spelling that LINK_RE does not match", py.nloc(node), witness=w)
    w = rx.disjoint_witness(rx.full(rf"\[\[{W}:\]\]", 0), L)
    rep.ob("colon without item is not a reference", w is None, "", py.nloc(node), witness=w)


def r6_item_anchors(ctx, rep):
    c09.r8_anchor_targets_exist(ctx, rep)


def attr_shapes(py, attr: str) -> Dict[str, List[ast.AST]]:
    """shape ('list' | 'scalar' | 'other') of every value assigned to self.<attr> in the entity classes"""
    out: Dict[str, List[ast.AST]] = {"list": [], "scalar": [], "other": []}

    def shape(value: Optional[ast.AST], ann: Optional[ast.AST]) -> str:
        if ann is not None:
            a = ast.unparse(ann)
            if re.match(r"(typing\.)?(List|list|Sequence|Tuple|tuple)\b", a):
                return "list"
            if re.match(r"(typing\.)?Optional\[(?!List|list)", a) or re.match(r"Fortran\w+$", a):
                return "scalar"
        if isinstance(value, (ast.List, ast.ListComp, ast.Tuple)):
            return "list"
        if isinstance(value, ast.BinOp) and isinstance(value.op, ast.Add):
            return "list"
        if isinstance(value, ast.Call) and call_name(value).split(".")[-1] in ("list", "sorted", "filter_display", "filter_public"):
            return "list"
        if isinstance(value, ast.Constant) and value.value is None:
            return "scalar"
        if isinstance(value, ast.Subscript):          # a single element taken out of a table
            return "scalar"
        return "other"

    for cname, ci in py.classes.items():
        if not cname.startswith("Fortran") and cname != "ExternalBase":
            continue
        for n in ast.walk(ci.node):
            if isinstance(n, ast.AnnAssign) and isinstance(n.target, ast.Attribute) and n.target.attr == attr \
                    and isinstance(n.target.value, ast.Name) and n.target.value.id == "self":
                out[shape(n.value, n.annotation)].append(n)
            elif isinstance(n, ast.Assign):
                for t in n.targets:
                    if isinstance(t, ast.Attribute) and t.attr == attr and isinstance(t.value, ast.Name) and t.value.id == "self":
                        out[shape(n.value, None)].append(n)
    return out


def r7_item_collections(ctx, rep):
    """find_child hands the attribute named by SUBLINK_TYPES to _find_in_list, which iterates it.  Every such
    attribute must be a sequence at every assignment - or find_child must wrap the single-valued ones in a list
    display before iterating (`[[type:name(constructor)]]` raised TypeError: list(<FortranFunction>))."""
    py = ctx.py
    st = dict_const(py, "sourceform", "SUBLINK_TYPES")
    fc = py.ifunc("FortranBase.find_child")      # canonical form: the kind -> collection step may live in a helper
    # the variable that receives the attribute named by the kind: `<var> = getattr(self, <collection name>)`
    got = [t.id for n in ast.walk(fc) if isinstance(n, ast.Assign) and isinstance(n.value, ast.Call) and call_name(n.value) == "getattr"
           and n.value.args and ast.unparse(n.value.args[0]) == "self" for t in n.targets if isinstance(t, ast.Name)]
    if len(set(got)) != 1:
        raise AnalysisError("find_child: `<collection> = getattr(self, <name>)` was not found")
    var = got[0]
    # is there a test `isinstance(var, (list, ...))` and, for the other case, a list display that wraps var?
    tested = any(isinstance(c, ast.Call) and call_name(c) == "isinstance" and c.args and ast.unparse(c.args[0]) == var
                 for n in ast.walk(fc) if isinstance(n, (ast.If, ast.IfExp)) for c in ast.walk(n.test))
    wrapped = any(isinstance(x, ast.List) and any(isinstance(e, ast.Name) and e.id == var for e in x.elts) for x in ast.walk(fc))
    wraps = tested and wrapped
    raw_iter = [n for n in ast.walk(fc) if isinstance(n, ast.Call) and call_name(n) in ("list", "tuple", "iter")
                and n.args and isinstance(n.args[0], ast.Call) and call_name(n.args[0]) == "getattr"]
    for kind, attr in sorted(st.items()):
        sh = attr_shapes(py, attr)
        if not sh["list"] and not sh["scalar"]:
            raise AnalysisError(f"no classified assignment to self.{attr} in the entity classes")
        if not sh["scalar"]:
            rep.ob(f"item kind {kind!r}: self.{attr} is a sequence at every assignment", True,
                   f"{len(sh['list'])} sequence-valued assignment(s)", py.nloc(sh["list"][0]))
            continue
        ok = wraps and not raw_iter
        rep.ob(f"item kind {kind!r}: single-valued self.{attr} is wrapped before it is searched", ok,
               f"find_child rebinds `{var}` to a list display under an isinstance test" if ok else
               f"self.{attr} holds a single entity (or None) ({py.nloc(sh['scalar'][0])}) but find_child iterates it "
               f"directly: [[owner:name({kind})]] raises TypeError instead of linking", py.nloc(fc))


def isinstance_tuples(fn: ast.AST, subject: str) -> List[List[str]]:
    out = []
    for n in ast.walk(fn):
        if isinstance(n, ast.Call) and isinstance(n.func, ast.Name) and n.func.id == "isinstance" and len(n.args) == 2 \
                and ast.unparse(n.args[0]) == subject:
            t = n.args[1]
            out.append([e.id for e in (t.elts if isinstance(t, ast.Tuple) else [t]) if isinstance(e, ast.Name)])
    return out


def r8_found_items_have_urls(ctx, rep):
    """convert_link turns the item found into a link via item.get_url() and raises when that is None.  So every class
    of entity that find_child can hand out for a documented item kind must have a URL wherever it can be declared:
    its own page (get_dir), an anchor on its owner's page (the isinstance tuple in get_url), or a get_url override."""
    py = ctx.py
    from . import c05
    c09.anchored_url_from_parent(ctx, rep)
    st = dict_const(py, "sourceform", "SUBLINK_TYPES")
    gd = py.func("FortranBase.get_dir")
    gu = py.ifunc("FortranBase.get_url")
    if not isinstance_tuples(gd, "self"):
        raise AnalysisError("FortranBase.get_dir: no test of the entity's class found")
    parents_ok = sorted(c for c in py.classes if c.startswith("Fortran") and py.is_subclass(c, "FortranContainer")
                        and c09.get_dir_gives_page(py, "FortranType", c))
    anchored = [c for t in isinstance_tuples(gu, "self") for c in t]
    if len(anchored) < 4:
        raise AnalysisError("FortranBase.get_url: anchored-entity tuple not found")
    concrete = [c for c in py.classes if c.startswith("Fortran") and c not in ("FortranBase", "FortranContainer", "FortranCodeUnit", "FortranSpoof")]
    sub = lambda c, names: any(py.is_subclass(c, n) for n in names if n in py.classes)
    for kind, attr in sorted(st.items()):
        elems = ["FortranInterface", "FortranFunction"] if attr == "constructor" else [c05.LIST_ELEM.get(attr)]
        if elems[0] is None:
            raise AnalysisError(f"no element class known for collection {attr!r}")
        owners = [c for c in concrete if attr in c09.all_self_attrs(py, c)]
        if attr == "constructor":
            owners = ["FortranModule"]      # the constructor is looked up in the all_procs of the type's scope
        for e in elems:
            r = py.resolve_method(e, "get_url")
            for o in owners:
                if r is not None and r[0] != "FortranBase":
                    how = f"{r[0]}.get_url override"
                elif c09.get_dir_gives_page(py, e, "FortranSpoof") is True:
                    how = "own page"
                elif c09.get_dir_gives_page(py, e, o) is True:
                    how = "own page (declared in a program unit)"
                elif sub(e, anchored):
                    how = "anchor on the owner's page"
                else:
                    how = None
                rep.ob(f"item kind {kind!r}: a {e} found in {o}.{attr} has a URL", how is not None,
                       how or f"get_url() of a {e} declared in a {o} is None (no page: get_dir needs a parent in {parents_ok}; "
                              f"not in the anchor tuple of get_url): [[x:name({kind})]] finds it and convert_link raises "
                              f"'Found item ... but no url', aborting the run", py.nloc(gu), nontrivial=how not in ("own page",))



def r9_memo(ctx, rep):
    """shared with C17.R7: cached link elements must be keyed by the converter state they depend on"""
    n = common.memo_soundness(ctx, rep, modules=("_markdown",))
    if n == 0:
        rep.ob("no cache in the Markdown layer", True, "links are computed per conversion", "ford/_markdown.py", nontrivial=False)


def r10_plain_references_survive_relurl(ctx, rep):
    """A reference that cannot be resolved is rendered as `<a>name</a>` - an anchor element *without* `href` (every early
    `return link` of convert_link).  Text containing such an element is later passed through the `relurl` filter (summaries of
    type-bound procedures, declarations), which looks at the first `<a>` of the text: it must not require that element to have
    an `href`, otherwise one misspelt [[reference]] in a binding's comment aborts the whole run with KeyError."""
    py = ctx.py
    cl = py.ifunc("FordLinkProcessor.convert_link")
    ev = astq.trace(cl)
    rets = [e for e in ev if e.kind == "return" and e.node.value is not None]
    stores = [st for st in ast.walk(cl) if isinstance(st, ast.Assign) and any(
        isinstance(t, ast.Subscript) and isinstance(t.slice, ast.Constant) and t.slice.value == "href" for t in st.targets)]
    bare = [e for e in rets if not stores or e.node.lineno < min(s.lineno for s in stores)]
    if not rets or not stores:
        raise AnalysisError("convert_link: returns / href store not found")
    rep.ob("convert_link: unresolved references are returned as elements without href", True,
           f"{len(bare)} of {len(rets)} returns precede the href store", py.nloc(cl), nontrivial=False)
    if not bare:
        return
    ru = py.ifunc("output.relative_url")
    n = 0
    for sub in ast.walk(ru):
        if isinstance(sub, ast.Subscript) and isinstance(sub.slice, ast.Constant) and sub.slice.value == "href" and isinstance(sub.ctx, ast.Load):
            n += 1
            # where does the element come from?  `soup.find("a", href=True)` / `select_one("a[href]")` only yield elements with href
            srcs = [sub.value] + astq.expand_locals(sub.value, ru)
            selective = any(isinstance(c, ast.Call) and (any(k.arg == "href" for k in c.keywords) or any(
                isinstance(a, ast.Constant) and isinstance(a.value, str) and "[href" in a.value for a in c.args))
                for x in srcs for c in ast.walk(x))
            # or the access is guarded by a test that mentions href
            guarded = False
            p = sub
            while p is not ru and p in py.parents:
                par = py.parents[p]
                if isinstance(par, (ast.If, ast.IfExp)) and any(isinstance(k, ast.Constant) and k.value == "href" for k in ast.walk(par.test)):
                    guarded = True
                if isinstance(par, ast.Try) and p in par.body and any(
                        h.type is None or "KeyError" in ast.unparse(h.type) for h in par.handlers):
                    guarded = True
                p = par
            ok = selective or guarded
            rep.ob("relative_url: the first <a> of a text need not have an href", ok,
                   "only elements with href are considered" if ok else
                   f"`{ast.unparse(sub)}` assumes that the first <a> element has an href; an unresolved [[reference]] is rendered as "
                   f"`<a>name</a>`, so e.g. a misspelt reference in the comment of a type-bound procedure (whose summary goes "
                   f"through relurl) raises KeyError and the run ends", py.nloc(sub))
    uses_get = any(isinstance(c, ast.Call) and isinstance(c.func, ast.Attribute) and c.func.attr == "get" and c.args
                   and isinstance(c.args[0], ast.Constant) and c.args[0].value == "href" for c in ast.walk(ru))
    if n == 0 and not uses_get:
        raise AnalysisError("relative_url: no access to the href of the first link found")
    if n == 0:
        rep.ob("relative_url: the first <a> of a text need not have an href", True, "href read with .get()", py.nloc(ru))


def r11_relurl_leaves_relative_links(ctx, rep):
    """a converted [[reference]] is a relative link; shown on another page it goes through `relurl`, which must not rewrite it
    (shared with C09.R3)"""
    from . import c09
    c09._relurl_only_rewrites_absolute_paths(ctx, rep)


def r12_names_compared_case_insensitively(ctx, rep):
    """names are lower-cased on both sides of a comparison (shared with C16.R11)"""
    from . import c16
    c16.r11_names_compared_case_insensitively(ctx, rep)


RULES = [
    RuleSpec("C11.R6", r6_item_anchors, "[[owner:item]] targets: item anchors exist on the owner's page (shared with C09.R8)", floor=16),
    RuleSpec("C11.R1", r1_kinds, "documented kinds are the implemented kinds", floor=45),
    RuleSpec("C11.R2", r2_lookup_order, "lookup order and protected attempts", floor=5),
    RuleSpec("C11.R3", r3_priority, "code spans win", floor=1),
    RuleSpec("C11.R4", r4_conversion_location, "every conversion has a location", floor=5),
    RuleSpec("C11.R5", r5_link_syntax, "reference syntax", floor=4),
    RuleSpec("C11.R8", r8_found_items_have_urls, "every entity find_child can hand out has a URL", floor=30),
    RuleSpec("C11.R7", r7_item_collections, "item collections searched by find_child are sequences", floor=5),
    RuleSpec("C11.R9", r9_memo, "no cached link element outlives the page it was made for (shared with C17.R7)", floor=1),
    RuleSpec("C11.R10", r10_plain_references_survive_relurl, "an unresolved reference stays harmless in every filter it passes", floor=2),
    RuleSpec("C11.R11", r11_relurl_leaves_relative_links, "relurl rewrites absolute paths only (shared with C09.R3)", floor=1),
    RuleSpec("C11.R12", r12_names_compared_case_insensitively, "names are lower-cased on both sides of a comparison (shared with C16.R11)", floor=1),
]
