"""Generic rules shared by several properties.

They encode disciplines whose violation breaks more than one property and that are visible in the shape of the code:

* memo soundness      - a value stored in a persistent cache depends only on what the cache key is made of;
* no aliased mutation - after `self.a = self.b` the list behind both names is not mutated in place;
* pure properties     - a @property does not change the state of the object it is read from;
* unambiguous stars   - a repeated group of a regular expression cannot match the same text in two ways
                        (the usual source of exponential backtracking).
"""
from __future__ import annotations

import ast
import re
from typing import Dict, List, Optional, Sequence, Set, Tuple

from ..core import AnalysisError
from ..pymodel import call_name
from .. import astq

MUTATORS = ("append", "extend", "insert", "remove", "pop", "clear", "sort", "reverse", "update", "add", "discard", "setdefault",
            "popitem", "appendleft", "extendleft")

# parameters that may reach a cached value without being part of its key, with the reason
MEMO_EXEMPT: Dict[Tuple[str, str], str] = {
    ("graphs.GraphData.register", "hist"): "cycle-breaking history of the node construction; the node for an entity is the same whatever the history",
    ("graphs.GraphData.register", "self"): "the registry itself",
}


def _mutable_state_attrs(py) -> Set[str]:
    """attribute names that are assigned through `self.<attr> = ...` outside a constructor: state that changes
    during a run"""
    cache = py.__dict__.get("_mutable_state_attrs")
    if cache is not None:
        return cache
    out: Set[str] = set()
    for cname, ci in py.classes.items():
        for mname, m in ci.methods.items():
            if mname in ("__init__", "__post_init__", "_initialize", "_common_initialize"):
                continue
            for n in ast.walk(m):
                if isinstance(n, (ast.Assign, ast.AnnAssign, ast.AugAssign)):
                    tg = n.targets if isinstance(n, ast.Assign) else [n.target]
                    for t in tg:
                        if isinstance(t, ast.Attribute) and isinstance(t.value, ast.Name) and t.value.id == "self":
                            out.add(t.attr)
    py.__dict__["_mutable_state_attrs"] = out
    return out


def _state_reads(py, fn, cls: Optional[str], depth: int = 0, seen: Optional[Set[int]] = None) -> Set[str]:
    """attribute chains rooted at self that `fn` (and the methods of its class that it calls) read and whose last
    attribute is run-time state"""
    seen = seen if seen is not None else set()
    if id(fn) in seen or depth > 2:
        return set()
    seen.add(id(fn))
    state = _mutable_state_attrs(py)
    out: Set[str] = set()
    for n in ast.walk(fn):
        if isinstance(n, ast.Attribute) and isinstance(n.ctx, ast.Load) and n.attr in state:
            t = ast.unparse(n)
            if t.startswith("self."):
                out.add(t)
        if isinstance(n, ast.Call) and isinstance(n.func, ast.Attribute) and isinstance(n.func.value, ast.Name) \
                and n.func.value.id == "self" and cls:
            r = py.resolve_method(cls, n.func.attr)
            if r is not None:
                out |= _state_reads(py, r[1], cls, depth + 1, seen)
    return out


def is_list_attr(py, cls: str, attr: str) -> bool:
    """is self.<attr> a list somewhere in the class hierarchy of cls (assigned a list display / comprehension /
    list()/filter_display(...) or annotated List[...])?"""
    for c in py.mro(cls):
        ci = py.classes.get(c)
        if not ci:
            continue
        for m in ci.methods.values():
            for n in ast.walk(m):
                tg, val, ann = [], None, None
                if isinstance(n, ast.Assign):
                    tg, val = n.targets, n.value
                elif isinstance(n, ast.AnnAssign):
                    tg, val, ann = [n.target], n.value, n.annotation
                for t in tg:
                    if isinstance(t, ast.Attribute) and t.attr == attr and isinstance(t.value, ast.Name) and t.value.id == "self":
                        if ann is not None and re.match(r"(typing\.)?(List|list)\b", ast.unparse(ann)):
                            return True
                        if isinstance(val, (ast.List, ast.ListComp)) or (isinstance(val, ast.Call) and call_name(val).split(".")[-1] in
                                                                          ("list", "sorted", "filter_display", "copy")):
                            return True
    return False


def memo_sites(py, modules: Optional[Sequence[str]] = None):
    """(function, class, container text, key expr, value expr, store node) for every read-before-compute cache"""
    out = []
    for mod, fn in py.all_functions():
        if modules is not None and mod not in modules:
            continue
        cls = py.enclosing_class(fn)
        params = {a.arg for a in fn.args.posonlyargs + fn.args.args + fn.args.kwonlyargs}
        module_level = {t.id for st in py.modules[mod].body if isinstance(st, (ast.Assign, ast.AnnAssign))
                        for t in (st.targets if isinstance(st, ast.Assign) else [st.target]) if isinstance(t, ast.Name)}
        for n in ast.walk(fn):
            if not isinstance(n, ast.Assign) or py.enclosing_function(n) is not fn:
                continue
            for t in n.targets:
                if not (isinstance(t, ast.Subscript) and isinstance(t.ctx, ast.Store)):
                    continue
                c = ast.unparse(t.value)
                persistent = (isinstance(t.value, ast.Name) and (t.value.id in module_level or t.value.id in params)) or \
                    (isinstance(t.value, ast.Attribute) and ast.unparse(t.value).startswith("self."))
                if not persistent:
                    continue
                k = ast.unparse(t.slice)
                hit = False
                for x in ast.walk(fn):
                    if isinstance(x, ast.Compare) and isinstance(x.ops[0], (ast.In, ast.NotIn)) and ast.unparse(x.comparators[0]) == c \
                            and ast.unparse(x.left) == k:
                        hit = True
                    if isinstance(x, ast.Call) and isinstance(x.func, ast.Attribute) and x.func.attr == "get" and \
                            ast.unparse(x.func.value) == c and x.args and ast.unparse(x.args[0]) == k:
                        hit = True
                    if isinstance(x, ast.Try) and any(isinstance(s, ast.Subscript) and isinstance(s.ctx, ast.Load)
                                                      and ast.unparse(s.value) == c and ast.unparse(s.slice) == k
                                                      for b in x.body for s in ast.walk(b)) and \
                            any("KeyError" in astq.handler_types(h) for h in x.handlers):
                        hit = True
                if hit:
                    out.append((fn, cls, c, t.slice, n.value, n))
    return out


def memo_soundness(ctx, rep, modules: Optional[Sequence[str]] = None, label: str = ""):
    """every cached value depends only on what its key is made of"""
    py = ctx.py
    n = 0
    for fn, cls, cont, key, val, node in memo_sites(py, modules):
        q = py.qualname(fn)
        params = [a.arg for a in fn.args.posonlyargs + fn.args.args + fn.args.kwonlyargs]
        kx = astq.expand_locals(key, fn, depth=5)
        vx = astq.expand_locals(val, fn, depth=6)
        # a value read off a local object (`link.attrib["href"]`, `link.text`): what was stored into that object counts
        objs = {x.value.id for e in [val] + vx for x in ast.walk(e)
                if isinstance(x, ast.Attribute) and isinstance(x.value, ast.Name) and x.value.id not in ("self", "cls")}
        for st in ast.walk(fn):
            if isinstance(st, ast.Assign):
                for t in st.targets:
                    root = t
                    while isinstance(root, (ast.Attribute, ast.Subscript)):
                        root = root.value
                    if isinstance(t, (ast.Attribute, ast.Subscript)) and isinstance(root, ast.Name) and root.id in objs:
                        vx = vx + [st.value] + astq.expand_locals(st.value, fn, depth=6)
        knames = {x.id for e in kx for x in ast.walk(e) if isinstance(x, ast.Name)}
        ktext = " ".join(ast.unparse(e) for e in kx)
        vnames = {x.id for e in vx for x in ast.walk(e) if isinstance(x, ast.Name)}
        missing = [p for p in params if p in vnames and p not in knames and p not in ("self", "cls")
                   and p != cont and (q, p) not in MEMO_EXEMPT]
        # run-time state read by the methods that compute the value
        state: Set[str] = set()
        for e in vx:
            for c in ast.walk(e):
                if isinstance(c, ast.Call) and isinstance(c.func, ast.Attribute) and isinstance(c.func.value, ast.Name) \
                        and c.func.value.id == "self" and cls:
                    r = py.resolve_method(cls, c.func.attr)
                    if r is not None:
                        state |= _state_reads(py, r[1], cls)
        # ... and read directly in the value's own expressions (`self.md.current_path`)
        mstate = _mutable_state_attrs(py)
        for e in vx:
            for a in ast.walk(e):
                if isinstance(a, ast.Attribute) and isinstance(a.ctx, ast.Load) and a.attr in mstate and ast.unparse(a).startswith("self."):
                    state.add(ast.unparse(a))
        missing_state = sorted(s for s in state if s not in ktext and not s.startswith(cont))
        ok = not missing and not missing_state
        n += 1
        rep.ob(f"{label}cache {cont}[{ast.unparse(key)[:40]}] in {q}", ok,
               "the stored value is a function of the key" if ok else
               f"`{ast.unparse(node)[:80]}` stores a value that also depends on {missing + missing_state}, which the key "
               f"`{ast.unparse(key)}` does not contain: the first caller's value is served to later callers for which the "
               f"result differs", py.nloc(node))
    return n


def alias_then_mutate(ctx, rep, classes_prefix: str = "Fortran", label: str = ""):
    """after `self.a = self.b` (no copy) neither list is mutated in place later in the same method: the other name
    would silently change with it"""
    py = ctx.py
    n = 0
    for cname, ci in py.classes.items():
        if not cname.startswith(classes_prefix):
            continue
        for mname, m in ci.methods.items():
            aliases = [(st, st.targets[0], st.value) for st in ast.walk(m) if isinstance(st, ast.Assign) and len(st.targets) == 1
                       and isinstance(st.targets[0], ast.Attribute) and isinstance(st.value, ast.Attribute)
                       and ast.unparse(st.targets[0]).startswith("self.") and ast.unparse(st.value).startswith("self.")
                       and ast.unparse(st.value).count(".") == 1 and ast.unparse(st.targets[0]).count(".") == 1
                       and is_list_attr(py, cname, st.value.attr)]
            for st, tgt, src in aliases:
                a, b = ast.unparse(tgt), ast.unparse(src)
                muts = []
                for x in ast.walk(m):
                    if getattr(x, "lineno", 0) <= st.lineno:
                        continue
                    if isinstance(x, ast.Call) and isinstance(x.func, ast.Attribute) and x.func.attr in MUTATORS and \
                            ast.unparse(x.func.value) in (a, b):
                        muts.append(x)
                    if isinstance(x, ast.Subscript) and isinstance(x.ctx, (ast.Store, ast.Del)) and ast.unparse(x.value) in (a, b):
                        muts.append(x)
                    if isinstance(x, ast.AugAssign) and ast.unparse(x.target) in (a, b):
                        muts.append(x)
                # a later re-binding of either name ends the aliasing
                rebinds = [x.lineno for x in ast.walk(m) if isinstance(x, ast.Assign) and x is not st and x.lineno > st.lineno
                           and any(ast.unparse(t) in (a, b) for t in x.targets)]
                first_rebind = min(rebinds) if rebinds else 10 ** 9
                muts = [x for x in muts if x.lineno < first_rebind]
                n += 1
                rep.ob(f"{label}{cname}.{mname}: alias {a} = {b}", not muts,
                       "the shared list is only re-bound, never mutated in place, while both names refer to it" if not muts else
                       f"`{ast.unparse(muts[0])[:70]}` mutates the list that `{a}` and `{b}` share: what was saved under `{a}` changes "
                       f"with it", py.nloc(muts[0] if muts else st), nontrivial=bool(muts))
    return n


def pure_properties(ctx, rep, module: str = "sourceform", label: str = ""):
    """a @property does not change the object: no assignment to self.<x>, no in-place mutation of self.<x> or of a
    local that is merely another name for it"""
    py = ctx.py
    n = 0
    for cname, ci in py.classes.items():
        if ci.module != module:
            continue
        for p in sorted(ci.properties):
            fn = ci.methods.get(p)
            if fn is None:
                continue
            # locals that alias an attribute of self without copying
            alias: Set[str] = set()
            for st in ast.walk(fn):
                if isinstance(st, ast.Assign) and len(st.targets) == 1 and isinstance(st.targets[0], ast.Name) and \
                        isinstance(st.value, ast.Attribute) and ast.unparse(st.value).startswith("self.") and \
                        ast.unparse(st.value).count(".") == 1 and is_list_attr(py, cname, st.value.attr):
                    alias.add(st.targets[0].id)
            bad = []
            for x in ast.walk(fn):
                if isinstance(x, (ast.Assign, ast.AugAssign, ast.AnnAssign)):
                    tg = x.targets if isinstance(x, ast.Assign) else [x.target]
                    for t in tg:
                        tt = ast.unparse(t)
                        base = tt.split("[")[0]
                        if base.startswith("self.") and not base.startswith("self._"):
                            bad.append(x)
                        if isinstance(x, ast.AugAssign) and isinstance(t, ast.Name) and t.id in alias:
                            bad.append(x)      # `attribs += [...]` extends the aliased list in place
                if isinstance(x, ast.Call) and isinstance(x.func, ast.Attribute) and x.func.attr in MUTATORS:
                    recv = ast.unparse(x.func.value)
                    if (recv.startswith("self.") and not recv.startswith("self._")) or recv in alias:
                        bad.append(x)
            n += 1
            rep.ob(f"{label}{cname}.{p} is free of side effects", not bad,
                   "reading the property leaves the entity unchanged" if not bad else
                   f"`{ast.unparse(bad[0])[:70]}` changes the entity every time the property is read: what is displayed depends on "
                   f"how often (on how many pages) it was displayed before", py.nloc(bad[0] if bad else fn), nontrivial=bool(bad))
    return n


def _iteration_boundary_ambiguity(rx, B, max_states: int = 20000) -> Optional[str]:
    """Can two consecutive iterations of a repeat with body B share their text in two ways?  I.e. are there u1 u2 = v1 v2 with all
    four in B and u1 = v1 x for a non-empty x (`(<ws>*a<ws>*)+`: the blanks between two a's belong to either iteration).  Then a
    chain of n iterations has exponentially many parses.  Decided on derivatives: x must extend some word of B to a word of B
    (x in the left quotient of B by B) and be the start of a word of B whose rest is again in B.  Returns such an x (with the prefix that leads to it)."""
    alphabet = rx.classes(B)
    # phase 1: states D1 = B after reading a word w that is itself in B  (left quotient of B by B, as a set of residuals)
    starts = {}
    seen = {(B, B)}
    frontier = [((B, B), "")]
    n = 0
    while frontier:
        nxt = []
        for (d1, d2), w in frontier:
            for ch in alphabet:
                e1, e2 = rx.deriv(d1, ch), rx.deriv(d2, ch)
                if e1 == rx.EMPTY or e2 == rx.EMPTY or (e1, e2) in seen:
                    continue
                seen.add((e1, e2))
                if rx.nullable(e2) and e1 not in starts:
                    starts[e1] = w + ch
                nxt.append(((e1, e2), w + ch))
                n += 1
                if n > max_states:
                    return None
        frontier = nxt
    # phase 2: a non-empty x accepted from such a state, after which B can still continue with a word of B
    for e0, w in starts.items():
        seen2 = {(e0, B)}
        frontier2 = [((e0, B), "")]
        while frontier2:
            nxt = []
            for (e, f), x in frontier2:
                for ch in alphabet:
                    e1, f1 = rx.deriv(e, ch), rx.deriv(f, ch)
                    if e1 == rx.EMPTY or f1 == rx.EMPTY or (e1, f1) in seen2:
                        continue
                    seen2.add((e1, f1))
                    if rx.nullable(e1):
                        try:
                            if rx.witness(rx.conj(f1, B), max_states=5000) is not None:
                                return w + "|" + x + ch
                        except rx.Budget:
                            pass
                    nxt.append(((e1, f1), x + ch))
                    n += 1
                    if n > max_states:
                        return None
            frontier2 = nxt
    return None


def ambiguous_star(rx, pattern: str, flags: int) -> Optional[str]:
    """shortest string that an unbounded repeat of `pattern` can consume in two different ways (B.B intersects B for
    the repeat body B, or two alternatives of the body overlap), else None"""
    import sre_constants as sc
    p = rx.parse(pattern, flags)

    def walk(seq, cont: bool):
        items = list(seq)
        for i, (op, av) in enumerate(items):
            later = cont or i + 1 < len(items)      # something follows that may fail and force backtracking
            if op in (sc.MAX_REPEAT, sc.MIN_REPEAT):
                lo, hi, sub = av
                if hi == sc.MAXREPEAT and later:
                    try:
                        body = rx._comp(sub, rx.EPS, p.state.flags)
                    except rx.Unsupported:
                        body = None
                    if body is not None:
                        nonempty = rx.conj(body, rx.cat(rx.chars(rx.UNIVERSE), rx.ANYSTAR))
                        two = rx.cat(nonempty, nonempty)
                        w = rx.witness(rx.conj(two, nonempty))
                        if w is not None:
                            return w
                        w = _iteration_boundary_ambiguity(rx, nonempty)
                        if w is not None:
                            return w
                r = walk(sub, later or hi != 1)
                if r is not None:
                    return r
            elif op is sc.SUBPATTERN:
                r = walk(av[-1], later)
                if r is not None:
                    return r
            elif op is sc.BRANCH:
                for alt in av[1]:
                    r = walk(alt, later)
                    if r is not None:
                        return r
            elif op in (sc.ASSERT, sc.ASSERT_NOT):
                r = walk(av[1], True)
                if r is not None:
                    return r
        return None
    return walk(list(p), False)


# ------------------------------------------------------------------ keywords are whole words
STR_METHODS_TO_STR = ("lower", "upper", "strip", "lstrip", "rstrip", "replace", "casefold", "expandtabs", "title", "format", "join")


def _str_names(fn: ast.FunctionDef) -> Set[str]:
    """names of `fn` that are certainly strings: parameters annotated str / Optional[str], and locals only ever
    assigned from a str method / re.sub / an f-string of such"""
    names: Set[str] = set()
    for a in fn.args.posonlyargs + fn.args.args + fn.args.kwonlyargs:
        if a.annotation is not None and ast.unparse(a.annotation) in ("str", "Optional[str]", "typing.Optional[str]", "str | None"):
            names.add(a.arg)
    changed = True
    while changed:
        changed = False
        per: Dict[str, List[ast.AST]] = {}
        for st in ast.walk(fn):
            if isinstance(st, ast.Assign):
                for t in st.targets:
                    if isinstance(t, ast.Name):
                        per.setdefault(t.id, []).append(st.value)
            elif isinstance(st, ast.AnnAssign) and isinstance(st.target, ast.Name) and st.value is not None:
                per.setdefault(st.target.id, []).append(st.value)
            elif isinstance(st, (ast.For, ast.comprehension)) and isinstance(st.target, ast.Name):
                per.setdefault(st.target.id, []).append(ast.Constant(value=None))     # loop variable: unknown
        for nm, vals in per.items():
            if nm in names and nm not in {a.arg for a in fn.args.args}:
                continue

            def is_str(v: ast.AST) -> bool:
                if isinstance(v, ast.JoinedStr) or (isinstance(v, ast.Constant) and isinstance(v.value, str)):
                    return True
                if isinstance(v, ast.Call) and isinstance(v.func, ast.Attribute) and v.func.attr in STR_METHODS_TO_STR:
                    r = v.func.value
                    return isinstance(r, ast.Name) and r.id in names or is_str(r)
                if isinstance(v, ast.Call) and call_name(v) in ("re.sub", "str"):
                    return True
                return isinstance(v, ast.Name) and v.id in names
            if vals and all(is_str(v) for v in vals) and nm not in names:
                names.add(nm)
                changed = True
    return names


def _keyword_operand(e: ast.AST, fn: ast.FunctionDef, py=None) -> Optional[List[str]]:
    """the alphabetic keywords `e` stands for: a constant, or the variable of a loop over a constant sequence of them (a
    literal, or a module-level constant that evaluates to one)"""
    def words(vs):
        vs = list(vs)
        return vs if vs and all(isinstance(v, str) and len(v) >= 3 and v.replace("_", "").isalpha() for v in vs) else None
    if isinstance(e, ast.Constant):
        return words([e.value])
    if isinstance(e, ast.Name):
        for st in ast.walk(fn):
            if isinstance(st, (ast.For, ast.comprehension)) and isinstance(st.target, ast.Name) and st.target.id == e.id:
                if isinstance(st.iter, (ast.List, ast.Tuple)) and all(isinstance(x, ast.Constant) for x in st.iter.elts):
                    return words([x.value for x in st.iter.elts])
                if py is not None:
                    try:
                        v = py.eval_const(st.iter, py.module_env(py.module_of(fn)))
                    except Exception:
                        v = None
                    if isinstance(v, (list, tuple, set, frozenset)):
                        return words(sorted(v) if isinstance(v, (set, frozenset)) else v)
    return None


def keyword_substring(ctx, rep, modules: Sequence[str] = ("sourceform", "reader"), label: str = ""):
    """a Fortran keyword is recognised as a whole word: `"<keyword>" in <statement text>` is a substring test and also
    fires inside identifiers (`type(module_t) function f()` is not a MODULE procedure, `pure_t` is not PURE)"""
    py = ctx.py
    n = 0
    for mod, fn in py.all_functions():
        if mod not in modules:
            continue
        qual = py.qualname(fn)
        strs = None
        for c in ast.walk(fn):
            if not (isinstance(c, ast.Compare) and len(c.ops) == 1 and isinstance(c.ops[0], (ast.In, ast.NotIn))):
                continue
            kws = _keyword_operand(c.left, fn, py)
            if not kws:
                continue
            if strs is None:
                strs = _str_names(fn)
            rhs = c.comparators[0]
            is_text = isinstance(rhs, ast.Name) and rhs.id in strs
            n += 1
            rep.ob(f"{label}{qual}: `{ast.unparse(c)[:60]}` is a whole-word test", not is_text,
                   "the right-hand side is a collection of words (or not provably text)" if not is_text else
                   f"`{ast.unparse(rhs)}` is the statement text itself, so the keyword(s) {', '.join(kws[:6])} are also found inside "
                   f"identifiers: `type({kws[-1]}_t) function f()` gets the attribute `{kws[-1]}` and the result type `type(_t)`",
                   py.nloc(c), nontrivial=is_text)
    return n


# ------------------------------------------------------------------ results of pure calls are used
PURE_STR_METHODS = ("strip", "lstrip", "rstrip", "lower", "upper", "replace", "casefold", "removeprefix", "removesuffix",
                    "expandtabs", "title", "capitalize", "swapcase", "zfill", "ljust", "rjust", "center", "encode", "decode")


def _discarded(fn: ast.AST) -> List[ast.Expr]:
    return [st for st in ast.walk(fn) if isinstance(st, ast.Expr) and isinstance(st.value, ast.Call) and
            isinstance(st.value.func, ast.Attribute) and st.value.func.attr in PURE_STR_METHODS]


def discarded_results(ctx, rep, modules: Optional[Sequence[str]] = None, label: str = ""):
    """an expression statement whose value is the result of a side-effect-free string method does nothing: the
    normalisation the author meant to apply (`value.strip().strip('"')`) is lost"""
    py = ctx.py
    if len(_discarded(ast.parse("def f(v):\n    v.strip().strip('\"')\n    return v\n"))) != 1:
        raise AnalysisError("discarded_results: the matcher does not recognise its own positive example")
    n = 0
    per: Dict[str, int] = {}
    for mod, fn in py.all_functions():
        if modules is not None and mod not in modules:
            continue
        per[mod] = per.get(mod, 0) + sum(1 for st in ast.walk(fn) if isinstance(st, ast.Expr))
        for st in _discarded(fn):
            c = st.value
            n += 1
            rep.ob(f"{label}{py.qualname(fn)}: result of `{ast.unparse(c)[:60]}` is used", False,
                   f"`.{c.func.attr}()` returns a new string and changes nothing: the statement has no effect, so the value "
                   f"keeps what was meant to be removed", py.nloc(st), nontrivial=True)
    for mod, k in sorted(per.items()):
        n += 1
        rep.ob(f"{label}{mod}: no expression statement discards the result of a pure string method", True,
               f"{k} expression statements inspected", mod)
    return n


# ------------------------------------------------------------------ a suffix is stripped once
def _double_strip_sites(fns: Sequence[ast.AST]):
    """(call, receiver, is_bad, fn) for every `.with_suffix()` call in fns (the methods of one class, or loose functions)"""
    def from_stem(e: ast.AST) -> bool:
        return any(isinstance(a, ast.Attribute) and a.attr == "stem" for a in ast.walk(e))
    stem_attrs: Set[str] = set()
    for fn in fns:
        for st in ast.walk(fn):
            if isinstance(st, ast.Assign) and from_stem(st.value):
                for t in st.targets:
                    if isinstance(t, ast.Attribute) and isinstance(t.value, ast.Name) and t.value.id == "self":
                        stem_attrs.add(t.attr)
    out = []
    for fn in fns:
        for c in ast.walk(fn):
            if isinstance(c, ast.Call) and isinstance(c.func, ast.Attribute) and c.func.attr == "with_suffix":
                r = c.func.value
                bad = any(from_stem(x) for x in astq.expand_locals(r, fn)) or (
                    isinstance(r, ast.Attribute) and isinstance(r.value, ast.Name) and r.value.id == "self" and r.attr in stem_attrs)
                out.append((c, r, bad, fn))
    return out


_DOUBLE_STRIP_EXAMPLE = """
class P:
    def __init__(self, path):
        self.filename = Path(path.stem)
    def out(self):
        return self.filename.with_suffix(".html")
    def fine(self, path):
        return path.with_suffix(".html")
"""


def double_suffix_strip(ctx, rep, modules: Optional[Sequence[str]] = None, label: str = ""):
    """`p.stem` already is the name without its suffix; applying `.with_suffix(...)` to it replaces whatever follows the
    last remaining dot, so `notes.v1.md` and `notes.v2.md` both become `notes.html`.  Flags `.with_suffix()` whose receiver is
    (an attribute or local assigned from) an expression built on `.stem`.  The expected number of matches is zero, so the
    matcher is first run on a built-in example where it must find exactly one bad and one good site."""
    py = ctx.py
    ex = [n for n in ast.walk(ast.parse(_DOUBLE_STRIP_EXAMPLE)) if isinstance(n, ast.FunctionDef)]
    got = sorted(b for _c, _r, b, _f in _double_strip_sites(ex))
    if got != [False, True]:
        raise AnalysisError("double_suffix_strip: the matcher fails on its own example")
    n = 0
    groups = [(ci.module, list(ci.methods.values())) for ci in py.classes.values()]
    loose: Dict[str, List[ast.AST]] = {}
    for m, fn in py.all_functions():
        if py.enclosing_class(fn) is None:
            loose.setdefault(m, []).append(fn)
    groups += list(loose.items())
    inspected = 0
    for mod, fns in groups:
        if modules is not None and mod not in modules:
            continue
        inspected += len(fns)
        for c, r, bad, fn in _double_strip_sites(fns):
            n += 1
            rep.ob(f"{label}{py.qualname(fn)}: `{ast.unparse(c)[:50]}` replaces a real suffix", not bad,
                   "the receiver still carries the file's own suffix" if not bad else
                   f"`{ast.unparse(r)}` was built from `.stem` (the suffix is already gone): with_suffix() now cuts at the last dot of "
                   f"the stem, so `notes.v1.md` and `notes.v2.md` are both written to `notes.html`", py.nloc(c), nontrivial=bad)
    rep.ob(f"{label}no with_suffix() on a name whose suffix was already removed", True,
           f"{inspected} functions inspected, {n} with_suffix() call(s)", "ford/")
    return n + 1


# ------------------------------------------------------------------ a shallow copy shares the lists of the original
def _inplace_mutated_list_attrs(py, cls: str) -> Dict[str, ast.AST]:
    """list attributes of `cls` that some method of the class (or of a base) changes in place (element store, append, ...)"""
    out: Dict[str, ast.AST] = {}
    for c in py.mro(cls):
        ci = py.classes.get(c)
        if ci is None:
            continue
        for mname, m in ci.methods.items():
            if mname in ("__init__", "_initialize"):      # construction is over before the object can be copied
                continue
            for x in ast.walk(m):
                if isinstance(x, ast.Subscript) and isinstance(x.ctx, (ast.Store, ast.Del)) and isinstance(x.value, ast.Attribute) \
                        and isinstance(x.value.value, ast.Name) and x.value.value.id == "self":
                    out.setdefault(x.value.attr, x)
                if isinstance(x, ast.Call) and isinstance(x.func, ast.Attribute) and x.func.attr in MUTATORS and \
                        isinstance(x.func.value, ast.Attribute) and isinstance(x.func.value.value, ast.Name) and x.func.value.value.id == "self":
                    out.setdefault(x.func.value.attr, x)
    return {a: n for a, n in out.items() if is_list_attr(py, cls, a)}


_SHALLOW_EXAMPLE = """
class K:
    def __init__(self):
        self.items = []
    def fill(self):
        for i in range(3):
            self.items[i] = i
class U:
    def use(self, olds):
        for o in olds:
            c = copy.copy(o)
            c.parent = self
"""


def shallow_copy_sites(fn: ast.AST):
    """(assignment, copy variable, source expression) for `c = copy.copy(o)` in fn"""
    return [(st, st.targets[0].id, st.value.args[0]) for st in ast.walk(fn)
            if isinstance(st, ast.Assign) and len(st.targets) == 1 and isinstance(st.targets[0], ast.Name)
            and isinstance(st.value, ast.Call) and call_name(st.value) in ("copy.copy", "copy") and len(st.value.args) == 1]


def shallow_copy_shares_lists(ctx, rep, elem_class, label: str = ""):
    """`c = copy.copy(o)` shares o's list attributes.  If a method of o's class changes such a list in place, running it on
    the copy changes the original as well, unless the copy's attribute is re-bound to a list of its own first.
    `elem_class(fn, expr)` names the class of the copied object (from the collection it is taken from)."""
    py = ctx.py
    if len(shallow_copy_sites(ast.parse(_SHALLOW_EXAMPLE))) != 1:
        raise AnalysisError("shallow_copy_shares_lists: the matcher fails on its own example")
    n = 0
    for mod, fn in py.all_functions():
        for st, cvar, src in shallow_copy_sites(fn):
            cls = elem_class(fn, src)
            if cls is None:
                continue
            for attr, mut in sorted(_inplace_mutated_list_attrs(py, cls).items()):
                rebound = any(isinstance(a, ast.Assign) and a.lineno > st.lineno and any(
                    isinstance(t, ast.Attribute) and isinstance(t.value, ast.Name) and t.value.id == cvar and t.attr == attr
                    for t in a.targets) for a in ast.walk(fn))
                n += 1
                rep.ob(f"{label}{py.qualname(fn)}: copy of a {cls} gets its own `{attr}`", rebound,
                       "the list is re-bound on the copy before anything can change it" if rebound else
                       f"`{ast.unparse(st)}` is a shallow copy: `{cvar}.{attr}` is the very list of the original, and "
                       f"`{ast.unparse(mut)[:50]}` ({py.qualname(py.enclosing_function(mut))}) changes it in place - what is resolved for the "
                       f"copy overwrites the original's entries", py.nloc(st), nontrivial=not rebound)
    return n


# ------------------------------------------------------------------ field-by-field copies copy each field from its namesake
def _kw_copy_sites(fn: ast.AST):
    """calls that copy fields one by one, `f(a=src.a, b=src.b, c=src.c, ...)`: at least three keywords whose value is an
    attribute of one and the same object, at least two thirds of them under their own name"""
    out = []
    for c in ast.walk(fn):
        if not isinstance(c, ast.Call):
            continue
        pairs = [(k.arg, ast.unparse(k.value.value), k.value.attr, k) for k in c.keywords
                 if k.arg and isinstance(k.value, ast.Attribute)]
        by_src: Dict[str, list] = {}
        for p in pairs:
            by_src.setdefault(p[1], []).append(p)
        for src, ps in by_src.items():
            same = sum(1 for kw, _s, at, _k in ps if kw == at)
            if len(ps) >= 3 and same * 3 >= len(ps) * 2:
                out.append((c, src, ps))
    return out


_KW_COPY_EXAMPLE = """
def inherit(cls, project):
    return cls(graph=project.graph, depth=project.nodes, nodes=project.nodes, source=project.source)
"""


def keyword_copy_agreement(ctx, rep, modules: Optional[Sequence[str]] = None, label: str = "", exceptions=()):
    """In a call that copies settings field by field (`cls(graph=p.graph, graph_maxdepth=p.graph_maxdepth, ...)`) a keyword fed
    from a *different* attribute of the same source is the classic copy-and-paste slip: the field silently takes the value of
    its neighbour.  `exceptions`: (keyword, attribute) pairs that are meant to differ, each with a reason in the caller."""
    py = ctx.py
    ex = _kw_copy_sites(ast.parse(_KW_COPY_EXAMPLE))
    if len(ex) != 1 or sorted(kw for kw, _s, at, _k in ex[0][2] if kw != at) != ["depth"]:
        raise AnalysisError("keyword_copy_agreement: the matcher fails on its own example")
    n = 0
    for mod, fn in py.all_functions():
        if modules is not None and mod not in modules:
            continue
        for c, src, ps in _kw_copy_sites(fn):
            if py.enclosing_function(c) is not fn:
                continue
            for kw, _s, at, k in ps:
                n += 1
                ok = kw == at or (kw, at) in exceptions
                rep.ob(f"{label}{py.qualname(fn)}: `{kw}=` is copied from its namesake", ok,
                       f"{kw}={src}.{at}" if ok else
                       f"`{kw}={src}.{at}`: every other field of this call is copied from the attribute of the same name; this one "
                       f"takes the value of `{at}`, so the `{kw}` configured for the project is ignored", py.nloc(k.value),
                       nontrivial=not ok)
    return n


# ------------------------------------------------------------------ memoised functions do not hand out shared mutable state
_MUTATORS = {"append", "extend", "insert", "pop", "remove", "clear", "update", "setdefault", "sort", "reverse", "add", "discard",
             "popitem"}
_CACHE_DECOS = {"lru_cache", "cache", "functools.lru_cache", "functools.cache"}


def _is_cached(fn: ast.AST) -> bool:
    for d in getattr(fn, "decorator_list", []):
        t = ast.unparse(d.func if isinstance(d, ast.Call) else d)
        if t in _CACHE_DECOS:
            return True
    return False


def _returns_mutable(fn: ast.AST) -> Optional[ast.AST]:
    """a return expression that certainly builds a fresh mutable container (display, comprehension, list()/dict()/set(),
    json.load(s), .copy(), .split(), sorted())"""
    for r in ast.walk(fn):
        if not isinstance(r, ast.Return) or r.value is None:
            continue
        for v in astq.expand_locals(r.value, fn) + [r.value]:
            if isinstance(v, (ast.List, ast.Dict, ast.Set, ast.ListComp, ast.DictComp, ast.SetComp)):
                return v
            if isinstance(v, ast.Call):
                cn = call_name(v)
                if cn in ("list", "dict", "set", "sorted", "json.load", "json.loads", "tomllib.load", "tomllib.loads",
                          "defaultdict", "copy.copy", "copy.deepcopy") or cn.split(".")[-1] in ("copy", "split", "splitlines"):
                    return v
    return None


def _param_mutated(py, fn: ast.AST, param: str, depth: int = 0) -> Optional[ast.AST]:
    """a statement of fn (or, two levels deep, of a function it hands the value or one of its elements to) that changes the
    object bound to `param` in place"""
    names = {param}
    for st in ast.walk(fn):          # elements / views of the object
        if isinstance(st, (ast.For, ast.comprehension)) and isinstance(st.target, ast.Name):
            it = st.iter
            if isinstance(it, ast.Call) and isinstance(it.func, ast.Attribute) and it.func.attr in ("values", "items"):
                it = it.func.value
            if isinstance(it, ast.Name) and it.id in names:
                names.add(st.target.id)
        elif isinstance(st, ast.Assign) and len(st.targets) == 1 and isinstance(st.targets[0], ast.Name):
            v = st.value
            while isinstance(v, ast.Subscript):
                v = v.value
            if isinstance(v, ast.Name) and v.id in names and isinstance(st.value, ast.Subscript):
                names.add(st.targets[0].id)
    for st in ast.walk(fn):
        tg = []
        if isinstance(st, ast.Assign):
            tg = st.targets
        elif isinstance(st, (ast.AugAssign, ast.AnnAssign)):
            tg = [st.target]
        elif isinstance(st, ast.Delete):
            tg = st.targets
        for t in tg:
            if isinstance(t, ast.Subscript):
                b = t.value
                while isinstance(b, ast.Subscript):
                    b = b.value
                if isinstance(b, ast.Name) and b.id in names:
                    return st
        if isinstance(st, ast.Call) and isinstance(st.func, ast.Attribute) and st.func.attr in _MUTATORS:
            b = st.func.value
            while isinstance(b, ast.Subscript):
                b = b.value
            if isinstance(b, ast.Name) and b.id in names:
                return st
    if depth >= 2:
        return None
    for c in ast.walk(fn):
        if not isinstance(c, ast.Call):
            continue
        cn = call_name(c)
        tgt = None
        for cand in (cn, cn.split(".")[-1]):
            for mod in py.modules:
                if py.has_func(f"{mod}.{cand}"):
                    tgt = py.func(f"{mod}.{cand}")
                    break
            if tgt is not None:
                break
        if tgt is None:
            continue
        try:
            bound = astq.bind_args(c, tgt)
        except Exception:
            continue
        for pname, arg in bound.items():
            if isinstance(arg, ast.Name) and arg.id in names:
                hit = _param_mutated(py, tgt, pname, depth + 1)
                if hit is not None:
                    return hit
    return None


_CACHED_EXAMPLE = """
import functools, json
@functools.lru_cache(maxsize=None)
def load(path):
    return json.loads(path.read_text())
@functools.lru_cache
def pure(name):
    return name.lower()
def user(path):
    for entry in load(path):
        fix(entry)
def fix(d):
    d["url"] = d["url"][2:]
"""


def cached_mutable_result(ctx, rep, label: str = ""):
    """A function under `functools.lru_cache`/`cache` hands the *same object* to every caller.  If it builds a mutable
    container (parsed JSON, a list, a dict) and a caller changes that object in place, the second caller sees the first
    caller's edits - and the cache never notices that the underlying file changed."""
    py = ctx.py

    def sites(funcs, resolver):
        out = []
        for fn in funcs:
            if not _is_cached(fn):
                continue
            mut = _returns_mutable(fn)
            hit = None
            if mut is not None:
                for user in funcs:
                    for st in ast.walk(user):
                        holder = None
                        if isinstance(st, ast.Assign) and isinstance(st.value, ast.Call) and call_name(st.value).split(".")[-1] == fn.name \
                                and len(st.targets) == 1 and isinstance(st.targets[0], ast.Name):
                            holder = st.targets[0].id
                        elif isinstance(st, (ast.For, ast.comprehension)) and isinstance(st.iter, ast.Call) and \
                                call_name(st.iter).split(".")[-1] == fn.name and isinstance(st.target, ast.Name):
                            holder = st.target.id
                        if holder is not None:
                            hit = hit or resolver(user, holder)
            out.append((fn, mut, hit))
        return out

    class _Ex:       # the example is resolved against its own functions
        def __init__(self, tree):
            self.f = {n.name: n for n in tree.body if isinstance(n, ast.FunctionDef)}
            self.modules = {"ex": tree}
        def has_func(self, q):
            return q.split(".")[-1] in self.f
        def func(self, q):
            return self.f[q.split(".")[-1]]
    ext = ast.parse(_CACHED_EXAMPLE)
    exm = _Ex(ext)
    got = {fn.name: (mut is not None, hit is not None) for fn, mut, hit in
           sites(list(exm.f.values()), lambda u, h: _param_mutated(exm, u, h))}
    if got != {"load": (True, True), "pure": (False, False)}:
        raise AnalysisError(f"cached_mutable_result: the matcher fails on its own example ({got})")
    funcs = [fn for _m, fn in py.all_functions()]
    n = 0
    for fn, mut, hit in sites(funcs, lambda u, h: _param_mutated(py, u, h)):
        n += 1
        ok = hit is None
        rep.ob(f"{label}{py.qualname(fn)}: the memoised result is not changed by its callers", ok,
               "returns an immutable value" if mut is None else "the shared container is only read" if ok else
               f"`{ast.unparse(mut)[:50]}` is built once and shared by all callers, and `{ast.unparse(hit)[:60]}` "
               f"({py.nloc(hit)}) changes it in place: the next caller gets the already edited object", py.nloc(fn),
               nontrivial=mut is not None)
    rep.ob(f"{label}no memoised function hands out a container that a caller edits", True,
           f"{len(funcs)} functions inspected, {n} memoised", "ford/")
    return n + 1


# ------------------------------------------------------------------ equality is not coarser than what is displayed
_LOSSY = {"lower", "upper", "casefold", "strip", "lstrip", "rstrip", "title", "capitalize", "swapcase"}


def _identity_attrs(cls: ast.ClassDef) -> Set[str]:
    """attributes of self that __eq__/__hash__ are computed from"""
    out: Set[str] = set()
    for m in cls.body:
        if isinstance(m, ast.FunctionDef) and m.name in ("__eq__", "__hash__"):
            for a in ast.walk(m):
                if isinstance(a, ast.Attribute) and isinstance(a.value, ast.Name) and a.value.id == "self":
                    out.add(a.attr)
    return out


def _lossy_identity_sites(cls: ast.ClassDef):
    keys = _identity_attrs(cls)
    has = {m.name for m in cls.body if isinstance(m, ast.FunctionDef)}
    if not keys or not {"__eq__", "__hash__"} <= has:
        return []
    out = []
    for m in cls.body:
        if not isinstance(m, ast.FunctionDef):
            continue
        for st in ast.walk(m):
            if not (isinstance(st, ast.Assign) and len(st.targets) == 1):
                continue
            t = st.targets[0]
            if not (isinstance(t, ast.Attribute) and isinstance(t.value, ast.Name) and t.value.id == "self" and t.attr in keys):
                continue
            lossy = None
            for c in ast.walk(st.value):
                if isinstance(c, ast.Call) and isinstance(c.func, ast.Attribute) and c.func.attr in _LOSSY:
                    r = c.func.value
                    if isinstance(r, ast.Attribute) and isinstance(r.value, ast.Name) and r.value.id == "self" and r.attr not in keys:
                        lossy = (c, r.attr)
            out.append((m, st, lossy))
    return out


_LOSSY_EXAMPLE = """
class Node:
    def __init__(self, obj):
        self.name = obj
        self.ident = self.name.lower()
    def __eq__(self, other):
        return self.ident == other.ident
    def __hash__(self):
        return hash(self.ident)
class Fine:
    def __init__(self, obj):
        self.name = obj
        self.ident = self.name
    def __eq__(self, other):
        return self.ident == other.ident
    def __hash__(self):
        return hash(self.ident)
"""


def lossy_identity_key(ctx, rep, modules: Optional[Sequence[str]] = None, label: str = ""):
    """A class whose `__eq__`/`__hash__` use attribute K while another attribute N keeps the text K was derived from by a lossy
    method (`self.K = self.N.lower()`): two objects that differ only in N are equal, a set keeps whichever was inserted first,
    and - insertion order being the iteration order of another set - which spelling is displayed depends on PYTHONHASHSEED."""
    py = ctx.py
    ex = [c for c in ast.parse(_LOSSY_EXAMPLE).body if isinstance(c, ast.ClassDef)]
    got = sorted((c.name, l is not None) for c in ex for _m, _st, l in _lossy_identity_sites(c))
    if got != [("Fine", False), ("Node", True)]:
        raise AnalysisError(f"lossy_identity_key: the matcher fails on its own example ({got})")
    n = 0
    for mod, tree in py.modules.items():
        if modules is not None and mod not in modules:
            continue
        for cls in ast.walk(tree):
            if not isinstance(cls, ast.ClassDef):
                continue
            for m, st, lossy in _lossy_identity_sites(cls):
                n += 1
                ok = lossy is None
                rep.ob(f"{label}{cls.name}.{m.name}: identity key `{ast.unparse(st.targets[0])}` keeps what is displayed apart", ok,
                       ast.unparse(st)[:80] if ok else
                       f"`{ast.unparse(st)}`: objects that differ only in `self.{lossy[1]}` become equal while `self.{lossy[1]}` (the "
                       f"displayed text) keeps its spelling; which of them survives in a set depends on the order of insertion, "
                       f"i.e. on the iteration order of the set they came from (PYTHONHASHSEED)", py.nloc(st), nontrivial=not ok)
    return n


# ------------------------------------------------------------------ replacement templates of regex substitutions
def _closest_def(fn: ast.AST, name: str, before: ast.AST) -> Optional[ast.AST]:
    """value of the textually last plain assignment to `name` that precedes `before` in fn"""
    best = None
    for st in ast.walk(fn):
        if isinstance(st, ast.Assign) and len(st.targets) == 1 and isinstance(st.targets[0], ast.Name) and st.targets[0].id == name \
                and (st.lineno, st.col_offset) < (before.lineno, before.col_offset):
            if best is None or (st.lineno, st.col_offset) > (best.lineno, best.col_offset):
                best = st
    return best.value if best is not None else None


def _doubles_backslashes(e: ast.AST) -> bool:
    return isinstance(e, ast.Call) and isinstance(e.func, ast.Attribute) and (
        (e.func.attr == "replace" and len(e.args) >= 2 and all(isinstance(a, ast.Constant) for a in e.args[:2])
         and e.args[0].value == "\\" and e.args[1].value == "\\\\") or call_name(e) == "re.escape")


def _template_kind(py, fn: ast.AST, call: ast.Call, repl: ast.AST, depth: int = 0) -> str:
    """'const' | 'callable' | 'number' | 'escaped' | 'text' (arbitrary text used as a template)"""
    if isinstance(repl, ast.Constant):
        return "const"
    if isinstance(repl, ast.Lambda):
        return "callable"
    if isinstance(repl, ast.JoinedStr):
        kinds = [_template_kind(py, fn, call, v.value, depth + 1) for v in repl.values if isinstance(v, ast.FormattedValue)]
        return "text" if "text" in kinds else "const"
    if isinstance(repl, ast.BinOp) and isinstance(repl.op, (ast.Add, ast.Sub, ast.Mult)):
        ks = {_template_kind(py, fn, call, repl.left, depth + 1), _template_kind(py, fn, call, repl.right, depth + 1)}
        return "text" if "text" in ks else "escaped" if "escaped" in ks else "number" if ks == {"number"} else "const"
    if isinstance(repl, ast.Call):
        cn = call_name(repl)
        if cn in ("len", "int", "str") and (cn != "str" or all(_template_kind(py, fn, call, a, depth + 1) == "number" for a in repl.args)):
            return "number"
        if _doubles_backslashes(repl):
            return "escaped"
        # a helper whose every result has its backslashes doubled
        hq = f"{py.module_of(fn)}.{cn}" if hasattr(py, "func") and "." not in cn else None
        if hq and py.has_func(hq):
            h = py.func(hq)
            rets = [r.value for r in ast.walk(h) if isinstance(r, ast.Return) and r.value is not None]
            if rets and all(_doubles_backslashes(r) or (isinstance(r, ast.Name) and (lambda d: d is not None and _doubles_backslashes(d))(
                    _closest_def(h, r.id, r))) for r in rets):
                return "escaped"
        if isinstance(repl.func, ast.Attribute) and repl.func.attr == "format" and isinstance(repl.func.value, ast.Constant):
            ks = {_template_kind(py, fn, call, a, depth + 1) for a in list(repl.args) + [k.value for k in repl.keywords]}
            return "text" if "text" in ks else "const"
        return "text"
    if isinstance(repl, ast.Attribute):
        # a bound method (self._lookup) is a callable; a data attribute is text
        cls = py.enclosing_class(fn)
        if isinstance(repl.value, ast.Name) and repl.value.id in ("self", "cls") and cls and repl.attr in py.cls(cls).methods:
            return "callable"
        return "text"
    if isinstance(repl, ast.Name) and depth < 6:
        if any(isinstance(n, (ast.FunctionDef, ast.Lambda)) and getattr(n, "name", None) == repl.id for n in ast.walk(fn)) or \
                py.has_func(f"{py.module_of(fn)}.{repl.id}"):
            return "callable"
        d = _closest_def(fn, repl.id, call)
        if d is None:
            return "text"
        if _doubles_backslashes(d):
            return "escaped"
        return _template_kind(py, fn, call, d, depth + 1)
    if isinstance(repl, ast.Constant):
        return "const"
    return "text"


_SUB_EXAMPLE = """
def restore(text, strings, R):
    s = strings[0]
    bad = R.sub(s, text, count=1)
    s = s.replace("\\\\", "\\\\\\\\")
    good = R.sub(s, text, count=1)
    also = R.sub(f'"{len(strings) - 1}"', text)
    return bad, good, also
"""


def sub_template_escaped(ctx, rep, modules: Optional[Sequence[str]] = None, label: str = ""):
    """`pattern.sub(repl, s)` interprets backslashes (and `\\g<..>`) in a *string* `repl`.  Text that comes from the documented
    source (a character literal put back in place of its placeholder) is therefore only a valid template after its backslashes
    were doubled; otherwise `'a\\d'` raises re.error ("bad escape") and `'C:\\new'` silently turns into a line feed."""
    py = ctx.py
    exf = ast.parse(_SUB_EXAMPLE).body[0]

    class _P:        # minimal stand-in for the example
        def enclosing_class(self, fn):
            return None
        def has_func(self, q):
            return False
        def module_of(self, fn):
            return "ex"
    got = []
    for c in ast.walk(exf):
        if isinstance(c, ast.Call) and isinstance(c.func, ast.Attribute) and c.func.attr == "sub":
            got.append(_template_kind(_P(), exf, c, c.args[0]))
    if got != ["text", "escaped", "const"]:
        raise AnalysisError(f"sub_template_escaped: the matcher fails on its own example ({got})")
    n = 0
    for mod, fn in py.all_functions():
        if modules is not None and mod not in modules:
            continue
        for c in ast.walk(fn):
            if not (isinstance(c, ast.Call) and isinstance(c.func, ast.Attribute) and c.func.attr in ("sub", "subn")):
                continue
            if py.enclosing_function(c) is not fn:
                continue
            is_re = call_name(c) in ("re.sub", "re.subn")
            args = c.args[1:] if is_re else c.args
            repl = args[0] if args else next((k.value for k in c.keywords if k.arg == "repl"), None)
            if repl is None:
                continue
            n += 1
            kind = _template_kind(py, fn, c, repl)
            ok = kind != "text"
            rep.ob(f"{label}{py.qualname(fn)}: template `{ast.unparse(repl)[:40]}` of `{ast.unparse(c.func)[:30]}`", ok,
                   {"const": "constant template", "callable": "replacement function", "number": "a number",
                    "escaped": "backslashes doubled before use"}.get(kind, "") if ok else
                   f"`{ast.unparse(repl)[:50]}` is text taken from the source and used as a replacement *template*: a literal such "
                   f"as 'a\\\\d' makes FORD fail with re.error (bad escape), 'C:\\\\new' is changed into a line feed", py.nloc(c),
                   nontrivial=kind in ("text", "escaped"))
    return n



# ---------------------------------------------------------------------------------------------------------------------
# a capture group in front of a literal separator: which occurrence of the separator ends it
def greedy_groups_before_literal(pattern: str, flags: int):
    """[(group number, separator text, offending repeat)] for every capture group that is directly followed by literal text and
    whose own body contains a *greedy* unbounded repeat able to match the first character of that text: on input that contains
    the separator twice the group runs to the LAST occurrence (a lazy repeat, or a repeat that excludes the character, stops
    at the first)."""
    import re._parser as sre
    tree = sre.parse(pattern, flags)
    items = list(tree)
    out = []

    def can_match(op, av, ch: int) -> bool:
        o = str(op)
        if o == "ANY":
            return True
        if o == "LITERAL":
            return av == ch
        if o == "NOT_LITERAL":
            return av != ch
        if o == "IN":
            neg = any(str(x[0]) == "NEGATE" for x in av)
            hit = False
            for x in av:
                k = str(x[0])
                if k == "LITERAL" and x[1] == ch:
                    hit = True
                elif k == "RANGE" and x[1][0] <= ch <= x[1][1]:
                    hit = True
                elif k == "CATEGORY":
                    c = chr(ch)
                    cat = str(x[1])
                    hit = hit or {"CATEGORY_WORD": c.isalnum() or c == "_", "CATEGORY_DIGIT": c.isdigit(), "CATEGORY_SPACE": c.isspace(),
                                  "CATEGORY_NOT_WORD": not (c.isalnum() or c == "_"), "CATEGORY_NOT_DIGIT": not c.isdigit(),
                                  "CATEGORY_NOT_SPACE": not c.isspace()}.get(cat, True)
            return hit != neg
        if o == "SUBPATTERN":
            return any(can_match(o2, a2, ch) for o2, a2 in av[3])
        if o in ("MAX_REPEAT", "MIN_REPEAT"):
            return any(can_match(o2, a2, ch) for o2, a2 in av[2])
        if o == "BRANCH":
            return any(can_match(o2, a2, ch) for alt_ in av[1] for o2, a2 in alt_)
        return True
    for i, (op, av) in enumerate(items):
        if str(op) != "SUBPATTERN" or av[0] is None:
            continue
        sep = ""
        j = i + 1
        while j < len(items) and str(items[j][0]) == "LITERAL":
            sep += chr(items[j][1])
            j += 1
        if not sep:
            continue
        for o2, a2 in av[3]:
            if str(o2) == "MAX_REPEAT" and a2[1] > 1 and any(can_match(o3, a3, ord(sep[0])) for o3, a3 in a2[2]):
                out.append((av[0], sep, o2))
    return out



# ---------------------------------------------------------------------------------------------------------------------
# names are compared case-insensitively on BOTH sides
_MIXED_EXAMPLE = """
def bad(self, bp):
    own = {b.name.lower() for b in self.boundprocs}
    return bp.name not in own
def bad2(self, bp, other):
    return bp.name == other.name.lower()
def good(self, bp):
    own = {b.name.lower() for b in self.boundprocs}
    return bp.name.lower() not in own
def good2(self, bp, other):
    return bp.name.lower() == other.name.lower()
def bad3(self, bp):
    own = {b.name for b in self.boundprocs}
    return bp.name not in own
"""


def _mixed_case_comparisons(fn: ast.AST):
    from .. import astq
    out = []

    def raw_name(e) -> bool:
        return isinstance(e, ast.Attribute) and e.attr == "name" and not (isinstance(e.value, ast.Attribute) and e.value.attr == "parent"
                                                                           and "path" in ast.unparse(e).lower())

    def raw_name_collection(e) -> bool:
        for x in [e] + astq.expand_locals(e, fn):
            for n in ast.walk(x):
                if isinstance(n, (ast.SetComp, ast.ListComp, ast.GeneratorExp)) and raw_name(n.elt):
                    return True
                if isinstance(n, ast.DictComp) and raw_name(n.key):
                    return True
        return False
    for c in ast.walk(fn):
        if not (isinstance(c, ast.Compare) and len(c.ops) == 1 and isinstance(c.ops[0], (ast.In, ast.NotIn, ast.Eq, ast.NotEq))):
            continue
        l, r = c.left, c.comparators[0]
        # two names as written (`bp.name not in {b.name for b in own}` / `a.name == b.name`) compare case-sensitively
        if raw_name(l) and ((raw_name(r) and ast.unparse(l.value) != ast.unparse(r.value)) or
                            (isinstance(c.ops[0], (ast.In, ast.NotIn)) and raw_name_collection(r))):
            out.append((c, l, r))
            continue
        for a, b in ((l, r), (r, l)):
            if isinstance(a, ast.Attribute) and a.attr == "name" and not isinstance(b, ast.Constant):
                srcs = [b] + astq.expand_locals(b, fn)
                if any(".lower()" in ast.unparse(x) or ".casefold()" in ast.unparse(x) for x in srcs):
                    out.append((c, a, b))
                    break
    return out


def mixed_case_name_comparisons(ctx, rep, modules: Sequence[str] = ("sourceform", "fortran_project", "external_project"), label: str = ""):
    """Fortran names are case-insensitive and FORD keeps them as written, so two names are compared after lower-casing BOTH.  A
    comparison (==, in) between a name as written (`x.name`) and something that was lower-cased (a set of `.lower()`ed names, a
    lower-cased key) only works while the source happens to be written in lower case."""
    py = ctx.py
    ex = ast.parse(_MIXED_EXAMPLE)
    got = {f.name: len(_mixed_case_comparisons(f)) for f in ex.body if isinstance(f, ast.FunctionDef)}
    if got != {"bad": 1, "bad2": 1, "good": 0, "good2": 0, "bad3": 1}:
        raise AnalysisError(f"mixed-case comparison matcher fails on its own example: {got}")
    n = k = 0
    for mod, fn in py.all_functions():
        if mod not in modules:
            continue
        n += 1
        for c, a, b in _mixed_case_comparisons(fn):
            if py.enclosing_function(c) is not fn:
                continue
            k += 1
            rep.ob(f"{py.qualname(fn)}: `{ast.unparse(c)[:60]}`", False,
                   f"`{ast.unparse(a)}` is the name as written in the source, `{ast.unparse(b)[:40]}` is "
                   f"{'lower-cased' if '.lower()' in ast.unparse(b) or any('.lower()' in ast.unparse(x) for x in astq.expand_locals(b, fn)) else 'made of names as written too'}: "
                   f"`Area` and `area` do not compare equal, so an entity written with capitals is not recognised as the same one", py.nloc(c))
    rep.ob(f"{label}names are lower-cased on both sides of a comparison", k == 0, f"{n} functions inspected", "ford/sourceform.py")
    return n
