"""C05 — the site documents exactly the entities selected by the display options (structural clauses)."""
from __future__ import annotations

import ast
import re
from typing import Dict, List, Optional, Set, Tuple

from ..core import AnalysisError, RuleSpec
from ..pymodel import PyModel, call_name
from .. import astq
from . import c09

EXPLANATION = (
    "Cross-artifact rules between the prune() methods, Project.correlate/_fortran_file and the page "
    "templates. R1 (prune coverage): for every page template and each concrete payload class, every "
    "child collection that the template body renders and whose members carry a permission is assigned "
    "through filter_display (or emptied) on every path of that class's prune(). R2: every project-level "
    "list that becomes pages is filled from nested containers only after the prune loop. R3: every "
    "href built from another entity's get_url() is guarded by that entity's visibility or iterates a "
    "pruned collection; str(entity) and graph node URLs are guarded by `visible` (shared with C09.R6). "
    "R4: _should_display consults hide_undoc and display; _set_display recognises all three "
    "permission words and `none`, and inherits from the parent; the proc_internals branch of prune "
    "applies to every class whose obj is 'proc' and empties every rendered child list. Absence of text "
    "leaks through every rendering path is not decided."
    ' R5: graph links are visibility-gated and a structure constructor follows its type. The prune() methods are executed symbolically (assignments, setattr with constant names, loops over constant name tuples, inlined helper methods; undecidable guards fork the path).'
    " Added after waves 6/7 - links built in Python / hrefs set on link elements are produced only after a test of `visible`; hrefs nested in attributes are covered; repeated `display:` lines accumulate; members are marked visible only after the display filter."
)
ASSUMPTIONS = ["element classes of child lists are those in LIST_ELEM (cross-checked against the constructor calls in the dispatch loop)"]

# child list -> class of its elements (reviewed; each class name must still exist)
LIST_ELEM = {
    "functions": "FortranFunction", "subroutines": "FortranSubroutine", "types": "FortranType",
    "interfaces": "FortranInterface", "absinterfaces": "FortranModuleProcedureInterface",
    "variables": "FortranVariable", "enums": "FortranEnum", "common": "FortranCommon",
    "namelists": "FortranNamelist", "boundprocs": "FortranBoundProcedure",
    "finalprocs": "FortranFinalProc", "modprocedures": "FortranModuleProcedureImplementation",
    "modfunctions": "FortranFunction", "modsubroutines": "FortranSubroutine",
    "modprocs": "FortranModuleProcedureReference", "args": "FortranVariable",
}
# lists that are deliberately always shown, with the reason
# collections kept on the `proc_internals: false` path of prune(), with the reason
KEPT_WITHOUT_INTERNALS = {
    "common": "a common block is global storage shared with other units, not a local declaration",
    "namelists": "namelist groups are part of the procedure's I/O interface; they have their own pages",
}
ALWAYS_SHOWN = {
    "args": "dummy arguments are part of the procedure's own documentation",
    "modprocs": "module-procedure references of a generic interface are shown with the interface",
}


def has_permission(py, cls: str) -> bool:
    return "permission" in py.init_attrs(cls, stop_at_loop=False) or "permission" in py.class_level_names(cls)


def prune_paths(py, cls: str) -> Optional[List[Tuple[str, Dict[str, str]]]]:
    """[(path label, {attr: 'filtered'|'emptied'|'other'})] for the prune() that runs for cls.

    A small symbolic execution of prune(): assignments to self.<attr>, setattr(self, <constant name>, v), loops over
    constant name tuples (unrolled) and calls of the class's own helper methods (inlined with their arguments bound,
    including *CONSTANT_TUPLE) are followed; guards are decided for the concrete class where possible."""
    r = py.resolve_method(cls, "prune")
    if r is None:
        return None
    owner, fn = r
    paths: List[Tuple[str, Dict[str, str]]] = []
    menv = py.module_env(py.classes[owner].module)
    U = PyModel._UNKNOWN

    def classify(v: ast.AST, env: Dict[str, object], locals_: Dict[str, ast.AST]) -> str:
        seen = set()
        todo = [v]
        while todo:
            x = todo.pop()
            for n in ast.walk(x):
                if isinstance(n, ast.Call) and call_name(n).endswith("filter_display"):
                    return "filtered"
                if isinstance(n, ast.Name) and n.id in locals_ and n.id not in seen:
                    seen.add(n.id)
                    todo.append(locals_[n.id])
        if isinstance(v, ast.List) and not v.elts:
            return "emptied"
        return "other"

    class St:
        __slots__ = ("acc", "label", "env", "loc")

        def __init__(self, acc, label, env, loc):
            self.acc, self.label, self.env, self.loc = acc, label, env, loc

        def fork(self, suffix=""):
            return St(dict(self.acc), self.label + suffix, dict(self.env), dict(self.loc))

    def run(stmts, states: List["St"], depth: int) -> List["St"]:
        """executes stmts on every live state (forking at undecidable guards); returns the states still live"""
        for st in stmts:
            if not states:
                return states
            if isinstance(st, ast.Expr) and isinstance(st.value, ast.Constant):
                continue
            if isinstance(st, ast.If):
                nxt: List[St] = []
                for s0 in states:
                    allow = guard_value(py, cls, st.test, s0.loc)
                    ttxt = ast.unparse(s0.loc[st.test.id] if isinstance(st.test, ast.Name) and st.test.id in s0.loc else st.test)[:90]
                    if allow is not False:
                        nxt += run(st.body, [s0.fork("/" + ttxt) if allow is None else s0], depth)
                    if allow is not True:
                        s1 = s0.fork("/not " + ttxt) if allow is None else s0
                        nxt += run(st.orelse, [s1], depth) if st.orelse else [s1]
                states = nxt
                continue
            if isinstance(st, ast.Return):
                if depth == 0:
                    for s0 in states:
                        paths.append((s0.label, dict(s0.acc)))
                return []
            if isinstance(st, (ast.Assign, ast.AnnAssign)) and getattr(st, "value", None) is not None:
                tg = st.targets if isinstance(st, ast.Assign) else [st.target]
                for s0 in states:
                    for t in tg:
                        if isinstance(t, ast.Attribute) and isinstance(t.value, ast.Name) and t.value.id == "self":
                            s0.acc[t.attr] = classify(st.value, s0.env, s0.loc)
                        elif isinstance(t, ast.Name):
                            s0.loc[t.id] = st.value
                            v = py.eval_const(st.value, {**menv, **s0.env})
                            if v is not U:
                                s0.env[t.id] = v
                            else:
                                s0.env.pop(t.id, None)
                continue
            if isinstance(st, ast.For) and isinstance(st.target, ast.Name):
                nxt = []
                for s0 in states:
                    seq = py.eval_const(st.iter, {**menv, **s0.env})
                    live = [s0]
                    if seq is not U and isinstance(seq, (tuple, list)):
                        for x in seq:
                            for l in live:
                                l.env[st.target.id] = x
                            live = run(st.body, live, depth)
                    nxt += live
                states = nxt
                continue
            if isinstance(st, ast.Expr) and isinstance(st.value, ast.Call):
                c = st.value
                cn = call_name(c)
                if cn == "setattr" and len(c.args) == 3 and ast.unparse(c.args[0]) == "self":
                    for s0 in states:
                        name = py.eval_const(c.args[1], {**menv, **s0.env})
                        if isinstance(name, str):
                            s0.acc[name] = classify(c.args[2], s0.env, s0.loc)
                    continue
                if isinstance(c.func, ast.Attribute) and isinstance(c.func.value, ast.Name) and c.func.value.id == "self" and depth < 2:
                    h = py.resolve_method(cls, c.func.attr)
                    if h is not None and h[1] is not fn and c.func.attr not in ("filter_display",):
                        hd = h[1]
                        params = [a.arg for a in hd.args.args][1:]
                        nxt = []
                        for s0 in states:
                            vals: List[object] = []
                            known = True
                            for a in c.args:
                                if isinstance(a, ast.Starred):
                                    v = py.eval_const(a.value, {**menv, **s0.env})
                                    if v is U or not isinstance(v, (tuple, list)):
                                        known = False
                                        break
                                    vals.extend(v)
                                else:
                                    v = py.eval_const(a, {**menv, **s0.env})
                                    if v is U:
                                        known = False
                                        break
                                    vals.append(v)
                            if not known:
                                nxt.append(s0)
                                continue
                            env2: Dict[str, object] = {}
                            for i, pn in enumerate(params):
                                if i < len(vals):
                                    env2[pn] = vals[i]
                            if hd.args.vararg is not None:
                                env2[hd.args.vararg.arg] = tuple(vals[len(params):])
                            inner = St(s0.acc, s0.label, env2, {})
                            run(hd.body, [inner], depth + 1)
                            nxt.append(s0)
                        states = nxt
                continue
        return states

    for s0 in run(fn.body, [St({}, "prune", {}, {})], 0):
        paths.append((s0.label, dict(s0.acc)))
    if not paths:
        paths.append(("prune", {}))
    return paths


def guard_value(py, cls: str, test: ast.AST, locals_: Optional[Dict[str, ast.AST]] = None) -> Optional[bool]:
    """True/False when decidable for the concrete class, else None."""
    myobj = c09.obj_value(py, cls)
    if isinstance(test, ast.Name) and locals_ and test.id in locals_:
        return guard_value(py, cls, locals_[test.id], locals_)
    if isinstance(test, ast.BoolOp) and isinstance(test.op, ast.And):
        vals = [guard_value(py, cls, v, locals_) for v in test.values]
        if any(v is False for v in vals):
            return False
        if all(v is True for v in vals):
            return True
        return None
    if isinstance(test, ast.Compare) and len(test.ops) == 1 and isinstance(test.ops[0], ast.Eq) \
            and ast.unparse(test.left) == "self.obj" and isinstance(test.comparators[0], ast.Constant):
        return None if myobj is None else (myobj == test.comparators[0].value)
    if isinstance(test, ast.Call) and isinstance(test.func, ast.Name) and test.func.id == "isinstance" \
            and len(test.args) == 2 and ast.unparse(test.args[0]) == "self":
        ks = test.args[1].elts if isinstance(test.args[1], ast.Tuple) else [test.args[1]]
        names = [k.id for k in ks if isinstance(k, ast.Name)]
        if names and all(n in py.classes for n in names):
            return any(py.is_subclass(cls, n) for n in names)
    return None


def rendered_collections(ctx, tpl: str, key: str) -> Dict[str, str]:
    """child collections of the payload that the page body renders (outside the sidebar) -> location."""
    outs, _ = ctx.j.expand(tpl)
    out: Dict[str, str] = {}
    for o in outs:
        if "sidebar" in o.macros or "<in-test>" in o.macros:
            continue
        m = re.match(re.escape(key) + r"\.(\w+)\[\*\]", o.sym)
        if m:
            out.setdefault(m.group(1), o.loc)
        for m in re.finditer(r"(?<![\w.])" + re.escape(key) + r"\.(\w+)\[\*\]", o.sym):
            out.setdefault(m.group(1), o.loc)
    return out


def r1_prune_coverage(ctx, rep):
    py = ctx.py
    for c in set(LIST_ELEM.values()):
        py.cls(c)
    pages = c09.doc_pages(py)
    for pcls, (tpl, key) in sorted(pages.items()):
        rendered = rendered_collections(ctx, tpl, key)
        for cls in c09.PAGE_PAYLOAD_CLASSES[pcls]:
            paths = prune_paths(py, cls)
            if paths is None:
                continue   # class has no prune(): its page lists top-level units only
            owned = c09.all_self_attrs(py, cls)
            for coll, loc in sorted(rendered.items()):
                if coll not in LIST_ELEM or coll not in owned:
                    continue
                if coll in ALWAYS_SHOWN:
                    rep.ob(f"class={cls} page={tpl} collection={coll}", True, "exempt: " + ALWAYS_SHOWN[coll],
                           loc, nontrivial=False)
                    continue
                if not has_permission(py, LIST_ELEM[coll]):
                    rep.ob(f"class={cls} page={tpl} collection={coll}", True,
                           f"exempt: {LIST_ELEM[coll]} instances carry no permission (not selectable by display)",
                           loc, nontrivial=False)
                    continue
                missing = [lbl for lbl, acc in paths if acc.get(coll) not in ("filtered", "emptied")
                           and not (coll in KEPT_WITHOUT_INTERNALS and any(
                               "proc_internals" in seg and not seg.startswith("not ") for seg in lbl.split("/")))]
                ok = not missing
                rep.ob(f"class={cls} page={tpl} collection={coll}", ok,
                       (f"{cls}.prune assigns self.{coll} through filter_display/[] on every path" if ok else
                        f"{tpl} renders {key}.{coll} but {cls}.prune() leaves self.{coll} unfiltered on path(s) "
                        f"{missing}: members excluded by `display`/`hide_undoc` are still documented"),
                       py.nloc(py.resolve_method(cls, "prune")[1]))


def _visible_after_filter(ctx, rep):
    """`visible` is what links and list pages go by; members of a collection are marked visible only *after* the collections have
    been passed through the display filter - marking them first leaves filtered-out members visible (links to their pages,
    which are never written).  Decided on the order of events in prune() with its helpers inlined."""
    py = ctx.py
    n = 0
    for cname, ci in sorted(py.classes.items()):
        if "prune" not in ci.methods or ci.module != "sourceform":
            continue
        fn = ci.methods["prune"]
        ev = astq.trace(fn, astq.class_method_resolver(py, cname, "sourceform"))
        filters = [i for i, e in enumerate(ev) if e.kind in ("call", "inline") and isinstance(e.node, ast.Call) and call_name(e.node).split(".")[-1] == "filter_display"]
        marks = [i for i, e in enumerate(ev) if e.kind == "assign" and e.target and e.target.endswith(".visible")
                 and isinstance(e.value, ast.Constant) and e.value.value is True and not e.target.startswith("self.")]
        if not filters or not marks:
            continue
        n += 1
        ok = max(filters) < min(marks)
        first = ev[min(marks)]
        # ... and what is marked are the members that are left: a local bound to the collections *before* they were filtered
        # (`members = chain(self.boundprocs, self.variables)` ... filter ... `for obj in members`) still holds the old lists
        if ok:
            for i in marks:
                e = ev[i]
                loop = e.loops[-1] if e.loops else None
                it = loop.iter if isinstance(loop, ast.For) else None
                names = [x.id for x in ast.walk(it) if isinstance(x, ast.Name)] if it is not None else []
                for nm in names:
                    bound = [k for k, a in enumerate(ev) if a.kind == "assign" and a.target == nm and a.value is not None
                             and any(isinstance(y, ast.Attribute) and ast.unparse(y.value) == "self" for y in ast.walk(a.value))]
                    if bound and max(bound) < max(filters):
                        ok = False
                        first = ev[max(bound)]
        rep.ob(f"{cname}.prune: members are marked visible after the display filter", ok,
               "filter first, then mark what is left" if ok else
               f"`{ast.unparse(first.node)[:50]}` runs before the last `filter_display(...)` of prune(): members that `display` "
               f"removes stay visible, so pages that still mention them link to a page that is never written", py.nloc(first.node))
    if n < 1:
        raise AnalysisError("no prune() that both filters and marks members visible found")


def r2_lists_after_prune(ctx, rep):
    py = ctx.py
    _visible_after_filter(ctx, rep)
    fn = py.func("Project.correlate")
    prune_line = None
    for n in ast.walk(fn):
        if isinstance(n, ast.For) and any(call_name(c).endswith(".prune") for c in py.walk_calls(n)):
            prune_line = n.lineno
    if prune_line is None:
        raise AnalysisError("Project.correlate: prune loop not found")
    # gather loop (CONTAINERS) must come after
    for n in ast.walk(fn):
        if isinstance(n, ast.For) and "CONTAINERS.items()" in ast.unparse(n.iter):
            ok = n.lineno > prune_line
            rep.ob("Project.correlate: entity lists gathered after prune", ok,
                   "the CONTAINERS gather loop follows the prune loop" if ok else
                   "project-level entity lists are gathered before pruning", py.nloc(n))
    # every other registration into a project list inside correlate (directly or through a local helper) comes after prune
    helpers = {n.name: n for n in ast.walk(fn) if isinstance(n, ast.FunctionDef) and n is not fn}
    def in_helper(node):
        for h in helpers.values():
            if any(x is node for x in ast.walk(h)):
                return h
        return None
    for c in py.walk_calls(fn):
        m = re.fullmatch(r"self\.(\w+)\.(append|extend)", call_name(c))
        if not m or m.group(1).startswith("ext"):
            continue
        lst = m.group(1)
        h = in_helper(c)
        if h is None:
            lines = [c.lineno]
        else:
            lines = [k.lineno for k in py.walk_calls(fn) if call_name(k) == h.name and in_helper(k) is not h]
            if not lines:
                raise AnalysisError(f"Project.correlate: helper {h.name} is never called")
        ok = min(lines) > prune_line
        rep.ob(f"Project.correlate: self.{lst} filled after prune", ok,
               f"registration at line(s) {lines} follows the prune loop (line {prune_line})" if ok else
               f"self.{lst} is filled before prune(): entities that display/proc_internals hide still get pages and list entries",
               py.nloc(c))
    # the prune pass reaches every kind of program unit that has a prune(): the guard of the loop (whatever it tests - "not a
    # name left unresolved", a class, the presence of the method) holds for each class a source file can contain
    units = sorted({c.cls for arm in ctx.cascade.arms for c in arm.constructs
                    if c.dest and set(c.dest.split("|")) & py.hasattr_set("FortranSourceFile") and c.cls in py.classes
                    and py.resolve_method(c.cls, "prune") is not None})
    if len(units) < 4:
        raise AnalysisError(f"program unit classes with a prune() not found ({units})")
    for e in astq.trace(fn):
        if not (e.kind == "call" and call_name(e.node).endswith(".prune") and e.loops):
            continue
        var = call_name(e.node).rsplit(".", 1)[0]
        for cls in units:
            def atom(x, cls=cls):
                if isinstance(x, ast.Call) and call_name(x) == "isinstance" and len(x.args) == 2 and ast.unparse(x.args[0]) == var:
                    ks = x.args[1].elts if isinstance(x.args[1], ast.Tuple) else [x.args[1]]
                    names = [ast.unparse(k) for k in ks]
                    if all(k in py.classes or k in ("str", "int", "type(None)", "bytes") for k in names):
                        return ("isa", any(k in py.classes and py.is_subclass(cls, k) for k in names))
                if isinstance(x, ast.Call) and call_name(x) == "hasattr" and len(x.args) == 2 and ast.unparse(x.args[0]) == var and \
                        isinstance(x.args[1], ast.Constant):
                    return ("has", x.args[1].value in py.all_attrs(cls) if hasattr(py, "all_attrs") else True)
                return None
            # atoms come back with the truth value they have for this class: the path must be open under "all true"
            fires = astq.event_fires(e, atom, {"isa": True, "has": True})
            ok = fires is not False
            rep.ob(f"Project.correlate: the prune pass reaches {cls}", ok,
                   "the guard of the prune loop holds for this class" if ok else
                   f"`{var}.prune()` runs under {e.cond_texts()}, which is false for a {cls}: its members that `display` / "
                   f"`hide_undoc` exclude keep their documentation on its page and in the search index", py.nloc(e.node))
    # correlate before prune
    corr = [n.lineno for n in ast.walk(fn) if isinstance(n, ast.For)
            and any(call_name(c).endswith(".correlate") for c in py.walk_calls(n))]
    ok = bool(corr) and min(corr) < prune_line
    rep.ob("Project.correlate: correlate loop precedes prune loop", ok, "correlation completes before pruning",
           py.nloc(fn))
    # _fortran_file: only top-level units of the new file may be registered
    ff = py.func("Project._fortran_file")
    top = set()
    for n in ast.walk(ff):
        if isinstance(n, ast.For) and isinstance(n.target, ast.Name) and \
                ast.unparse(n.iter).startswith("new_file."):
            top.add(n.target.id)
    for c in py.walk_calls(ff):
        cn = call_name(c)
        m = re.fullmatch(r"self\.(\w+)\.(append|extend)", cn)
        if not m or not c.args:
            continue
        lst = m.group(1)
        arg = c.args[0]

        def top_level(e: ast.AST, depth: int = 0) -> bool:
            """the value consists of the new file itself or of units taken directly from one of its lists (`new_file.<list>`),
            however they are put together (loop variable, extend, [*a, *b], a + b, chain(a, b), a local holding any of these)"""
            if depth > 5:
                return False
            if isinstance(e, ast.Name):
                if e.id in top or e.id == "new_file":
                    return True
                alts = [v for _st, v in astq.assignments(ff, e.id) if v is not None]
                return bool(alts) and all(top_level(a, depth + 1) for a in alts)
            if isinstance(e, ast.Attribute):
                return isinstance(e.value, ast.Name) and e.value.id == "new_file"
            if isinstance(e, ast.Starred):
                return top_level(e.value, depth + 1)
            if isinstance(e, (ast.List, ast.Tuple)):
                return bool(e.elts) and all(top_level(x, depth + 1) for x in e.elts)
            if isinstance(e, ast.BinOp) and isinstance(e.op, ast.Add):
                return top_level(e.left, depth + 1) and top_level(e.right, depth + 1)
            if isinstance(e, ast.Call) and call_name(e).split(".")[-1] in ("list", "chain", "sorted", "tuple") and e.args:
                return all(top_level(a, depth + 1) for a in e.args)
            return False
        ok = top_level(arg)
        rep.ob(f"Project._fortran_file registers into {lst}: {ast.unparse(arg)[:40]}", ok,
               ("a top-level unit of the file (always documented)" if ok else
                f"self.{lst} is filled at parse time from nested entities ({ast.unparse(arg)[:60]}), i.e. before "
                f"prune(): entities of hidden parents (private procedures, proc_internals off) still get pages "
                f"and list entries"), py.nloc(c))


def r3_links_to_visible(ctx, rep):
    j = ctx.j
    _lines: Dict[str, List[str]] = {}

    def tpl_lines(name: str) -> List[str]:
        if name not in _lines:
            _lines[name] = (ctx.py.root / "ford" / "templates" / name).read_text(encoding="utf-8").splitlines()
        return _lines[name]
    seen = set()
    for tpl in c09.all_page_templates(ctx):
        outs, _ = j.expand(tpl)
        for o in outs:
            if ".get_url()" not in o.sym or "<in-test>" in o.macros:
                continue
            if o.ctx != ("attr", "href"):
                # HTML kept inside another attribute (`data-bs-content="<a href=...>"`, the common-block popover) is not seen as
                # markup by the template model: recognise the href by the literal text in front of the output
                try:
                    src_line = tpl_lines(o.template)[o.lineno - 1]
                except Exception:
                    continue
                if not re.search(r"href=[\"'][^\"'>]*\{\{\s*" + re.escape(o.src.split("|")[0].strip()), src_line):
                    continue
            key = (o.template, o.lineno)
            if key in seen:
                continue
            seen.add(key)
            m = re.search(r"([\w.\[\]*]+)\.get_url\(\)", o.src) or re.search(r"([\w.\[\]*]+)\.get_url\(\)", o.sym)
            target = m.group(1) if m else o.src
            conds = " & ".join(c[0] for c in o.conds if c[1])
            rawconds = " & ".join(c09.sym(c[2]) for c in o.conds if c[1])
            construct = f"template={o.template} href={o.src[:60]}"
            if o.macros and o.macros[-1] in ("content_list", "panel_contents"):
                rep.ob(construct, True, "sidebar: links to the page itself or to members of pruned collections",
                       o.loc, nontrivial=False)
                continue
            if re.fullmatch(r"project\.\w+\[\d+\]", target):
                rep.ob(construct, True, "top-level unit (always documented)", o.loc, nontrivial=False)
                continue
            # an item documented on its parent's page (common block, variable): the page is the parent's
            ok = f"{target}.visible" in rawconds or f"{target}.parent.visible" in rawconds
            # ... and where the item's own flag is set to True at construction and never decided by a display filter (common
            # blocks), a test of that flag says nothing: the parent's flag is the one that counts
            ms = re.search(r"([\w.\[\]*]+)\.get_url\(\)", o.sym)
            coll = re.findall(r"\.(\w+)\[(?:\*|-?\d+)\]", ms.group(1) if ms else target)
            elem = _element_classes(ctx)
            kind = elem.get(coll[-1]) if coll else None
            on_parent_page = {elem[c] for c in c09.ANCHORED_LISTS if c in elem}
            if ok and kind in _always_visible_classes(ctx) and kind in on_parent_page and f"{target}.parent.visible" not in rawconds:
                rep.ob(construct, False,
                       f"the link is guarded by `{target}.visible`, but a {kind} is created with visible = True and no display filter "
                       f"ever changes that: the page linked is its parent's, and `{target}.parent.visible` is not consulted - a common "
                       f"block of a procedure that `display` hides is linked to a page that is never written", o.loc)
                continue
            rep.ob(construct, ok,
                   (f"link guarded by {target}.visible" if ok else
                    f"href to {target}.get_url() is not guarded by {target}.visible: may point at the page of an "
                    f"entity that display/proc_internals removed"), o.loc)


def _element_classes(ctx) -> Dict[str, str]:
    """collection attribute -> class of its elements: from the dispatch arms (`self.common.append(FortranCommon(...))`) and from
    annotated attribute declarations (`self.other_uses: List[FortranCommon] = []`)"""
    py = ctx.py
    memo = py.__dict__.setdefault("_c05_elem_classes", {})
    if memo:
        return memo
    for arm in ctx.cascade.arms:
        for c in arm.constructs:
            for d in (c.dest or "").split("|"):
                if d and c.cls in py.classes:
                    memo.setdefault(d, c.cls)
    for _m, fn in py.all_functions():
        for n in ast.walk(fn):
            if isinstance(n, ast.AnnAssign) and isinstance(n.target, ast.Attribute) and ast.unparse(n.target.value) == "self":
                m = re.fullmatch(r"(?:typing\.)?(?:List|list|Set|set)\[['\"]?(\w+)['\"]?\]", ast.unparse(n.annotation))
                if m and m.group(1) in py.classes:
                    memo[n.target.attr] = m.group(1)
    return memo


def _always_visible_classes(ctx) -> Set[str]:
    """entity classes whose `visible` is the constant True from construction on: set in the class's own initialiser, and the class
    is not one whose instances are run through a display filter that assigns the flag (those are the members of pruned lists,
    which get `visible` from the filter's verdict)"""
    py = ctx.py
    out = set()
    for cname, ci in py.classes.items():
        if ci.module != "sourceform":
            continue
        for meth in ("_initialize", "__init__"):
            fn = ci.methods.get(meth)
            if fn is None:
                continue
            vals = [v for _t, v in astq.assignments(fn, "self.visible") if v is not None]
            if vals and all(isinstance(v, ast.Constant) and v.value is True for v in vals):
                out.add(cname)
    return out


def r4_display_logic(ctx, rep):
    py = ctx.py
    sd = py.func("FortranBase._should_display")
    ev = astq.trace(sd)
    item = [a.arg for a in sd.args.args if a.arg != "self"][0]
    rets = [e for e in ev if e.kind == "return" and e.node.value is not None]
    # hidden when hide_undoc is on and the item has no documentation; otherwise by membership of its permission
    hides = any(isinstance(e.node.value, ast.Constant) and e.node.value.value is False
                and any("hide_undoc" in c for c in e.cond_texts_x(sd)) and any("doc_list" in c for c in e.cond_texts_x(sd)) for e in rets)
    by_perm = any(isinstance(c, ast.Compare) and isinstance(c.ops[0], ast.In) and ast.unparse(c.left) == f"{item}.permission"
                  and ast.unparse(c.comparators[0]) == "self.display" for e in rets for x in astq.expand_locals(e.node.value, sd)
                  for c in ast.walk(x))
    ok = hides and by_perm
    rep.ob("_should_display consults hide_undoc and display", ok,
           "undocumented items hidden under hide_undoc; otherwise permission in display" if ok else
           "_should_display no longer consults both hide_undoc and display", py.nloc(sd))
    fd = py.func("FortranBase.filter_display")
    ok = any(call_name(c) == "self._should_display" for c in py.walk_calls(fd))
    rep.ob("filter_display uses _should_display", ok, "", py.nloc(fd))
    st = py.func("FortranBase._set_display")
    sev = astq.trace(st)
    assigns = [e for e in sev if e.kind == "assign" and e.target == "self.display" and e.value is not None]
    ok = any(ast.unparse(e.value) == "self.parent.display" for e in assigns)
    rep.ob("_set_display inherits from parent", ok, "display defaults to the parent's", py.nloc(st))
    # the 'recognised words' test must mention all three permission words
    def consts(n):
        return {c.value for c in ast.walk(n) if isinstance(c, ast.Constant) and isinstance(c.value, str)}
    words_tests = [n for n in ast.walk(st) if isinstance(n, ast.If) and "public" in consts(n.test)
                   and any(isinstance(c, ast.Compare) and isinstance(c.ops[0], (ast.NotIn, ast.In)) for c in ast.walk(n.test))]
    ok = bool(words_tests) and {"public", "private", "protected"} <= consts(words_tests[0].test)
    rep.ob("_set_display recognises public/private/protected", ok,
           "an entity-level display override is honoured when it names any of the three permission words" if ok else
           "the override test no longer mentions all of public/private/protected: e.g. `display: protected` "
           "alone is silently ignored", py.nloc(words_tests[0]) if words_tests else py.nloc(st))
    ok = any(isinstance(e.value, (ast.List, ast.Tuple)) and not e.value.elts and any("'none' in" in c and not c.startswith("not") for c in e.cond_texts())
             for e in assigns)
    rep.ob("_set_display handles none", ok, "`display: none` empties the selection", py.nloc(st))
    # proc_internals off: every class whose obj is 'proc' empties its internal collections on that path
    internals = ("functions", "subroutines", "types", "interfaces", "absinterfaces", "variables")
    n_proc = 0
    for cls in py.subclasses("FortranCodeUnit"):
        if cls.startswith("External") or c09.obj_value(py, cls) != "proc":
            continue
        n_proc += 1
        paths = prune_paths(py, cls) or []
        off = [(lbl, acc) for lbl, acc in paths if any("proc_internals" in seg and not seg.startswith("not ") for seg in lbl.split("/"))]
        val = bool(off) and all(all(acc.get(k) == "emptied" for k in internals) for _, acc in off)
        # sibling agreement: whatever the other paths *filter* for this class is content of the procedure; with the internals
        # switched off it must be emptied as well (a local namelist or common block is documented on its own page / panel)
        on = [acc for lbl, acc in paths if (lbl, acc) not in off]
        filtered_elsewhere = sorted({k for acc in on for k, v in acc.items() if v == "filtered"})
        left = sorted(k for k in filtered_elsewhere if any(acc.get(k) != "emptied" for _, acc in off))
        if off:
            rep.ob(f"proc_internals off empties everything {cls} filters otherwise", not left,
                   f"{filtered_elsewhere} are all emptied" if not left else
                   f"{left} are filtered by display on the other path but left untouched when proc_internals is off: a namelist or "
                   f"common block local to the procedure keeps its page / panel (with the documentation of the local variables it names)",
                   py.nloc(py.resolve_method(cls, 'prune')[1]), nontrivial=bool(left))
        rep.ob(f"proc_internals branch applies to {cls}", val,
               "a procedure-like unit drops its internals when proc_internals is off" if val else
               f"prune() of {cls} (obj == 'proc') has no path on which proc_internals=off empties {list(internals)}: its "
               f"internals stay documented with proc_internals off (paths: {[l for l, _ in paths]})", py.nloc(py.resolve_method(cls, 'prune')[1]))
    if not n_proc:
        raise AnalysisError("no class with obj == 'proc' found")


def r5_graph_links_and_constructor(ctx, rep):
    py = ctx.py
    # graph links: only the visibility-gated attribs["URL"] may become an href
    n = 0
    base_init = py.ifunc("BaseNode.__init__")
    for node in ast.walk(py.imodules["graphs"]):
        if isinstance(node, ast.Attribute) and node.attr == "url" and isinstance(node.ctx, ast.Load):
            fn = py.enclosing_function(node)
            if fn is base_init:
                continue
            n += 1
            rep.ob(f"graphs.{fn.name if fn else '?'} reads node.url", False,
                   f"`{ast.unparse(node)}` is the ungated entity URL (set for hidden entities too); links must use "
                   f"attribs['URL'], which BaseNode.__init__ sets only for visible entities: a graph rendered as a table "
                   f"links to pages of unselected entities", py.nloc(node))
    tb = py.func("FortranGraph._make_graph_as_table")
    url_reads = [n for n in ast.walk(tb) if isinstance(n, ast.Subscript) and isinstance(n.slice, ast.Constant) and n.slice.value == "URL"]
    guarded = bool(url_reads) and all(
        any(isinstance(p, ast.Try) and any("KeyError" in astq.handler_types(h) or "BaseException" in astq.handler_types(h) or
                                           "Exception" in astq.handler_types(h) for h in p.handlers) for p in _up(py, n, tb))
        or any(isinstance(p, ast.If) and "URL" in ast.unparse(p.test) for p in _up(py, n, tb)) for n in url_reads)
    rep.ob("table-form graphs link through attribs['URL']", guarded,
           "rows without a (visible) URL are rendered as plain text" if guarded else
           "_make_graph_as_table no longer takes the link from attribs['URL'] with a fallback for nodes that have none", py.nloc(tb))
    sets = [n for n in ast.walk(base_init) if isinstance(n, ast.Assign) and any(
        isinstance(t, ast.Subscript) and isinstance(t.slice, ast.Constant) and t.slice.value == "URL" for t in n.targets)]
    ok = bool(sets) and all(any(isinstance(p, ast.If) and "visible" in ast.unparse(p.test) for p in _up(py, n, base_init)) for n in sets)
    rep.ob("BaseNode sets attribs['URL'] only for visible entities", ok, "", py.nloc(base_init))
    # a structure-constructor interface is selected together with its type
    tc = py.func("FortranType.correlate")
    ok = any(isinstance(n, ast.Assign) and any(ast.unparse(t) == "self.constructor.permission" for t in n.targets)
             and ast.unparse(n.value) == "self.permission" for n in ast.walk(tc))
    rep.ob("constructor interface takes the accessibility of its type before pruning", ok,
           "type.correlate copies the type's permission onto the same-named constructor, prune() runs afterwards" if ok else
           "FortranType.correlate no longer gives the constructor the type's permission: process_attribs hands a "
           "`public/private :: name` statement to the type only, so the same-named generic interface is filtered with "
           "the module default (hidden although selected, or documented although unselected)", py.nloc(tc))


def _up(py, node, stop):
    p = node
    while p is not stop and p in py.parents:
        p = py.parents[p]
        yield p


def r6_display_inheritance(ctx, rep):
    """_set_display installs the entity's own `display` metadata when it is non-empty and the parent's selection
    otherwise; so an entity without a `display:` line of its own must have an empty meta.display - the project-wide value
    must not be copied into every entity's settings"""
    py = ctx.py
    sd = py.func("FortranBase._set_display")
    ev = astq.trace(sd)
    inherits = [e for e in ev if e.kind == "assign" and e.target == "self.display" and e.value is not None
                and "parent.display" in ast.unparse(e.value)]
    own = [e for e in ev if e.kind == "assign" and e.target == "self.display" and e not in inherits]
    keyed_on_meta = any("meta.display" in ast.unparse(x) for e in own if e.value is not None for x in astq.expand_locals(e.value, sd))
    rep.ob("_set_display: own metadata or the parent's selection", bool(inherits) and keyed_on_meta, "", py.nloc(sd))
    fps = py.func("EntitySettings.from_project_settings")
    copied = [k.arg for c in py.walk_calls(fps) for k in c.keywords if k.arg == "display"]
    copied += [n for n in ast.walk(fps) if isinstance(n, ast.Assign) and any(ast.unparse(t).endswith(".display") for t in n.targets)]
    ci = py.cls("EntitySettings")
    dflt = ci.class_attrs.get("display")
    empty_default = dflt is None or (isinstance(dflt, ast.Call) and "default_factory=list" in ast.unparse(dflt).replace(" ", "")) or \
        (isinstance(dflt, (ast.List, ast.Tuple)) and not dflt.elts)
    ok = not copied and empty_default
    rep.ob("entities without a `display:` line have no display setting of their own", ok,
           "EntitySettings.display defaults to empty and is not copied from the project settings" if ok else
           "every entity's settings carry the project-wide `display`, so _set_display re-installs it on every entity instead of "
           "inheriting the parent's: an entity-level `display:` override is lost from its grandchildren on", py.nloc(fps))


def r7_python_link_producers(ctx, rep):
    """who-may-link on the Python side: an `<a href=...>` built in Python from an entity's URL (`full_url`, `get_url()`) is
    returned only on paths on which the entity's `visible` flag was tested.  The one producer that needs no test of its own
    is the "Read more" link an entity appends to *its own* summary (the summary is only rendered where the template has
    tested `visible`, C03)."""
    py = ctx.py
    n = 0

    def atom(t):
        if any((isinstance(x, ast.Attribute) and x.attr == "visible") or
               (isinstance(x, ast.Call) and call_name(x) == "getattr" and len(x.args) >= 2 and isinstance(x.args[1], ast.Constant)
                and x.args[1].value == "visible") for x in ast.walk(t)) and not isinstance(t, (ast.BoolOp, ast.UnaryOp)):
            return ("visible", True)
        return None

    def entity_url(e, fn) -> bool:
        for x in [e] + astq.expand_locals(e, fn):
            for a in ast.walk(x):
                if isinstance(a, ast.Attribute) and a.attr == "full_url":
                    return True
                if isinstance(a, ast.Call) and isinstance(a.func, ast.Attribute) and a.func.attr == "get_url":
                    return True
        return False
    for mod, fn in py.all_ifunctions():
        if mod in ("graphs", "pagetree"):
            continue        # graph node URLs: C05.R5; page-tree links are not entity links
        lits = [j for j in ast.walk(fn) if isinstance(j, ast.JoinedStr) and py.enclosing_function(j) is fn and any(
            isinstance(v, ast.Constant) and isinstance(v.value, str) and "<a href" in v.value.lower() for v in j.values)]
        if not lits:
            continue
        ev = astq.trace(fn)
        for j in lits:
            vals = [v.value for v in j.values if isinstance(v, ast.FormattedValue)]
            if not any(entity_url(v, fn) for v in vals):
                continue
            n += 1
            host = [e for e in ev if any(x is j for x in ast.walk(e.node))]
            own_summary = any(e.kind == "assign" and e.target and e.target.endswith(".summary") for e in host)
            ok = own_summary or (bool(host) and all(astq.path_implies(e, atom, {"visible": True}) is True for e in host))
            rep.ob(f"{py.qualname(fn)}: link built from an entity URL", ok,
                   ("the entity's own summary" if own_summary else "built only after `visible` was tested") if ok else
                   f"`{ast.unparse(j)[:60]}` is produced without a test of the entity's `visible` flag: entities removed by "
                   f"display / hide_undoc / proc_internals get links to pages that are never written", py.nloc(j))
    # the same for link *elements*: `<element>.attrib["href"] = <entity URL>` (the [[...]] processor)
    for mod, fn in py.all_ifunctions():
        stores = [st for st in ast.walk(fn) if isinstance(st, ast.Assign) and py.enclosing_function(st) is fn and any(
            isinstance(t, ast.Subscript) and isinstance(t.slice, ast.Constant) and t.slice.value == "href" for t in st.targets)]
        if not stores:
            continue
        ev = astq.trace(fn)
        for st in stores:
            if not entity_url(st.value, fn):
                continue
            n += 1
            host = [e for e in ev if e.node is st or any(x is st for x in ast.walk(e.node))]
            ok = bool(host) and all(astq.path_implies(e, atom, {"visible": True}) is True for e in host)
            rep.ob(f"{py.qualname(fn)}: href set from an entity URL", ok,
                   "set only after `visible` was tested" if ok else
                   f"`{ast.unparse(st)[:60]}` is reached without a test of the target's `visible` flag: a [[reference]] that resolves "
                   f"to an entity removed by display (found through a binding or a child table rather than the pruned project lists) "
                   f"becomes a link to a page that is never written", py.nloc(st))
    if n < 2:
        raise AnalysisError(f"only {n} Python link producer(s) found")


def r8_display_lists_accumulate(ctx, rep):
    """`display:` written once per word is a list of all the words (shared with C15.R13)"""
    from . import c15
    c15.r13_metadata_accumulates(ctx, rep)


def r9_visible_only_through_the_filter(ctx, rep):
    """`visible` says "this entity has a page / may be linked".  For entities that are members of another one it is the display
    filter's verdict: prune() runs the members through filter_display and marks those that remain.  A statement that marks *another*
    entity visible anywhere else (in correlate, say) overrides the filter - for a type of another unit that `display` or
    `hide_undoc` removed, every link to it then points at a page that is never written."""
    py = ctx.py
    n = 0
    for cname, ci in py.classes.items():
        if ci.module != "sourceform":
            continue
        for mname, fn in ci.methods.items():
            for a in ast.walk(fn):
                if not (isinstance(a, ast.Assign) and isinstance(a.value, ast.Constant) and a.value.value is True):
                    continue
                for t in a.targets:
                    if isinstance(t, ast.Attribute) and t.attr == "visible" and ast.unparse(t.value) != "self":
                        n += 1
                        in_prune = mname == "prune" or mname.startswith("_prune") or "prune" in mname
                        rep.ob(f"{cname}.{mname}: `{ast.unparse(a)}`", in_prune,
                               "members are marked by the pruning pass, after the display filter" if in_prune else
                               f"`{ast.unparse(t.value)}` is marked visible outside the pruning pass: whatever the display filter decides "
                               f"about it (it may belong to another unit) is overridden, and links to it are emitted although it has no page",
                               py.nloc(a))
    if n < 3:
        raise AnalysisError(f"only {n} statements marking members visible found")


def r10_scope_default_reaches_every_entity(ctx, rep):
    """every entity is constructed with its scope's default accessibility (shared with C04.R1)"""
    from . import c04
    c04.r1_plumbing(ctx, rep)


RULES = [
    RuleSpec("C05.R5", r5_graph_links_and_constructor, "graph links are visibility-gated; constructors follow their type", floor=1),
    RuleSpec("C05.R1", r1_prune_coverage, "prune covers every rendered child collection", floor=20),
    RuleSpec("C05.R2", r2_lists_after_prune, "page lists are gathered after pruning", floor=5),
    RuleSpec("C05.R3", r3_links_to_visible, "hrefs to other entities are visibility-guarded", floor=3),
    RuleSpec("C05.R4", r4_display_logic, "display/hide_undoc/proc_internals logic", floor=4),
    RuleSpec("C05.R6", r6_display_inheritance, "display selection is inherited through the parent, not re-installed", floor=2),
    RuleSpec("C05.R7", r7_python_link_producers, "links built in Python are produced only for visible entities", floor=2),
    RuleSpec("C05.R8", r8_display_lists_accumulate, "repeated `display:` lines accumulate (shared with C15.R13)", floor=2),
    RuleSpec("C05.R9", r9_visible_only_through_the_filter, "members become visible only through the display filter", floor=3),
    RuleSpec("C05.R10", r10_scope_default_reaches_every_entity, "every entity is constructed with its scope's default accessibility (shared with C04.R1)", floor=1),
]
