"""C13 — every graph shows exactly the relation it is documented to show (structural clauses)."""
from __future__ import annotations

import ast
import re
from typing import Dict, List, Optional, Set, Tuple

from ..core import AnalysisError, RuleSpec
from . import common
from ..pymodel import call_name
from .. import astq

EXPLANATION = (
    "AST rules over ford/graphs.py. R1: in every *Node constructor each insertion into a forward "
    "adjacency (uses, calls, interfaces, efferent, comp_types, ancestor) is paired, in the same loop "
    "body, with the insertion of self into the inverse adjacency of the same neighbour. R2: the four "
    "(forward, inverse) graph-class pairs iterate mirror relations and emit mirror edge orientations "
    "(relation table derived from R1). R3: every edge appended in add_node joins `node` and a "
    "neighbour that the same iteration puts into hop_nodes unless already in the graph, and the edge "
    "itself is not conditional on that membership test; add_to_graph emits nodes and edges on the "
    "same path. R4: registration honours meta.graph; per-entity graphs are created only for "
    "registered objects; depth/node limits come from the entity's own metadata. R5: every loop that "
    "feeds node/edge emission iterates a sorted() view of set-typed adjacencies. Truncation "
    "semantics and the derivation of the relation from source (C06-C08) are not decided."
    ' R6: the project-wide graphs are rooted at every module/type/procedure, and file dependencies use the recursive closure; correlation order is shared with C06.R3.'
    " Added after waves 6/7 - per-entity graph limits are inherited from their project-wide namesakes. Relations, orientation, queueing and guards of add_node are derived by element provenance (sa/graphsum.py), independent of loop structure."
)
ASSUMPTIONS = ["graphviz's own output is out of scope", "adjacency containers are the attributes initialised as set()/{} in the node constructors"]

INVERSE = {"uses": "used_by", "calls": "called_by", "interfaces": "interfaced_by",
           "efferent": "afferent", "comp_types": "comp_of", "ancestor": "children"}
PAIRS = [("UsesGraph", "UsedByGraph"), ("InheritsGraph", "InheritedByGraph"),
         ("CallsGraph", "CalledByGraph"), ("EfferentGraph", "AfferentGraph")]


def node_classes(py) -> List[str]:
    return [c for c in py.subclasses("BaseNode") if c != "BaseNode"]


def container_kinds(py) -> Dict[str, str]:
    """attribute -> 'set' | 'dict' from the node constructors."""
    out: Dict[str, str] = {}
    for c in ["BaseNode"] + node_classes(py):
        init = py.classes[c].methods.get("__init__")
        if not init:
            continue
        for n in ast.walk(init):
            if isinstance(n, ast.Assign) and len(n.targets) == 1 and isinstance(n.targets[0], ast.Attribute) \
                    and isinstance(n.targets[0].value, ast.Name) and n.targets[0].value.id == "self":
                v = n.value
                if isinstance(v, ast.Call) and call_name(v) == "set":
                    out[n.targets[0].attr] = "set"
                elif isinstance(v, ast.Dict) and not v.keys:
                    out[n.targets[0].attr] = "dict"
    return out


def regions(fn: ast.FunctionDef) -> List[List[ast.stmt]]:
    """loop bodies (and the function body) as pairing regions; nested loops are separate regions."""
    out = [fn.body]
    for n in ast.walk(fn):
        if isinstance(n, ast.For):
            out.append(n.body)
    return out


def walk_region(stmts: List[ast.stmt]):
    """nodes of a region without descending into nested for-loops."""
    todo = list(stmts)
    while todo:
        n = todo.pop()
        yield n
        for c in ast.iter_child_nodes(n):
            if isinstance(c, ast.For):
                continue
            todo.append(c)


def insertions(stmts) -> Tuple[Set[Tuple[str, str]], Set[Tuple[str, str]]]:
    fwd: Set[Tuple[str, str]] = set()
    inv: Set[Tuple[str, str]] = set()
    for n in walk_region(stmts):
        # X.attr.add(Y)
        if isinstance(n, ast.Call) and isinstance(n.func, ast.Attribute) and n.func.attr == "add" \
                and isinstance(n.func.value, ast.Attribute) and len(n.args) == 1:
            owner = ast.unparse(n.func.value.value)
            attr = n.func.value.attr
            arg = ast.unparse(n.args[0])
            if owner == "self":
                fwd.add((attr, arg))
            elif arg == "self":
                inv.add((attr, owner))
        # X.attr[Y] = / +=
        if isinstance(n, (ast.Assign, ast.AugAssign)):
            tg = n.targets if isinstance(n, ast.Assign) else [n.target]
            for t in tg:
                if isinstance(t, ast.Subscript) and isinstance(t.value, ast.Attribute):
                    owner = ast.unparse(t.value.value)
                    key = ast.unparse(t.slice)
                    if owner == "self":
                        fwd.add((t.value.attr, key))
                    elif key == "self":
                        inv.add((t.value.attr, owner))
                if isinstance(t, ast.Attribute) and ast.unparse(t) == "self.ancestor" and \
                        not (isinstance(n.value, ast.Constant) and n.value.value is None):
                    fwd.add(("ancestor", "self.ancestor"))
    return fwd, inv


def r1_pairing(ctx, rep):
    py = ctx.py
    for c in node_classes(py):
        init = py.classes[c].methods.get("__init__")
        if not init:
            continue
        for reg in regions(init):
            fwd, inv = insertions(reg)
            for attr, var in sorted(fwd):
                if attr not in INVERSE:
                    continue
                want = (INVERSE[attr], var)
                ok = want in inv
                rep.ob(f"{c}.__init__ {attr}<-{var}", ok,
                       (f"self.{attr} gets {var} and {var}.{INVERSE[attr]} gets self in the same block" if ok else
                        f"self.{attr} receives {var} but {var}.{INVERSE[attr]} does not receive self in the same "
                        f"block: the inverse graph ('{INVERSE[attr]}') will not be the inverse of '{attr}'"),
                       py.nloc(init))
            for attr, var in sorted(inv):
                fa = [k for k, v in INVERSE.items() if v == attr]
                if not fa:
                    continue
                ok = (fa[0], var) in fwd
                rep.ob(f"{c}.__init__ {attr}->{var}", ok,
                       (f"{var}.{attr} gets self and self.{fa[0]} gets {var}" if ok else
                        f"{var}.{attr} receives self but self.{fa[0]} does not receive {var} in the same block"),
                       py.nloc(init))


def loop_relations(py, cls: str):
    """[(relation, orientation, edge call, top-level statement) ...] for the add_node of a graph class - from the hop summary
    (sa/graphsum.py), i.e. independent of how the loops over the relations are written"""
    from ..graphsum import HopSummary
    hs = HopSummary(py, cls)
    out = []
    if not hs.edges:
        raise AnalysisError(f"{cls}.add_node: no edge construction found")
    for e in hs.edges:
        if e.rel == "?":
            raise AnalysisError(f"{cls}.add_node: where the endpoint `{e.other}` of `{ast.unparse(e.node)[:60]}` comes from was not understood")
        out.append((e.rel, e.orient, e.node, e.top))
    return hs.fn, out


def r2_mirror(ctx, rep):
    py = ctx.py
    for f, i in PAIRS:
        ffn, frel = loop_relations(py, f)
        ifn, irel = loop_relations(py, i)
        fset = {(r, o) for r, o, _, _ in frel}
        iset = {(r, o) for r, o, _, _ in irel}
        for r, o in sorted(fset):
            ok = o == "out"
            rep.ob(f"{f}.add_node relation={r} orientation", ok,
                   f"forward graph draws node -> {r} member" if ok else
                   f"forward graph {f} draws edge {o} for relation {r} (expected node -> member)", py.nloc(ffn))
        for r, o in sorted(iset):
            ok = o == "in"
            rep.ob(f"{i}.add_node relation={r} orientation", ok,
                   f"inverse graph draws {r} member -> node" if ok else
                   f"inverse graph {i} draws edge {o} for relation {r} (expected member -> node)", py.nloc(ifn))
        want = {INVERSE.get(r, "?" + r) for r, _ in fset}
        got = {r for r, _ in iset}
        ok = want == got
        rep.ob(f"{f}/{i} relations mirror", ok,
               (f"{f} iterates {sorted(r for r, _ in fset)}, {i} iterates the inverse relations {sorted(got)}" if ok else
                f"{f} iterates {sorted(r for r, _ in fset)} so {i} must iterate {sorted(want)} but iterates {sorted(got)}"),
               py.nloc(ifn))


PROJECT_WIDE = [("ModuleGraph", "UsesGraph"), ("TypeGraph", "InheritsGraph"), ("CallGraph", "CallsGraph"), ("FileGraph", "EfferentGraph")]


def r8_project_graph_orientation(ctx, rep):
    """a project-wide graph draws the same relation as the per-entity 'forward' graph of its family, with the same
    orientation (from an entity to what it depends on - what all four legends say); sibling agreement"""
    py = ctx.py
    for g, f in PROJECT_WIDE:
        gfn, grel = loop_relations(py, g)
        _ffn, frel = loop_relations(py, f)
        fmap = {r: o for r, o, _, _ in frel}
        shared = 0
        for r, o, node, _top in grel:
            if r not in fmap:
                continue
            shared += 1
            ok = o == fmap[r]
            rep.ob(f"{g}.add_node relation={r}: oriented like {f}", ok,
                   f"both draw node -> {r} member" if ok else
                   f"{g} draws the `{r}` edge {'member -> node' if o == 'in' else o} while {f} (and the legend both share) draws it "
                   f"node -> member: the project-wide graph shows the inverse relation (arrows from a dependency to its dependent)",
                   py.nloc(node), nontrivial=not ok)
        if not shared:
            raise AnalysisError(f"{g} and {f} iterate no common relation")


def graph_classes(py) -> List[str]:
    # every concrete graph class: its own add_node or one inherited from another graph class
    return [c for c in py.subclasses("FortranGraph")
            if any("add_node" in py.classes[b].methods for b in py.mro(c) if b in py.classes and b != "FortranGraph")]


def r3_edges(ctx, rep):
    py = ctx.py
    from ..graphsum import HopSummary
    for cls in graph_classes(py):
        hs = HopSummary(py, cls)
        queued = {a.rel for a in hs.adds}
        for e in hs.edges:
            ends = ("node", e.other) if e.orient == "out" else (e.other, "node") if e.orient == "in" else tuple(e.orient.split("->"))
            ok_nodes = e.orient in ("in", "out") and e.rel in queued
            bad_guard = [g for g in e.conds if "self.added" in g or hs.nodes_p in g]
            ok = ok_nodes and not bad_guard
            rep.ob(f"{cls}.add_node edge {ends[0]}->{ends[1]} ({e.rel})", ok,
                   ("both endpoints are `node` or a neighbour that is queued into the hop from the same relation; the edge "
                    "is unconditional" if ok else
                    (f"edge is only drawn under `{bad_guard[0]}`: an edge to a node already in the graph is dropped"
                     if bad_guard else f"members of `{e.rel}` get an edge but are not queued into hop_nodes (queued: {sorted(queued)})")),
                   py.nloc(e.node))
        # a neighbour joins the hop only if it is not in the graph yet: the node limit counts len(hop) + len(self.added), so a
        # node that is already drawn must not be counted again (sibling agreement of the `not in self.added` guard)
        for a in hs.adds:
            rep.ob(f"{cls}.add_node: `{a.var}` joins the hop only if it is not drawn yet", a.guarded,
                   "guarded by `not in self.added`" if a.guarded else
                   f"`{ast.unparse(a.node)[:50]}` is {'guarded by `' + a.guards[0] + '`' if a.guards else 'unguarded'}, not by "
                   f"`not in self.added` as in the sibling graph classes: nodes that are already in the graph are counted again "
                   f"against graph_maxnodes, so the hop is rejected and every edge of the graph is dropped although the nodes fit",
                   py.nloc(a.node), nontrivial=not a.guarded)
    fn = py.func("FortranGraph.add_to_graph")
    body = [s for s in fn.body if not isinstance(s, ast.Expr)]
    emits_n = [s for s in body if isinstance(s, ast.For) and "self.dot.node" in ast.unparse(s)]
    emits_e = [s for s in body if isinstance(s, ast.For) and "self.dot.edge" in ast.unparse(s)]
    ok = len(emits_n) == 1 and len(emits_e) == 1 and any(
        isinstance(s, ast.If) and any(isinstance(r, ast.Return) for r in ast.walk(s)) for s in body)
    rep.ob("add_to_graph emits nodes and edges together", ok,
           "nodes and edges of a hop are emitted on the same path (both skipped on truncation)" if ok else
           "add_to_graph no longer emits nodes and edges under the same condition", py.nloc(fn))


def r4_optout(ctx, rep):
    py = ctx.py
    fn = py.func("GraphManager.register")
    ev = astq.trace(fn)
    regs = [e for e in ev if e.kind == "call" and (call_name(e.node).endswith("data.register") or call_name(e.node) == "self.graph_objs.append")]
    if len(regs) < 2:
        raise AnalysisError("GraphManager.register: data.register / graph_objs.append calls not found")
    ok = all(any(c.endswith("meta.graph") and not c.startswith("not") for c in e.cond_texts()) for e in regs)
    rep.ob("GraphManager.register honours meta.graph", ok,
           "registration (data.register + graph_objs.append) happens only under obj.meta.graph" if ok else
           "register() adds objects regardless of their `graph` metadata", py.nloc(fn))
    ga = py.func("GraphManager.graph_all")
    outer = [n for n in ast.walk(ga) if isinstance(n, ast.For) and any(
        "self.graph_objs" in ast.unparse(x) for x in astq.expand_locals(n.iter, ga))]
    ok = bool(outer)
    rep.ob("graph_all iterates registered objects", ok,
           "per-entity graphs are created in a loop over self.graph_objs" if ok else
           "graph_all no longer iterates graph_objs", py.nloc(ga))
    graph_attrs = set()
    for n in ast.walk(py.modules["graphs"]):
        if isinstance(n, ast.Assign) and len(n.targets) == 1 and isinstance(n.targets[0], ast.Attribute) \
                and n.targets[0].attr.endswith("graph") and isinstance(n.value, ast.Call) and \
                call_name(n.value) in graph_classes(py) and not ast.unparse(n.targets[0]).startswith("self."):
            inside = outer and any(n is x for x in ast.walk(outer[0]))
            graph_attrs.add(n.targets[0].attr)
            rep.ob(f"graph attribute {ast.unparse(n.targets[0])} = {call_name(n.value)}", bool(inside),
                   "assigned inside graph_all's loop over registered objects" if inside else
                   "a per-entity graph is created outside the registered-object loop", py.nloc(n))
    # a project-wide graph is given every registered entity as a root and draws ONE hop from each: the switch that makes a graph go
    # on from the nodes it reached (per-entity graphs, up to graph_maxdepth) must be off for it - otherwise it continues from an
    # entity that opted out with `graph: false` and draws that entity's own relations
    def class_attr(cname: str, attr: str):
        for c in py.mro(cname):
            ci = py.classes.get(c)
            if ci and attr in ci.class_attrs:
                return ci.class_attrs[attr]
        return None
    project_wide = sorted({call_name(n.value) for n in ast.walk(ga) if isinstance(n, ast.Assign) and len(n.targets) == 1
                           and ast.unparse(n.targets[0]).startswith("self.") and isinstance(n.value, ast.Call)
                           and call_name(n.value) in py.classes and py.is_subclass(call_name(n.value), "FortranGraph")})
    if len(project_wide) < 3:
        raise AnalysisError(f"graph_all: project-wide graph objects not found ({project_wide})")
    for cname in project_wide:
        v = class_attr(cname, "_should_add_nested_nodes")
        val = py.eval_const(v) if v is not None else None
        ok = val is False
        rep.ob(f"project-wide {cname} draws one hop from each registered entity", ok,
               "_should_add_nested_nodes is False" if ok else
               f"{cname} has _should_add_nested_nodes = {val!r} (through {py.mro(cname)[:3]}): the graph goes on from nodes that are not "
               f"registered roots, so an entity with `graph: false` that is merely used by another one gets its own relations drawn",
               py.nloc(py.classes[cname].node))
    # limits come from the entity's own metadata
    init = py.func("FortranGraph.__init__")
    t = ast.unparse(init)
    for attr, key in (("max_nesting", "graph_maxdepth"), ("max_nodes", "graph_maxnodes")):
        asg = [n for n in ast.walk(init) if isinstance(n, ast.Assign) and ast.unparse(n.targets[0]) == f"self.{attr}"
               and key in ast.unparse(n.value)]
        ok = bool(asg) and all(f".meta.{key}" in ast.unparse(a.value) for a in asg)
        rep.ob(f"FortranGraph.{attr} from entity metadata", ok,
               f"self.{attr} is computed from r.meta.{key} (per-entity, inheriting the project default)" if ok else
               f"self.{attr} is no longer taken from the entity's own metadata ({key}): per-entity graph "
               f"limits are ignored", py.nloc(asg[0]) if asg else py.nloc(init))


def r5_sorted_emission(ctx, rep):
    py = ctx.py
    kinds = container_kinds(py)
    sets = {a for a, k in kinds.items() if k == "set"}
    if len(sets) < 6:
        raise AnalysisError("node adjacency sets not found")

    def check_loop(cls, fn, st: ast.For):
        it = st.iter
        t = ast.unparse(it)
        e = it
        sorted_ = isinstance(e, ast.Call) and call_name(e) == "sorted"
        if sorted_:
            e = e.args[0]
        if isinstance(e, ast.Call) and call_name(e) == "enumerate" and e.args:
            inner = e.args[0]
            sorted_ = isinstance(inner, ast.Call) and call_name(inner) == "sorted"
            e = inner.args[0] if sorted_ else inner
        name = None
        if isinstance(e, ast.Attribute):
            name = e.attr
        elif isinstance(e, ast.Call) and call_name(e) == "getattr" and len(e.args) >= 2 and \
                isinstance(e.args[1], ast.Constant):
            name = e.args[1].value
        elif isinstance(e, ast.Name):
            name = e.id
        is_set = name in sets or name in ("nodes", "hop_nodes")
        if not is_set:
            rep.ob(f"{cls}.{fn.name} loop over {t}", True, "iterates an insertion-ordered container",
                   py.nloc(st), nontrivial=False)
            return
        rep.ob(f"{cls}.{fn.name} loop over {name}", sorted_,
               (f"set-typed `{name}` is iterated through sorted()" if sorted_ else
                f"`for ... in {t}` iterates a set (hash order, PYTHONHASHSEED dependent) while emitting "
                f"nodes/edges: edge order in the graph source differs between runs"), py.nloc(st))

    from ..graphsum import HopSummary
    for cls in graph_classes(py):
        hs = HopSummary(py, cls)
        seen_rel = set()
        for e in hs.edges:
            for rel in e.rel.split("|"):
                if (rel, e.sorted) in seen_rel:
                    continue
                seen_rel.add((rel, e.sorted))
                if rel not in sets:
                    rep.ob(f"{cls}.add_node loop over {rel}", True, "iterates an insertion-ordered container / a single neighbour",
                           py.nloc(e.node), nontrivial=False)
                    continue
                rep.ob(f"{cls}.add_node loop over {rel}", e.sorted,
                       (f"set-typed `{rel}` is iterated through sorted()" if e.sorted else
                        f"the edges for `{rel}` are produced while iterating a set (hash order, PYTHONHASHSEED dependent): edge "
                        f"order in the graph source differs between runs"), py.nloc(e.node))
    for m in ("add_nodes", "add_to_graph"):
        fn = py.func(f"FortranGraph.{m}")
        for st in ast.walk(fn):
            if isinstance(st, ast.For) and not ast.unparse(st.iter).startswith("edges"):
                check_loop("FortranGraph", fn, st)


def r6_project_graph_roots(ctx, rep):
    py = ctx.py
    ga = py.ifunc("GraphManager.graph_all")
    pairs = {"usenodes": "usesgraph", "callnodes": "callsgraph"}
    n = 0

    def atom_for(own: str):
        def atom(e):
            # `len(p.<own>.added) > 1` in any spelling: the entity's own graph has more than its root
            if isinstance(e, ast.Compare) and len(e.ops) == 1 and own in ast.unparse(e):
                l_has = own in ast.unparse(e.left)
                op = e.ops[0]
                if isinstance(op, (ast.Gt, ast.GtE, ast.NotEq)):
                    return ("own", l_has)
                if isinstance(op, (ast.Lt, ast.LtE, ast.Eq)):
                    return ("own", not l_has)
            return None
        return atom
    for e in astq.trace(ga):
        if e.kind != "call":
            continue
        c = e.node
        cn = call_name(c)
        lst = cn.split(".")[0]
        if cn.endswith(".append") and lst in pairs and c.args and isinstance(c.args[0], ast.Name):
            n += 1
            # the entity is a root exactly when its own graph is not trivial: the path conditions (nested test, early
            # `continue`, negated else-branch alike) evaluate to true under that proposition alone
            ok = astq.event_fires(e, atom_for(pairs[lst]), {"own": True}) is True and \
                astq.event_fires(e, atom_for(pairs[lst]), {"own": False}) is False
            tests = e.cond_texts()
            loop = e.loops[-1] if e.loops else None
            where = ast.unparse(loop.iter)[:30] if isinstance(loop, ast.For) else "?"
            rep.ob(f"graph_all: {lst}.append({c.args[0].id}) in loop over {where}", ok,
                   f"guarded only by `{tests}`" if ok else
                   f"membership in the project-wide {'call' if lst == 'callnodes' else 'use'} graph depends on {tests}: an "
                   f"entity with calls but no USE (or vice versa) is left out of that graph although its own graphs show "
                   f"the relation", py.nloc(c))
    if n < 3:
        raise AnalysisError("graph_all: root list construction not found")
    # file dependency edges come from the recursive USE closure (shared with C06.R3)
    from . import c06
    c06.r3_dependency_order(ctx, rep)
    fnode = py.func("FileNode.__init__")
    ok = False
    for lp in ast.walk(fnode):
        if isinstance(lp, ast.For) and ast.unparse(lp.iter).endswith(".deplist") and isinstance(lp.target, ast.Name):
            src = f"{lp.target.id}.source_file"
            adds = [c for c in py.walk_calls(lp) if call_name(c).endswith(("efferent.add", "afferent.add"))]
            looked_up = any(any(ast.unparse(a) == src for a in c.args) for c in py.walk_calls(lp))

            def atom(e, src=src):
                # "the dependency is defined in this very file": `dep.source_file == obj`, either way round
                if isinstance(e, ast.Compare) and len(e.ops) == 1 and isinstance(e.ops[0], (ast.Eq, ast.NotEq, ast.Is, ast.IsNot)) and \
                        {ast.unparse(e.left), ast.unparse(e.comparators[0])} == {src, "obj"}:
                    return ("self", isinstance(e.ops[0], (ast.Eq, ast.Is)))
                return None
            evs = [e for e in astq.trace_block([lp], fnode) if e.kind == "call" and call_name(e.node).endswith("efferent.add")]
            # every dependency on another file is recorded, whatever else is known about that file
            only_self_skipped = bool(evs) and all(astq.event_fires(e, atom, {"self": False}) is True and
                                                   astq.event_fires(e, atom, {"self": True}) is False for e in evs)
            ok = ok or (bool(adds) and looked_up and only_self_skipped)
    rep.ob("file graph edges come from deplist", ok, "", "ford/graphs.py")



def r7_alias(ctx, rep):
    """TypeNode reads FortranType.local_variables (the type's own components) for composition edges; it is saved as an
    alias of `variables` before the inherited components are added, so `variables` must be re-bound, not mutated"""
    n = common.alias_then_mutate(ctx, rep)
    if n == 0:
        raise AnalysisError("no `self.a = self.b` list alias found in the entity classes (FortranType.correlate: local_variables)")


def r9_settings_inherited(ctx, rep):
    """graph settings of an entity are inherited field by field from the project's settings of the same name (generic rule
    `keyword_copy_agreement`)"""
    from . import common
    common.keyword_copy_agreement(ctx, rep, modules=("settings",))


def r10_inherited_generic_specifics(ctx, rep):
    """the call graph of an extended type's generic binding leads to the extended type's own specifics (shared with C07.R12)"""
    from . import c07
    c07.r12_inherited_generic_specifics(ctx, rep)


def _paged_lists(py) -> Dict[str, str]:
    """project list -> page class / factory it is paged with, from the table(s) in Documentation.__init__ in any of their spellings"""
    init = py.func("Documentation.__init__")
    out: Dict[str, str] = {}
    for n in ast.walk(init):
        if isinstance(n, ast.Tuple) and len(n.elts) == 2 and isinstance(n.elts[0], ast.Attribute) and ast.unparse(n.elts[0].value) == "project" \
                and isinstance(n.elts[1], ast.Name):
            out[n.elts[0].attr] = n.elts[1].id
        if isinstance(n, ast.Dict):
            for k, v in zip(n.keys, n.values):
                if isinstance(k, ast.Constant) and isinstance(k.value, str) and isinstance(v, ast.Name) and v.id.endswith(("Page",)):
                    out[k.value] = v.id
        if isinstance(n, ast.Assign) and isinstance(n.value, ast.Name) and n.value.id.endswith("Page"):
            for t in n.targets:
                if isinstance(t, ast.Subscript) and isinstance(t.slice, ast.Constant) and isinstance(t.slice.value, str):
                    out[t.slice.value] = n.value.id
    return out


# paged lists whose entities take part in no graph relation, with the reason
NO_GRAPHS = {
    "absinterfaces": "an abstract interface calls nothing and nothing calls it (its page shares the template of interface blocks)",
    "extra_files": "files of extra_filetypes are not Fortran: they have no USE / call relations",
}


def r11_graphs_for_every_paged_kind(ctx, rep):
    """An entity's page shows its graphs only if the entity was registered with the graph manager, and it is a root of the
    project-wide graphs only then.  The registration in Documentation.__init__ walks project lists; every list whose pages carry
    graph cards (the page template prints a `...graph` attribute) has to be among them - sibling agreement with the table the
    pages are made from."""
    py, j = ctx.py, ctx.j
    from . import c09
    paged = _paged_lists(py)
    if len(paged) < 6:
        raise AnalysisError(f"Documentation.__init__: the page table was not understood ({paged})")
    pages = c09.doc_pages(py)
    subl = c09.property_sublists(py, "Project")

    def templates_of(factory: str) -> List[str]:
        if factory in pages:
            return [pages[factory][0]]
        fdef = py.functions.get(f"output.{factory}")
        if fdef is not None:
            return [pages[call_name(c)][0] for c in py.walk_calls(fdef) if call_name(c) in pages]
        return []
    init = py.func("Documentation.__init__")
    regs = [e for e in astq.trace(init) if e.kind == "call" and call_name(e.node).endswith("graphs.register") and e.loops]
    if not regs:
        raise AnalysisError("Documentation.__init__: the registration loop for graphs was not found")
    registered: Set[str] = set()
    for e in regs:
        for lp in e.loops:
            for x in [lp.iter] + astq.expand_locals(lp.iter, init):
                for a in ast.walk(x):
                    if isinstance(a, ast.Attribute) and ast.unparse(a.value) == "project":
                        registered |= set(subl.get(a.attr, {a.attr}))
    n = 0
    for lst, factory in sorted(paged.items()):
        tpls = templates_of(factory)
        shows = [t for t in tpls if t in j.templates and re.search(r"\.\w*graph\b", (py.root / "ford" / "templates" / t).read_text(encoding="utf-8"))]
        if not shows:
            continue
        n += 1
        need = set(subl.get(lst, {lst})) - set(NO_GRAPHS)
        if not need:
            rep.ob(f"entities of project.{lst} are registered for graphs", True, "exempt: " + NO_GRAPHS[lst], py.nloc(regs[0].node), nontrivial=False)
            continue
        ok = need <= registered
        rep.ob(f"entities of project.{lst} are registered for graphs", ok,
               f"pages from {shows} show graphs; the list is walked by the registration loop" if ok else
               f"pages of project.{lst} ({shows[0]}) have graph cards, but the registration loop walks {sorted(registered)} only: these "
               f"entities get no graphs of their own and are not roots of the project-wide graph - edges that start at them are missing",
               py.nloc(regs[0].node))
    if n < 5:
        raise AnalysisError(f"only {n} paged lists with graph cards found")


RULES = [
    RuleSpec("C13.R6", r6_project_graph_roots, "project-wide graph roots; file dependencies use the recursive closure", floor=8),
    RuleSpec("C13.R1", r1_pairing, "forward/inverse adjacency pairing at node creation", floor=20),
    RuleSpec("C13.R2", r2_mirror, "mirror graph classes iterate mirror relations", floor=9),
    RuleSpec("C13.R3", r3_edges, "edge endpoints are nodes of the same hop; edges unconditional", floor=12),
    RuleSpec("C13.R4", r4_optout, "graph opt-out, per-entity creation and limits", floor=8),
    RuleSpec("C13.R5", r5_sorted_emission, "sorted iteration wherever nodes/edges are emitted", floor=10),
    RuleSpec("C13.R8", r8_project_graph_orientation, "project-wide graphs are oriented like the per-entity graphs", floor=4),
    RuleSpec("C13.R7", r7_alias, "a saved alias of a component list is not mutated in place", floor=1),
    RuleSpec("C13.R9", r9_settings_inherited, "per-entity graph limits are inherited from their project-wide namesakes", floor=3),
    RuleSpec("C13.R10", r10_inherited_generic_specifics, "generic bindings of an extended type call that type's specifics (shared with C07.R12)", floor=1),
    RuleSpec("C13.R11", r11_graphs_for_every_paged_kind, "every kind of entity whose page shows graphs is registered with the graph manager", floor=5),
]
