"""C12 — output is a deterministic function of the inputs (structural clauses)."""
from __future__ import annotations

import ast
import re
from typing import Dict, List, Optional, Set, Tuple

from jinja2 import nodes as N

from ..core import AnalysisError, RuleSpec
from ..jmodel import sym
from ..pymodel import call_name
from .. import astq

EXPLANATION = (
    "Unordered-source -> order-sensitive-sink analysis. Sources: expressions of set type (set(), set "
    "displays/comprehensions, names and attributes assigned from them, functions annotated or "
    "returning sets, Path.glob/rglob, os.listdir). Sanitisers: sorted(), list.sort(), "
    "toposort_flatten (sort=True default). Sinks: for-loops over such a value whose body is order "
    "sensitive (append/extend/insert, page/entity construction, dot.node/edge, writes, yields, first "
    ".ident access) and Jinja for-loops over attributes that Python turns into sets. Loops whose body "
    "only performs commutative updates (set.add, membership, counters, create_svg into distinct "
    "files) are recognised and listed. R2: removal of the output directory dominates every write in "
    "writeout and directories are created without exist_ok (stale output cannot survive). R3: clock "
    "values flow only to console messages and to the creation_date field, which templates print only "
    "under print_creation_date. Byte-identity of two runs is not decided."
    ' R4 (shared with C13.R5): graph node/edge emission iterates sorted views. R5: serial and parallel graph generation produce the same files. R6: page-name numbering (the ~N suffix) does not depend on set iteration order - every declared entity, and every entity copied during correlation, is named in list order before any sort over sets of entities.'
    " Added after waves 6/7 - node identity is not coarser than the displayed name (no set representative chosen by hash order). Graph-emission clauses are stated on the hop summary (element provenance), not on loop shapes."
)
ASSUMPTIONS = ["FortranBase.__hash__ is identity and BaseNode.__hash__ is hash(ident): set order varies between runs",
               "dict iteration order is insertion order (Python >= 3.7)"]

ORDER_INSENSITIVE_CALLS = {"add", "update", "discard", "create_svg", "get", "items", "keys", "values",
                           "lower", "isinstance", "getattr", "hasattr", "len", "get_module_node",
                           "get_procedure_node", "get_type_node", "get_node", "warn", "str", "touch",
                           "set_current", "is_file", "is_dir", "exists", "fnmatch", "relpath"}


def class_set_attrs(py, cls: str) -> Set[str]:
    """attributes assigned a set-typed value in a method of cls or of one of its base classes."""
    out: Set[str] = set()
    for c in py.mro(cls):
        ci = py.classes.get(c)
        if not ci:
            continue
        for n in ast.walk(ci.node):
            if isinstance(n, (ast.Assign, ast.AnnAssign)):
                v = n.value
                tg = n.targets if isinstance(n, ast.Assign) else [n.target]
                if v is not None and is_set_expr(v, set(), set(), set()):
                    for t in tg:
                        if isinstance(t, ast.Attribute) and isinstance(t.value, ast.Name) and t.value.id == "self":
                            out.add(t.attr)
    return out


def set_attrs(py, module: str) -> Set[str]:
    """attribute names assigned a set-typed value somewhere in the module."""
    out: Set[str] = set()
    for n in ast.walk(py.modules[module]):
        if isinstance(n, (ast.Assign, ast.AnnAssign)):
            v = n.value
            tg = n.targets if isinstance(n, ast.Assign) else [n.target]
            if v is not None and is_set_expr(v, set(), set(), set()):
                for t in tg:
                    if isinstance(t, ast.Attribute):
                        out.add(t.attr)
    return out


TOTAL_KEY = re.compile(r"\.ident\b|lambda (\w+): \1$|lambda (\w+): str\(\2\)$")


def set_funcs(py) -> Set[str]:
    out = set()
    for mod, fn in py.all_functions():
        if fn.returns is not None and re.search(r"\bSet\[|\bset\b", ast.unparse(fn.returns)):
            out.add(fn.name)
    return out


def is_set_expr(e: ast.AST, local_sets: Set[str], attrs: Set[str], funcs: Set[str]) -> bool:
    if isinstance(e, (ast.Set, ast.SetComp)):
        return True
    if isinstance(e, ast.Call):
        cn = call_name(e)
        last = cn.split(".")[-1]
        if cn in ("set", "frozenset"):
            return True
        if cn == "sorted" and e.args:
            keyed = [k for k in e.keywords if k.arg == "key"]
            if keyed and isinstance(keyed[0].value, ast.Constant) and keyed[0].value.value is None:
                return False
            if keyed and isinstance(keyed[0].value, ast.Name) and f"<none:{keyed[0].value.id}>" in attrs:
                return False     # key=<parameter that is None on every call path>: the natural total order
            if keyed and not TOTAL_KEY.search(ast.unparse(keyed[0].value)):
                # a stable sort with a non-injective key keeps the set's order among equal keys
                return is_set_expr(e.args[0], local_sets, attrs, funcs)
            return False
        if last in ("glob", "rglob", "iterdir", "listdir", "scandir"):
            return True
        if last in funcs:
            return True
        if last in ("union", "intersection", "difference", "symmetric_difference", "copy") and \
                isinstance(e.func, ast.Attribute):
            return is_set_expr(e.func.value, local_sets, attrs, funcs)
        if cn in ("list", "tuple", "iter", "enumerate", "reversed", "ProgressBar", "chain", "itertools.chain",
                  "filter", "map") or last == "ProgressBar":
            args = list(e.args)
            if cn in ("filter", "map"):
                args = args[1:]
            if last == "ProgressBar":
                args = args[1:2]
            return any(is_set_expr(a, local_sets, attrs, funcs) for a in args)
        return False
    if isinstance(e, ast.NamedExpr):
        return is_set_expr(e.value, local_sets, attrs, funcs)
    if isinstance(e, ast.BinOp) and isinstance(e.op, (ast.BitOr, ast.BitAnd, ast.Sub, ast.BitXor)):
        def keys_view(x):
            return isinstance(x, ast.Call) and isinstance(x.func, ast.Attribute) and x.func.attr in ("keys", "items") and not x.args
        if keys_view(e.left) or keys_view(e.right):
            return True     # dict views combined with a set operator give a set
        return is_set_expr(e.left, local_sets, attrs, funcs) or is_set_expr(e.right, local_sets, attrs, funcs)
    if isinstance(e, ast.Name):
        return e.id in local_sets
    if isinstance(e, ast.Attribute):
        if isinstance(e.value, ast.Name) and e.value.id == "self" and "<self>" in attrs:
            return ("self." + e.attr) in attrs
        return e.attr in attrs
    if isinstance(e, ast.Starred):
        return is_set_expr(e.value, local_sets, attrs, funcs)
    return False


def local_set_names(fn: ast.AST, attrs: Set[str], funcs: Set[str]) -> Set[str]:
    names: Set[str] = set()
    changed = True
    while changed:
        changed = False
        for n in ast.walk(fn):
            tgt = None
            val = None
            if isinstance(n, ast.Assign) and len(n.targets) == 1 and isinstance(n.targets[0], ast.Name):
                tgt, val = n.targets[0].id, n.value
            elif isinstance(n, ast.AnnAssign) and isinstance(n.target, ast.Name) and n.value is not None:
                tgt, val = n.target.id, n.value
                if re.search(r"\bSet\[", ast.unparse(n.annotation)) and tgt not in names:
                    names.add(tgt)
                    changed = True
            elif isinstance(n, ast.NamedExpr):
                tgt, val = n.target.id, n.value
            if tgt and tgt not in names and val is not None and is_set_expr(val, names, attrs, funcs):
                names.add(tgt)
                changed = True
    return names


def module_set_names(tree: ast.Module) -> Set[str]:
    out: Set[str] = set()
    for st in tree.body:
        tgt = st.targets[0] if isinstance(st, ast.Assign) and len(st.targets) == 1 else (st.target if isinstance(st, ast.AnnAssign) else None)
        val = getattr(st, "value", None)
        if isinstance(tgt, ast.Name) and val is not None and is_set_expr(val, out, set(), set()):
            out.add(tgt.id)
    return out


def body_sensitivity(py, loop: ast.For) -> Tuple[bool, str]:
    """(order sensitive?, reason)."""
    for n in ast.walk(ast.Module(body=list(loop.body), type_ignores=[])):
        if isinstance(n, (ast.Yield, ast.YieldFrom)):
            return True, "yields in iteration order"
        if isinstance(n, ast.Call):
            cn = call_name(n)
            last = cn.split(".")[-1]
            if last in ("append", "extend", "insert", "write", "writelines", "node", "edge", "print",
                        "write_text", "write_bytes", "copy", "copytree", "register"):
                return True, f"calls .{last}() (order of effects follows iteration order)"
            if last and last[0].isupper() and last not in ("Path", "ExternalModule"):
                return True, f"constructs {last}(...) per element (creation order fixes names/ids)"
            if last.startswith("_fortran_file") or last in ("correlate", "prune", "markdown"):
                return True, f"calls {last}() per element"
        if isinstance(n, ast.Attribute) and n.attr == "ident" and isinstance(n.ctx, ast.Load):
            return True, "reads .ident (first access fixes the ~N numbering)"
        if isinstance(n, ast.Subscript) and isinstance(n.ctx, ast.Store) and isinstance(n.value, ast.Name):
            # a dict filled in iteration order keeps that order (insertion order) for everyone who iterates or
            # serialises it later
            return True, f"inserts into the mapping `{n.value.id}` in iteration order (dicts keep insertion order)"
    return False, "body only performs commutative updates"


def _roots_sorted(py) -> bool:
    init = py.func("FortranGraph.__init__")
    ga = py.func("GraphManager.graph_all")
    uses = [ast.unparse(p) for n in ast.walk(ga) for p in [py.parents.get(n)]
            if isinstance(n, ast.Name) and n.id == "usenodes" and isinstance(n.ctx, ast.Load) and p is not None]
    only_ctor = all(u.startswith("usenodes.append") or u.startswith("ModuleGraph(usenodes") for u in uses)
    # the roots parameter (first parameter after self) is re-bound to a sorted sequence before it is iterated
    rp = [a.arg for a in init.args.args if a.arg != "self"][0]
    srt = [n for n in ast.walk(init) if isinstance(n, ast.Assign) and any(isinstance(t, ast.Name) and t.id == rp for t in n.targets)
           and isinstance(n.value, ast.Call) and call_name(n.value) == "sorted"]
    loops = [n for n in ast.walk(init) if isinstance(n, ast.For) and isinstance(n.iter, ast.Name) and n.iter.id == rp]
    sorted_first = bool(srt) and all(srt[0].lineno < l.lineno for l in loops)
    return sorted_first and only_ctor


def _order_insensitive_use(py, n: ast.AST, depth: int = 0) -> bool:
    """the value read at `n` is used in a way that does not depend on the order of its elements: a membership test, a set
    construction / sort, a copy into an attribute of the same name (whose reads are judged in turn), a declaration, or - possibly
    through a local, a display with `*`, chain()/product()/list() - the iterable of a loop whose body only performs commutative
    updates"""
    if depth > 4:
        return False
    cur = n
    while cur in py.parents:
        par = py.parents[cur]
        if isinstance(par, ast.Compare) and any(isinstance(o, (ast.In, ast.NotIn)) for o in par.ops) and cur in par.comparators:
            return True
        if isinstance(par, ast.Call) and cur is not par.func:
            last = call_name(par).split(".")[-1]
            if last in ("set", "frozenset", "sorted", "len", "any", "all"):
                return True
            if last not in ("chain", "product", "list", "tuple", "iter"):
                return False
        elif isinstance(par, (ast.Starred, ast.List, ast.Tuple, ast.BinOp, ast.keyword)):
            pass
        elif isinstance(par, (ast.For, ast.comprehension)) and cur is par.iter:
            if isinstance(par, ast.For):
                return not body_sensitivity(py, par)[0]
            comp = py.parents.get(par)
            cpar = py.parents.get(comp)
            return isinstance(comp, ast.SetComp) or (isinstance(cpar, ast.Call) and call_name(cpar).split(".")[-1] in (
                "set", "frozenset", "sorted", "any", "all", "update", "len", "sum"))
        elif isinstance(par, ast.AnnAssign):
            return True               # the declaration of the field
        elif isinstance(par, ast.Assign) and cur is par.value and len(par.targets) == 1:
            t = par.targets[0]
            if isinstance(t, ast.Attribute) and isinstance(n, ast.Attribute) and t.attr == n.attr:
                return True           # copied under the same name: the reads of the copy are reads of `.extensions` as well
            if isinstance(t, ast.Name):
                fn = py.enclosing_function(par)
                if fn is None:
                    return False
                loads = [x for x in ast.walk(fn) if isinstance(x, ast.Name) and x.id == t.id and isinstance(x.ctx, ast.Load)]
                return bool(loads) and all(_order_insensitive_use(py, x, depth + 1) for x in loads)
            return False
        elif isinstance(par, ast.stmt):
            return False
        elif not isinstance(par, ast.expr):
            return False
        elif isinstance(par, (ast.Attribute, ast.Subscript, ast.JoinedStr, ast.FormattedValue)):
            # `.extensions` inside a message / indexed: a message prints the list (order visible) - only f-strings of
            # error messages do that today
            return isinstance(par, (ast.JoinedStr, ast.FormattedValue)) and any(
                isinstance(a, ast.Raise) for a in _ancestors(py, par))
        cur = par
    return False


def _ancestors(py, n):
    while n in py.parents:
        n = py.parents[n]
        yield n


def _extensions_unordered_uses(py) -> bool:
    """every read of `.extensions` is a membership test, a set construction or feeds the glob product."""
    ok = True
    for mod, tree in py.modules.items():
        for n in ast.walk(tree):
            if isinstance(n, ast.Attribute) and n.attr == "extensions" and isinstance(n.ctx, ast.Load):
                if not _order_insensitive_use(py, n):
                    ok = False
    return ok


EXEMPT = {
    ("graphs.GraphManager.graph_all", "self.blockdata"):
        ("the list is only handed to ModuleGraph(...), and FortranGraph.__init__ sorts its roots", _roots_sorted),
    ("settings.ProjectSettings.__post_init__", "set(self.extensions) | set(self.fpp_extensions)"):
        ("`extensions` is only used for membership tests, set construction and the glob product (a set)",
         _extensions_unordered_uses),
}


def none_params(py, fn) -> Set[str]:
    """'<none:p>' for every parameter p whose default is None and to which no call site passes anything but the
    same-named parameter of the caller (forwarding) or None"""
    out: Set[str] = set()
    a = fn.args
    pos = a.posonlyargs + a.args
    defaults = dict(zip([x.arg for x in pos][len(pos) - len(a.defaults):], a.defaults))
    defaults.update({x.arg: d for x, d in zip(a.kwonlyargs, a.kw_defaults) if d is not None})
    cands = [p for p, d in defaults.items() if isinstance(d, ast.Constant) and d.value is None]
    if not cands:
        return out
    names = [x.arg for x in pos]
    idx = py.__dict__.get("_calls_by_last")
    if idx is None:
        idx = py.__dict__["_calls_by_last"] = {}
        for t in py.modules.values():
            for c in ast.walk(t):
                if isinstance(c, ast.Call):
                    idx.setdefault(call_name(c).split(".")[-1], []).append(c)
    sites = idx.get(fn.name, [])
    for p in cands:
        ok = True
        for c in sites:
            vals = [k.value for k in c.keywords if k.arg == p]
            i = names.index(p) if p in names else None
            if i is not None:
                off = 1 if names and names[0] in ("self", "cls") and isinstance(c.func, ast.Attribute) else 0
                if 0 <= i - off < len(c.args):
                    vals.append(c.args[i - off])
            for v in vals:
                if not ((isinstance(v, ast.Constant) and v.value is None) or (isinstance(v, ast.Name) and v.id == p)):
                    ok = False
        if ok:
            out.add(f"<none:{p}>")
    return out


def r1_unordered_iteration(ctx, rep):
    py = ctx.py
    funcs = set_funcs(py)
    n_sets = 0
    allf = list(py.all_functions())
    for mod, tree in py.modules.items():
        mattrs = set_attrs(py, mod)
        if mod in ("graphs", "output"):
            mattrs |= set_attrs(py, "sourceform")
        n_sets += len(mattrs)
        for _, fn in [(m, f) for m, f in allf if m == mod]:
            cls = py.enclosing_class(fn)
            attrs = set(mattrs) | none_params(py, fn)
            if cls:
                # self.X is judged by what this class (and its bases) assign to X
                attrs |= {"<self>"} | {"self." + a for a in class_set_attrs(py, cls)}
            locs = local_set_names(fn, attrs, funcs)
            # module-level tables that are sets (`NAMES = {"a", "b"}`): iterating them inside a function is iterating a set,
            # unless the function has a local of that name
            bound = {n.id for n in ast.walk(fn) if isinstance(n, ast.Name) and isinstance(n.ctx, ast.Store)} | \
                {a.arg for a in fn.args.args + fn.args.kwonlyargs}
            locs |= {nm for nm in module_set_names(tree) if nm not in bound}
            for st in ast.walk(fn):
                loops: List[Tuple[ast.AST, ast.AST, str]] = []
                if isinstance(st, ast.For):
                    loops.append((st, st.iter, "for"))
                elif isinstance(st, (ast.ListComp, ast.GeneratorExp, ast.DictComp)):
                    for g in st.generators:
                        loops.append((st, g.iter, "comprehension"))
                elif isinstance(st, ast.Call) and call_name(st) in ("list", "tuple") and st.args:
                    loops.append((st, st.args[0], "list()"))
                for node, it, kind in loops:
                    if py.enclosing_function(node) is not fn and node is not fn:
                        continue
                    if isinstance(it, ast.Call) and call_name(it) in ("sorted",):
                        keyed = [k for k in it.keywords if k.arg == "key"]
                        if keyed and it.args and is_set_expr(it.args[0], locs, attrs, funcs):
                            kt = ast.unparse(keyed[0].value)
                            total = re.search(r"\.ident\b|str\(\w+\)\)?$|lambda (\w+): \1$", kt) is not None
                            rep.ob(f"{py.qualname(fn)} sorted(set, key={kt[:40]})", total,
                                   "sort key is total on the elements" if total else
                                   f"`{ast.unparse(it)[:80]}` sorts a set with the key `{kt}`: elements with equal keys keep "
                                   f"the set's hash order (the sort is stable), so the result still depends on PYTHONHASHSEED",
                                   py.nloc(node))
                        continue
                    if not is_set_expr(it, locs, attrs, funcs):
                        continue
                    q = py.qualname(fn)
                    core = it
                    while True:
                        if isinstance(core, ast.NamedExpr):
                            core = core.value
                        elif isinstance(core, ast.Call) and call_name(core).split(".")[-1] == "ProgressBar" and len(core.args) > 1:
                            core = core.args[1]
                        elif isinstance(core, ast.Call) and call_name(core) in ("list", "enumerate", "iter") and core.args:
                            core = core.args[0]
                        else:
                            break
                    itxt = ast.unparse(core)[:60]
                    if kind == "for":
                        sens, why = body_sensitivity(py, node)
                    elif kind == "comprehension":
                        # a list built from a set keeps hash order unless the result is sorted/consumed as a set
                        par = py.parents.get(node)
                        consumed = isinstance(par, ast.Call) and call_name(par) in (
                            "sorted", "set", "frozenset", "any", "all", "sum", "len", "max", "min") \
                            or isinstance(node, ast.GeneratorExp) and isinstance(par, ast.Call) and \
                            call_name(par).split(".")[-1] in ("update", "any", "all", "sum", "sorted", "set", "max", "min")
                        if isinstance(par, ast.Call) and call_name(par).split(".")[-1] in ("extend",) and \
                                ast.unparse(par.func.value) == "args":
                            consumed = True  # process_map argument list: one independent job per element
                        sens, why = (not consumed), ("list keeps the set's hash order" if not consumed else
                                                     "result is consumed order-insensitively")
                    else:
                        par = py.parents.get(node)
                        consumed = isinstance(par, ast.Call) and call_name(par) in ("sorted", "len", "set")
                        sens, why = (not consumed), ("list(set) keeps hash order" if not consumed else
                                                     "immediately sorted / only counted")
                    ex = EXEMPT.get((q, itxt))
                    if sens and ex and ex[1](py):
                        rep.ob(f"{q} {kind} over {itxt}", True, "exempt: " + ex[0], py.nloc(node), nontrivial=False)
                        continue
                    rep.ob(f"{q} {kind} over {itxt}", not sens,
                           (f"unordered value iterated, {why}" if not sens else
                            f"`{itxt}` is a set (iteration order depends on PYTHONHASHSEED / file-system "
                            f"enumeration) and the loop {why}"), py.nloc(node))
    rep.stats["set_typed_attributes"] = n_sets
    # templates: loops over attributes that Python turns into sets
    attrs = set_attrs(py, "sourceform")
    j = ctx.j
    for tname, t in j.templates.items():
        for f in t.find_all(N.For):
            it = f.iter
            core = it
            sorted_ = False
            folded = None
            while isinstance(core, N.Filter):
                if core.name in ("sort", "dictsort"):
                    sorted_ = True
                    # Jinja's sort compares strings case-insensitively unless told otherwise: elements that differ only in
                    # capitalisation compare equal and keep the order in which the set yields them
                    cs = [k.value for k in core.kwargs if k.key == "case_sensitive"]
                    if not (cs and isinstance(cs[0], N.Const) and cs[0].value is True):
                        folded = core
                core = core.node
            if isinstance(core, N.Getattr) and core.attr in attrs and sorted_ and folded is not None:
                rep.ob(f"template={tname} for over .{core.attr}", False,
                       f"{{% for ... in {sym(it)} %}}: `{core.attr}` is a set and `sort` without `case_sensitive=True` is not a total "
                       f"order (`Zlib` and `zlib` compare equal): their relative order - and the bytes of the page - follow "
                       f"PYTHONHASHSEED", f"ford/templates/{tname}:{f.lineno}")
                continue
            if isinstance(core, N.Getattr) and core.attr in attrs:
                rep.ob(f"template={tname} for over .{core.attr}", sorted_,
                       (f"set-typed attribute `{core.attr}` is sorted before iteration" if sorted_ else
                        f"{{% for ... in {sym(it)} %}}: `{core.attr}` is replaced by a set in "
                        f"FortranCodeUnit.correlate, so the rendered order changes with PYTHONHASHSEED"),
                       f"ford/templates/{tname}:{f.lineno}")

def output_dir_excluded_as_path(ctx, rep):
    """exclude_dir entries are glob patterns (documented so), the output directory is a path: it must be excluded by a
    path relation (or be escaped where it is turned into a pattern).  Otherwise an output directory whose name contains
    a glob metacharacter (`doc[v1]`) is not excluded and the `src/` copies of a previous run are parsed as sources.
    """
    py = ctx.py
    faf = py.func("fortran_project.find_all_files")
    def is_output(e) -> bool:
        return any(isinstance(a, ast.Attribute) and a.attr == "output_dir" for a in ast.walk(e))
    by_path = []
    for c in ast.walk(faf):
        if isinstance(c, ast.Compare) and len(c.ops) == 1 and isinstance(c.ops[0], (ast.In, ast.NotIn)) and is_output(c.left) and \
                any(isinstance(a, ast.Attribute) and a.attr == "parents" for a in ast.walk(c.comparators[0])):
            by_path.append(c)
        if isinstance(c, ast.Call) and isinstance(c.func, ast.Attribute) and c.func.attr in ("is_relative_to", "relative_to") and \
                c.args and is_output(c.args[0]):
            by_path.append(c)
        if isinstance(c, ast.Call) and call_name(c).split(".")[-1] == "commonpath" and is_output(c):
            by_path.append(c)
    escaped = []
    appends = []
    for q in ("ProjectSettings.__post_init__", "__init__.parse_arguments"):
        fn = py.func(q)
        for c in py.walk_calls(fn):
            if isinstance(c.func, ast.Attribute) and c.func.attr in ("append", "extend", "insert") and \
                    ast.unparse(c.func.value).endswith("exclude_dir") and c.args and is_output(c.args[-1]):
                appends.append(c)
                if any(isinstance(k, ast.Call) and call_name(k).split(".")[-1] == "escape" for k in ast.walk(c.args[-1])):
                    escaped.append(c)
    if not appends and not by_path:
        raise AnalysisError("no exclusion of the output directory from the source search found")
    ok = bool(by_path) or (bool(appends) and len(escaped) == len(appends))
    rep.ob("the output directory is excluded as a path, not as a glob pattern", ok,
           "files below settings.output_dir are dropped by a path relation" if by_path else
           ("the pattern is built with glob.escape" if ok else
            f"`{ast.unparse(appends[0])[:70]}` turns the output directory into an fnmatch pattern: with `output_dir: ./doc[v1]` inside a "
            f"source directory the pattern `<abs>/doc[v1]/*` never matches, the previous run's `doc[v1]/src/*.f90` copies are parsed "
            f"as sources (stale entities documented, or SameFileError)"),
           py.nloc(by_path[0] if by_path else appends[0]), nontrivial=not ok)


def r2_stale_output(ctx, rep):
    """Decided on the event trace of Documentation.writeout with its own helpers (methods and module functions)
    inlined: the removal of the output directory precedes every write."""
    py = ctx.py
    fn = py.func("Documentation.writeout")
    ev = astq.trace(fn, astq.class_method_resolver(py, "Documentation", "output"), max_depth=2)
    outv = {e.target for e in ev if e.kind == "assign" and e.value is not None and "output_dir" in e.text(e.value)} | {"out_dir"}

    def is_out(txt: str) -> bool:
        return txt in outv or "output_dir" in txt

    WRITES = ("mkdir", "copytree", "copy", "copyfile", "write_bytes", "write_text", "writeout", "output_graphs", "print_output", "makedirs")
    rm = [e for e in ev if e.kind == "call" and call_name(e.node).split(".")[-1] == "rmtree" and e.node.args and is_out(e.text(e.node.args[0]))]
    ul = [e for e in ev if e.kind == "call" and isinstance(e.node.func, ast.Attribute) and e.node.func.attr == "unlink"
          and is_out(e.text(e.node.func.value))]
    ul += [e for e in ev if e.kind == "call" and call_name(e.node) in ("os.remove", "os.unlink") and e.node.args and is_out(e.text(e.node.args[0]))]
    writes = [e for e in ev if e.kind in ("call", "inline") and call_name(e.node).split(".")[-1] in WRITES
              and not (e.kind == "inline")]
    removal = (rm + ul)
    first_rm = min((ev.index(e) for e in removal), default=None)
    last_rm = max((ev.index(e) for e in removal), default=None)
    first_write = min((ev.index(e) for e in writes), default=None)
    ok = first_rm is not None and first_write is not None and last_rm < first_write
    rep.ob("writeout: removal of out_dir dominates every write", ok,
           "the output directory is removed (file -> unlink, else rmtree) before anything is created" if ok else
           "writeout no longer removes an existing output directory before writing: files of an earlier "
           "run survive", py.nloc(removal[0].node if removal else fn))
    if removal:
        ok = bool(rm) and bool(ul)
        rep.ob("writeout: both file and directory cases removed", ok,
               "is_file -> unlink, otherwise rmtree" if ok else
               f"only {'rmtree' if rm else 'unlink'} is applied to the output path: an existing {'file' if rm else 'directory'} "
               f"at that path is not removed", py.nloc(removal[0].node))
    # what an earlier run left in the output directory is not read back as a source (shared with C19.R5)
    output_dir_excluded_as_path(ctx, rep)
    # directory creation must fail on leftovers (no exist_ok) so that a failed removal is not masked
    for e in ev:
        if e.kind == "call" and isinstance(e.node.func, ast.Attribute) and e.node.func.attr == "mkdir":
            recv = e.text(e.node.func.value)
            base = re.split(r"\s*/\s*|\.joinpath\(", recv.strip("()"))[0]
            if not is_out(base):
                continue
            eo = [k for k in e.node.keywords if k.arg == "exist_ok"]
            ok = not eo or (isinstance(eo[0].value, ast.Constant) and not eo[0].value.value)
            rep.ob(f"writeout mkdir {'out_dir' if is_out(recv) else 'out_dir/<sub-directory>'}", ok,
                   "created without exist_ok: nothing can be left over at that path" if ok else
                   "mkdir(exist_ok=True) silently accepts a directory left by an earlier run", py.nloc(e.node))
    ct = py.func("output.copytree")
    for c in py.walk_calls(ct):
        if call_name(c) == "shutil.copytree":
            de = [k for k in c.keywords if k.arg == "dirs_exist_ok"]
            ok = not de or (isinstance(de[0].value, ast.Constant) and not de[0].value.value)
            rep.ob("copytree dirs_exist_ok", ok, "asset trees are copied into fresh directories only" if ok else
                   "dirs_exist_ok=True merges into whatever an earlier run left", py.nloc(c))


def _identity_only_for_membership(py, c: ast.Call, fn) -> bool:
    """`id(x)` whose value is only compared (`id(x) in seen`, `==`) or put into a local collection that is itself only used
    for membership tests: no order, text or file content can depend on it"""
    p = py.parents.get(c)
    if isinstance(p, ast.Compare):
        return True
    if isinstance(p, ast.Call) and isinstance(p.func, ast.Attribute) and p.func.attr in ("add", "discard", "remove", "append") \
            and isinstance(p.func.value, ast.Name) and fn is not None:
        coll = p.func.value.id
        for u in ast.walk(fn):
            if isinstance(u, ast.Name) and u.id == coll and isinstance(u.ctx, ast.Load):
                q = py.parents.get(u)
                if isinstance(q, ast.Attribute) and q.attr in ("add", "discard", "remove", "append"):
                    continue
                if isinstance(q, ast.Compare) and any(u is x for x in q.comparators) and \
                        all(isinstance(o, (ast.In, ast.NotIn)) for o in q.ops):
                    continue
                return False
        return True
    return False


def r3_clock(ctx, rep):
    py = ctx.py
    n = 0
    for mod, tree in py.modules.items():
        for c in ast.walk(tree):
            if not isinstance(c, ast.Call):
                continue
            cn = call_name(c)
            if cn in ("time.time", "time.perf_counter", "time.monotonic", "datetime.now", "datetime.datetime.now",
                      "date.today", "datetime.date.today", "os.getpid", "uuid.uuid4", "uuid.uuid1",
                      "random.random", "random.randint", "random.choice", "id", "time.strftime", "time.localtime"):
                n += 1
                # where does it flow?  statement-level check
                st = c
                while st in py.parents and not isinstance(st, ast.stmt):
                    st = py.parents[st]
                txt = ast.unparse(st)
                fn = py.enclosing_function(c)
                ok = False
                why = ""
                if isinstance(st, ast.Assign) and len(st.targets) == 1:
                    tname = ast.unparse(st.targets[0])
                    if tname.endswith("creation_date"):
                        ok, why = True, "flows to creation_date (printed only under print_creation_date)"
                    elif isinstance(st.targets[0], ast.Name):
                        # local timing variable: every use must be inside a print()/f-string message
                        uses = [u for u in ast.walk(fn) if isinstance(u, ast.Name) and u.id == tname
                                and isinstance(u.ctx, ast.Load)]
                        okuses = True
                        for u in uses:
                            p = u
                            inprint = False
                            while p in py.parents and p is not fn:
                                p = py.parents[p]
                                if isinstance(p, ast.Call) and call_name(p) in ("print", "warn", "console.print"):
                                    inprint = True
                            okuses &= inprint
                        ok, why = okuses, "timing value used only in console messages"
                elif cn == "id" and "__hash__" in (fn.name if fn else ""):
                    ok, why = True, "fallback hash"
                elif cn == "id" and _identity_only_for_membership(py, c, fn):
                    ok, why = True, "identity used only for membership tests (an `in` test / a set that is never iterated)"
                elif isinstance(st, ast.AnnAssign) and "default_factory" in txt or "year" in txt:
                    ok, why = True, "default for the `year` setting"
                rep.ob(f"{py.qualname(fn) if fn else mod} {cn}()", ok,
                       why if ok else f"`{txt[:80]}`: a clock/identity value may reach the generated output",
                       py.nloc(c))
    # templates print creation_date only under print_creation_date
    for o in ctx.j.outputs:
        if "creation_date" in o.src and o.src != "print_creation_date":
            ok = any(sym(cnd[2]) == "print_creation_date" and cnd[1] for cnd in o.conds)
            rep.ob(f"template={o.template} creation_date", ok,
                   "timestamp printed only under print_creation_date" if ok else
                   "creation timestamp printed unconditionally", o.loc)
    if n == 0:
        raise AnalysisError("no clock call found (datetime.now for creation_date expected)")


def r4_graph_emission(ctx, rep):
    from . import c13
    c13.r5_sorted_emission(ctx, rep)


def r5_serial_parallel_agree(ctx, rep):
    """worker count: the serial and the parallel branch of output_graphs write the same graphs."""
    py = ctx.py
    fn = py.func("GraphManager.output_graphs")
    # the branch on the worker-count parameter (first parameter after self): `if <njobs> == 0: serial else: parallel`
    wp = [a.arg for a in fn.args.args if a.arg != "self"][0]
    br = [n for n in fn.body if isinstance(n, ast.If) and n.orelse and any(isinstance(x, ast.Name) and x.id == wp for x in ast.walk(n.test))]
    if not br:
        raise AnalysisError("output_graphs: the branch on the worker count was not found")
    br_loc = br[0]
    if isinstance(br[0].test, ast.Compare) and isinstance(br[0].test.ops[0], (ast.NotEq, ast.Gt)) or \
            (isinstance(br[0].test, ast.Name)):
        br[0] = ast.copy_location(ast.If(test=br[0].test, body=br[0].orelse, orelse=br[0].body), br[0])     # `if njobs != 0 / > 0 / njobs:` puts the parallel branch first
    serial, parallel = br[0].body, br[0].orelse
    # both branches may be fed from one list built before the branch: then they write the same graphs by construction
    def fed_from(stmts) -> Set[str]:
        names: Set[str] = set()
        for st in stmts:
            for n in ast.walk(st):
                if isinstance(n, (ast.For, ast.comprehension)) and isinstance(n.iter, ast.Name):
                    names.add(n.iter.id)
                if isinstance(n, ast.Call) and call_name(n).split(".")[-1] == "process_map" and len(n.args) > 1 and isinstance(n.args[1], ast.Name):
                    names.add(n.args[1].id)
        return names
    local_lists = {t.id for st in fn.body[:fn.body.index(br_loc if 'br_loc' in dir() else br[0])] if isinstance(st, ast.Assign)
                   for t in st.targets if isinstance(t, ast.Name)} if (br_loc if 'br_loc' in dir() else br[0]) in fn.body else set()
    shared = fed_from(serial) & fed_from(parallel) & local_lists
    writes_serial = any(isinstance(c, ast.Call) and call_name(c).endswith(".create_svg") for st in serial for c in ast.walk(st))
    if shared and writes_serial:
        filt = [n for st in parallel for n in ast.walk(st) if isinstance(n, ast.comprehension) and n.ifs]
        rep.ob("output_graphs: serial and parallel branch are fed from the same list", not filt,
               f"both branches iterate `{sorted(shared)[0]}`, which is built once before the branch" if not filt else
               f"the parallel branch filters the shared list by `{ast.unparse(filt[0].ifs[0])}`", py.nloc(br_loc))
        rep.ob("output_graphs: parallel work list is not filtered", not filt, "", py.nloc(br_loc))
        rep.ob("output_graphs: both branches understood", True, "shared work list", py.nloc(br_loc), nontrivial=False)
        return
    s_map: Dict[str, Set[str]] = {}
    for st in serial:
        if isinstance(st, ast.For):
            coll = ast.unparse(st.iter)
            for c in py.walk_calls(st):
                if call_name(c).endswith(".create_svg"):
                    s_map.setdefault(coll, set()).add(call_name(c).split(".")[-2])
    p_map: Dict[str, Set[str]] = {}
    filtered = []
    for c in ast.walk(ast.Module(body=parallel, type_ignores=[])):
        if isinstance(c, ast.ListComp) and isinstance(c.elt, ast.Tuple):
            coll = ast.unparse(c.generators[0].iter)
            graphs = {e.attr for e in c.elt.elts if isinstance(e, ast.Attribute) and e.attr.endswith("graph")}
            p_map.setdefault(coll, set()).update(graphs)
            if c.generators[0].ifs:
                filtered.append((coll, ast.unparse(c.generators[0].ifs[0])))
    if len(s_map) < 5 or len(p_map) < 5:
        raise AnalysisError("output_graphs: serial/parallel branches not understood")
    for coll in sorted(set(s_map) | set(p_map)):
        ok = s_map.get(coll) == p_map.get(coll)
        rep.ob(f"output_graphs {coll}: same graphs in both branches", ok,
               f"{sorted(s_map.get(coll, []))}" if ok else
               f"serial writes {sorted(s_map.get(coll, []))}, parallel writes {sorted(p_map.get(coll, []))}", py.nloc(br_loc))
    rep.ob("output_graphs: parallel work list is not filtered", not filtered,
           "every entity of every collection is handed to the workers" if not filtered else
           f"the parallel branch filters {filtered[0][0]} by `{filtered[0][1]}` while the serial branch writes all graphs of "
           f"every entity: with parallel > 0 the other graph of a filtered entity is not written", py.nloc(br_loc))


def r6_naming_order(ctx, rep):
    """NameSelector hands out the ~N suffix on first request. Comparison methods that read `.ident` are
    invoked by sorted()/toposort over *sets* of entities (identity hashes, different in every process), so
    unless every top-level entity's name was requested before, in list order, same-named entities swap
    their page names between runs."""
    py = ctx.py
    readers = []
    for cname, ci in py.classes.items():
        if ci.module != "sourceform":
            continue
        for m in ("__lt__", "__gt__", "__le__", "__ge__", "__eq__", "__hash__"):
            fn = ci.methods.get(m)
            if fn is not None and any(isinstance(a, ast.Attribute) and a.attr == "ident" for a in ast.walk(fn)):
                readers.append(f"{cname}.{m}")
    fn = py.func("Project.correlate")
    first_sort = min([c.lineno for c in py.walk_calls(fn) if call_name(c).endswith("toposort_flatten")
                      or call_name(c) == "sorted"] or [10 ** 9])
    def iter_text(it: ast.AST, depth: int = 0) -> str:
        """the iterable with the locals it is made of written out (`chain(units, declared)` -> the two definitions)"""
        t = ast.unparse(it)
        if depth < 3:
            for nm in {x.id for x in ast.walk(it) if isinstance(x, ast.Name)}:
                for _st, v in astq.assignments(fn, nm):
                    if v is not None:
                        t += " | " + iter_text(v, depth + 1)
        return t
    pre = None
    for st in fn.body:
        if isinstance(st, ast.For) and st.lineno < first_sort and any(
                isinstance(a, ast.Attribute) and a.attr == "ident" for a in ast.walk(st)):
            lists = re.findall(r"self\.(\w+)", iter_text(st.iter))
            if {"modules", "submodules", "procedures", "programs"} <= set(lists):
                pre = st
    if not readers:
        rep.ob("entity comparisons do not consult the page-name registry", True, "no comparison method reads .ident", py.nloc(fn))
        return
    ok = pre is not None
    rep.ob("page names are requested in list order before any sorting of entity sets", ok,
           f"{readers} read .ident, and Project.correlate requests the names of all top-level entities in list order first"
           if ok else
           f"{readers} read `.ident` (first request fixes the ~N suffix) and are first invoked from "
           f"toposort_flatten/sorted over sets of entities hashed by identity: modules of the same name in different "
           f"files swap `name` / `name~2` between runs even with PYTHONHASHSEED fixed", py.nloc(pre) if pre is not None else py.nloc(fn))
    # nested entities (types, bindings, variables ...): named in source order as well
    nested = [st for st in ast.walk(fn) if isinstance(st, ast.For) and st.lineno < first_sort
              and any(isinstance(a, ast.Attribute) and a.attr == "ident" for a in ast.walk(st))
              and (any("markdownable_items" in ast.unparse(x.iter) or "_to_be_markdowned" in ast.unparse(x.iter)
                       for x in ast.walk(st) if isinstance(x, ast.For))
                   or "markdownable_items" in iter_text(st.iter) or "_to_be_markdowned" in iter_text(st.iter))]
    rep.ob("every declared entity is named in source order before any sorting", bool(nested),
           "Project.correlate walks the files' registered entities in order and requests their names first" if nested else
           f"only the top-level units are named up front: a derived type / binding / variable gets its ~N suffix when "
           f"{readers} is first invoked from a sort over a set, so equal names in different scopes swap suffixes between runs",
           py.nloc(nested[0]) if nested else py.nloc(fn))
    # entities created during correlation (copies of inherited generic bindings)
    copies = [c for cname, ci in py.classes.items() if ci.module == "sourceform" for mname, m in ci.methods.items() if mname == "correlate"
              for c in py.walk_calls(m) if call_name(c) in ("copy.copy", "copy.deepcopy", "copy")]
    corr_line = min([n.lineno for n in ast.walk(fn) if isinstance(n, ast.For) and any(
        isinstance(c, ast.Call) and isinstance(c.func, ast.Attribute) and c.func.attr == "correlate" for c in ast.walk(n))] or [0])
    if copies:
        later = [st for st in ast.walk(fn) if isinstance(st, ast.For) and st.lineno > corr_line
                 and any(isinstance(a, ast.Attribute) and a.attr == "ident" for a in ast.walk(st))
                 and "boundprocs" in ast.unparse(st)]
        at_site = all(any(isinstance(a, ast.Attribute) and a.attr == "ident" and isinstance(py.parents.get(a), ast.Expr)
                          for a in ast.walk(py.enclosing_function(c))) for c in copies)
        ok = bool(later) or at_site
        rep.ob("entities copied during correlation are named in a fixed order", ok,
               "inherited generic bindings (copies) are named in list order after correlation" if ok else
               f"{len(copies)} correlate() method(s) create entity copies (inherited generic bindings); nothing names them before the "
               f"graph code sorts sets of them, so their `~N` suffixes (anchors, node ids) depend on the hash seed",
               py.nloc(copies[0]))



def r7_canonical_paths(ctx, rep):
    """the output directory is kept out of the source search by comparing path texts: that only works when every
    configured path is canonical (symlinks and `..` resolved) - shared with C19.R3"""
    from . import c19
    c19.r3_resolved_paths(ctx, rep)

def r8_identity_key(ctx, rep):
    """equality of graph nodes is not coarser than their displayed text (generic rule `lossy_identity_key`): otherwise the
    spelling that survives in a set depends on insertion order, i.e. on PYTHONHASHSEED"""
    from . import common
    common.lossy_identity_key(ctx, rep)


RULES = [
    RuleSpec("C12.R6", r6_naming_order, "page-name numbering does not depend on set iteration order", floor=1),
    RuleSpec("C12.R5", r5_serial_parallel_agree, "serial and parallel graph output agree", floor=3),
    RuleSpec("C12.R4", r4_graph_emission, "graph node/edge emission iterates sorted views (shared with C13.R5)", floor=10),
    RuleSpec("C12.R1", r1_unordered_iteration, "no unordered source reaches an order-sensitive sink unsorted", floor=10),
    RuleSpec("C12.R2", r2_stale_output, "stale output cannot survive", floor=2),
    RuleSpec("C12.R3", r3_clock, "clock and identity stay out of the output", floor=4),
    RuleSpec("C12.R7", r7_canonical_paths, "configured paths are canonical (shared with C19.R3)", floor=1),
    RuleSpec("C12.R8", r8_identity_key, "node identity keeps differently spelled names apart", floor=1),
]
