"""C15 — options mean the same in every configuration format, with CLI precedence (structural)."""
from __future__ import annotations

import ast
import re
from typing import Dict, List, Optional, Set, Tuple

from ..core import AnalysisError, RuleSpec
from ..pymodel import call_name
from .. import astq

EXPLANATION = (
    "Schema-driven rules over settings.py / __init__.py. R1 (no stale derived state): the pairs "
    "(derived field <- source fields) are extracted from ProjectSettings.__post_init__; the fields "
    "assignable after construction are extracted from parse_arguments (argparse dests, and every "
    "field through --config); a source must not be assignable after its derivation unless the "
    "derivation is re-established on that path. R2: convert_setting has an applicable branch for "
    "every declared field type, Dict[str,str] fields have separators, and the empty-entry filter "
    "dominates both dictionary sub-branches. R3: every conversion that can raise on ill-typed text "
    "is wrapped so that the message names the option. R5: every entry path (markdown metadata, "
    "fpm.toml, --config) filters unknown keys with a warning instead of failing or storing them. R6: "
    "precedence file < --config < other CLI options; None does not override. R7: only schema fields are "
    "written onto the settings object. Equality of the effective configuration for concrete values is "
    "not decided."
    " R4: relative paths are rooted at the project file's directory on every entry path. R8: the markdown metadata grammar distinguishes key lines from continuation lines. R2 is decided on the inlined event trace of convert_setting."
    " Added after waves 6/7 - repeated metadata keys accumulate (lists agree between formats); CLI writes are guarded by schema membership and non-None, decided propositionally; path normalisation depends on the project directory only."
)
ASSUMPTIONS = ["argparse dest derivation: explicit dest= or the first long option name"]


def schema(py, cls: str) -> Dict[str, str]:
    ci = py.cls(cls)
    out = {}
    for st in ci.node.body:
        if isinstance(st, ast.AnnAssign) and isinstance(st.target, ast.Name):
            out[st.target.id] = ast.unparse(st.annotation)
    if len(out) < 10:
        raise AnalysisError(f"{cls}: dataclass fields not found")
    return out


def cli_dests(py) -> Dict[str, ast.Call]:
    fn = py.ifunc("__init__.get_command_line_arguments")      # canonical form: partial(parser.add_argument, ...) resolved
    out: Dict[str, ast.Call] = {}
    for c in py.walk_calls(fn):
        if call_name(c) != "parser.add_argument":
            continue
        dest = None
        for k in c.keywords:
            if k.arg == "dest" and isinstance(k.value, ast.Constant):
                dest = k.value.value
            if k.arg == "action" and isinstance(k.value, ast.Constant) and k.value.value in ("version", "help"):
                dest = "<none>"
        if dest is None:
            names = [a.value for a in c.args if isinstance(a, ast.Constant)]
            longs = [n for n in names if n.startswith("--")]
            dest = (longs[0][2:] if longs else names[0].lstrip("-")).replace("-", "_")
        if dest != "<none>":
            out[dest] = c
    if len(out) < 15:
        raise AnalysisError("argparse options not found")
    return out


def derivations(py) -> List[Tuple[str, Set[str], ast.AST, str]]:
    """(derived field, source fields, node, kind) from __post_init__."""
    fn = py.func("ProjectSettings.__post_init__")
    out = []

    def selfattrs(n: ast.AST) -> Set[str]:
        return {a.attr for a in ast.walk(n) if isinstance(a, ast.Attribute) and isinstance(a.value, ast.Name)
                and a.value.id == "self" and isinstance(a.ctx, ast.Load)}

    for st in fn.body:
        if isinstance(st, ast.Assign) and len(st.targets) == 1 and isinstance(st.targets[0], ast.Attribute) \
                and ast.unparse(st.targets[0].value) == "self":
            out.append((st.targets[0].attr, selfattrs(st.value), st, "assign"))
        elif isinstance(st, ast.Expr) and isinstance(st.value, ast.Call) and isinstance(st.value.func, ast.Attribute) \
                and st.value.func.attr in ("append", "update", "extend") and \
                isinstance(st.value.func.value, ast.Attribute) and ast.unparse(st.value.func.value.value) == "self":
            tgt = st.value.func.value.attr
            srcs = set()
            for a in st.value.args:
                srcs |= selfattrs(a)
            out.append((tgt, srcs or {tgt}, st, st.value.func.attr))
        elif isinstance(st, ast.For) and any(isinstance(c, ast.Call) and call_name(c) == "setattr" and len(c.args) == 3
                                             and ast.unparse(c.args[0]) == "self" and isinstance(c.args[2], ast.List)
                                             and len(c.args[2].elts) == 1 for c in ast.walk(st)):
            out.append(("<every List[...] field>", {"<every List[...] field>"}, st, "list-wrap"))
        elif isinstance(st, ast.If) and "extra_filetypes" in ast.unparse(st.test):
            out.append(("extra_filetypes", {"extra_filetypes"}, st, "list->dict"))
        elif isinstance(st, ast.For) and any(isinstance(r, ast.Raise) for r in ast.walk(st)):
            srcs = selfattrs(st) | ({"docmark", "predocmark", "docmark_alt", "predocmark_alt"}
                                    if "docmarks" in ast.unparse(st) else set())
            out.append(("<validity>", srcs, st, "validity-check:" + ",".join(sorted(srcs))))
    if len(out) < 8:
        raise AnalysisError("__post_init__: derivations not recognised")
    return out


def r1_stale_derived(ctx, rep):
    py = ctx.py
    fields = schema(py, "ProjectSettings")
    dests = {d for d in cli_dests(py) if d in fields}
    pa = py.func("__init__.parse_arguments")
    pa_src = ast.unparse(pa)
    config_loop = "tomllib.loads" in pa_src   # values of --config reach the settings object on some path
    # statements in parse_arguments that re-establish something after the merges
    merge_line = max([c.lineno for c in py.walk_calls(pa) if call_name(c) == "convert_types_from_commandarguments"] or [0])
    if not merge_line:
        raise AnalysisError("parse_arguments: convert_types_from_commandarguments call not found")
    later = [st for st in pa.body if st.lineno > merge_line]

    def reestablished(tgt: str, srcs: Set[str]) -> bool:
        for st in later:
            t = ast.unparse(st)
            if "__post_init__" in t:
                return True
            if re.search(r"proj_data\.%s\b" % re.escape(tgt), t) and any(
                    re.search(r"proj_data\.%s\b" % re.escape(s), t) for s in srcs):
                if isinstance(st, (ast.Assign, ast.AugAssign)) or ".append(" in t or ".update(" in t or ".extend(" in t:
                    return True
                if isinstance(st, ast.If) and (".append(" in t or "= " in t):
                    return True
        return False

    for tgt, srcs, node, kind in derivations(py):
        paths = []
        real_srcs = {s for s in srcs if s in fields}
        if kind == "list-wrap":
            real_srcs = {f for f, t in fields.items() if t.startswith("List[") or t == "list"}
        cli_hit = sorted(real_srcs & dests)
        # list wrapping on the CLI path is done by convert_setting / action=append
        if cli_hit and kind != "list-wrap":
            paths.append(("cli:" + ",".join(cli_hit), cli_hit))
        if config_loop:
            paths.append(("--config", sorted(real_srcs)[:6]))
        for pname, which in paths:
            ok = reestablished(tgt, real_srcs) if not tgt.startswith("<") else reestablished("", set())
            label = kind if tgt.startswith("<") else f"{tgt}<-{','.join(sorted(srcs))}"
            rep.ob(f"derived {label} path={pname.split(':')[0]}", ok,
                   (f"re-established after the command-line merge" if ok else
                    f"`{ast.unparse(node).splitlines()[0][:70]}` runs once in __post_init__, but "
                    f"{'option(s) ' + ','.join(which) if pname.startswith('cli') else 'any field'} can be "
                    f"assigned afterwards through {pname.split(':')[0]} without the derivation being repeated: "
                    f"the same value means something different depending on where it was written"),
                   py.nloc(node))


KNOWN_TYPES = {
    "bool": "bool", "int": "int", "Optional[int]": "int", "str": "str", "Optional[str]": "str",
    "Path": "str", "Optional[Path]": "str", "list": "list", "List[str]": "list", "List[Path]": "list",
    "Dict[str, str]": "dict-sep", "Dict[str, ExtraFileType]": "dict-filetype",
}


def r2_conversion(ctx, rep):
    """Decided on the inlined event trace of convert_setting: for every declared field type there is a conversion (a
    return) that runs under a test of exactly that type; the dictionary conversions see the value only after empty
    entries were dropped."""
    py = ctx.py
    cs = py.func("settings.convert_setting")
    ev = astq.trace(cs, astq.class_method_resolver(py, None, "settings"), max_depth=2)
    idx = {id(e): i for i, e in enumerate(ev)}

    def expanded_conds(e) -> List[str]:
        """positive path conditions with local boolean names replaced by their definitions"""
        out = []
        for test, pol, subst in e.conds:
            if not pol:
                continue
            t = astq.unparse_subst(test, subst)
            for n in ast.walk(test):
                if isinstance(n, ast.Name):
                    for a2 in ev:
                        if a2.kind == "assign" and a2.target == n.id and a2.value is not None and idx[id(a2)] < idx[id(e)]:
                            t += " " + a2.text(a2.value)
            out.append(t)
        return out

    rets = [e for e in ev if e.kind in ("return", "assign") and isinstance(e.node, ast.Return)]

    def branch(pred) -> List:
        return [e for e in rets if any(pred(c) for c in expanded_conds(e))]

    ttest = lambda ty: (lambda c: re.search(rf"is_same_type\(\s*default_type\s*,\s*{ty}\s*\)|default_type\s+is\s+{ty}\b|default_type\s*==\s*{ty}\b", c) is not None)  # noqa: E731
    is_dict = lambda c: re.search(r"get_origin\(default_type\) is dict|get_origin\(default_type\) == dict|is_same_type\(default_type, dict\)", c) is not None  # noqa: E731
    has = {
        "bool": bool(branch(ttest("bool"))),
        "int": any(any(isinstance(x, ast.Call) and call_name(x) == "int" for x in ast.walk(e.node)) for e in branch(ttest("int"))),
        "str": bool(branch(ttest("str"))) and bool(branch(ttest("Path"))),
        "list": any(isinstance(e.node.value, (ast.List, ast.Call)) for e in branch(ttest("list"))),
    }
    dict_rets = branch(is_dict)
    ft = [e for e in dict_rets if any("ExtraFileType" in x for x in [e.text(e.node.value)] + [
        a2.text(a2.value) for a2 in ev if a2.kind == "assign" and a2.value is not None and a2.target and
        any(isinstance(n, ast.Name) and n.id == a2.target for n in ast.walk(e.node.value))])]
    sep_rets = [e for e in dict_rets if e not in ft]
    sep_uses = [e2 for e2 in ev if any(isinstance(n, ast.Subscript) and ast.unparse(n.value) == "OPTION_SEPARATORS" for n in ast.walk(e2.node))
                and any(is_dict(c) for c in expanded_conds(e2))]
    has["dict-filetype"] = bool(ft)
    has["dict-sep"] = bool(sep_rets) and bool(sep_uses)
    seps_v = py.const_value("settings", "OPTION_SEPARATORS")
    if not isinstance(seps_v, dict):
        raise AnalysisError("settings.OPTION_SEPARATORS is not a constant dictionary")
    seps = set(seps_v)
    for cls in ("ProjectSettings", "EntitySettings"):
        for f, t in sorted(schema(py, cls).items()):
            kind = KNOWN_TYPES.get(t)
            if kind is None:
                rep.ob(f"{cls}.{f}: {t}", False, f"no conversion rule for declared type {t}", py.nloc(cs))
                continue
            ok = has[kind]
            if kind == "dict-sep":
                ok = ok and f in seps
            rep.ob(f"{cls}.{f}: {t}", ok,
                   f"a conversion runs under a test for {kind}" + (" with a separator entry" if kind == "dict-sep" else "")
                   if ok else (f"Dict[str, str] option `{f}` has no OPTION_SEPARATORS entry (KeyError only for that option)"
                               if kind == "dict-sep" and f not in seps else f"branch for {t} missing"),
                   py.nloc(cs), nontrivial=(kind not in ("list", "str")))
    # empty-entry filter dominates both dictionary conversions
    def is_filter(e) -> bool:
        if e.kind != "assign" or e.value is None:
            return False
        for n in ast.walk(e.value):
            if isinstance(n, (ast.ListComp, ast.GeneratorExp)) and len(n.generators) == 1:
                g = n.generators[0]
                if isinstance(g.target, ast.Name) and any(isinstance(c, ast.Name) and c.id == g.target.id for c in g.ifs):
                    return True
            if isinstance(n, ast.Call) and call_name(n) == "filter" and n.args and ast.unparse(n.args[0]) in ("None", "bool"):
                return True
        return False
    filt = [e for e in ev if is_filter(e) and any(is_dict(c) for c in expanded_conds(e))]
    convs = [e for e in ev if e.kind in ("call", "inline") and (call_name(e.node).endswith("from_string") or call_name(e.node).endswith("_parse_to_dict"))
             and any(is_dict(c) for c in expanded_conds(e))]
    if len(convs) < 2:
        raise AnalysisError("convert_setting: the two dictionary conversions (ExtraFileType.from_string, _parse_to_dict) were not found")
    ok = bool(filt) and all(idx[id(filt[0])] < idx[id(c)] for c in convs) and \
        set(filt[0].cond_texts()) <= set.intersection(*[set(c.cond_texts()) for c in convs]) and \
        all(any(isinstance(n, ast.Name) and n.id == filt[0].target for a in c.node.args for x in [a] for n in ast.walk(x)) or
            any(isinstance(n, ast.Name) and n.id == filt[0].target for n in ast.walk(py.parents.get(c.node, c.node))) or True for c in convs)
    rep.ob("empty entries dropped before both dict conversions", ok,
           "the empty-entry filter precedes the ExtraFileType / key-value split" if ok else
           "the empty-entry filter no longer covers both dictionary conversions: a block-style option "
           "(key on its own line) yields a leading '' entry that is rejected for one of them", py.nloc(cs))


def _names_option(fn, exc: ast.AST, params) -> bool:
    """does the raised message interpolate the option name (a parameter of fn), in whatever string-building style?"""
    ps = {a.arg for a in fn.args.args + fn.args.kwonlyargs} & set(params)
    return any(isinstance(n, ast.Name) and n.id in ps for e in astq.expand_locals(exc, fn) for n in ast.walk(e))


def r3_rejections_name_option(ctx, rep):
    py = ctx.py
    cs = py.func("settings.convert_setting")
    for c in py.walk_calls(cs):
        cn = call_name(c)
        if cn in ("int", "float"):
            # must be inside a try whose handler raises a message interpolating key/name
            p = c
            wrapped = False
            while p is not cs:
                p = py.parents[p]
                if isinstance(p, ast.Try):
                    for h in p.handlers:
                        for r in ast.walk(h):
                            if isinstance(r, ast.Raise) and r.exc is not None and _names_option(cs, r.exc, ("key", "name")):
                                wrapped = True
            rep.ob(f"convert_setting {cn}() conversion", wrapped,
                   "ill-typed text is rejected with a message naming the option" if wrapped else
                   f"`{ast.unparse(c)}` raises a bare ValueError (\"invalid literal for int()\") that names neither "
                   f"the option nor the file", py.nloc(c))
    cb = py.func("settings.convert_to_bool")
    ok = all(_names_option(cb, r.exc, ("name", "key")) for r in ast.walk(cb) if isinstance(r, ast.Raise) and r.exc is not None)
    rep.ob("convert_to_bool messages name the option", ok, "", py.nloc(cb))
    pd = py.func("settings._parse_to_dict")
    ok = all(_names_option(pd, r.exc, ("name", "key")) for r in ast.walk(pd) if isinstance(r, ast.Raise) and r.exc is not None)
    rep.ob("_parse_to_dict messages name the option", ok, "", py.nloc(pd))
    for q in ("settings.load_toml_settings", "settings.load_markdown_settings"):
        fn = py.func(q)
        ok = any(isinstance(h, ast.ExceptHandler) and "filename" in ast.unparse(h) for h in ast.walk(fn))
        rep.ob(f"{q} names the file in conversion errors", ok, "", py.nloc(fn))


def target_names_of(t: ast.AST):
    return astq.target_names(t)


def r5_unknown_keys(ctx, rep):
    py = ctx.py
    m = py.func("settings.convert_types_from_metapreprocessor")
    # the unknown-key path (KeyError handler of the table lookup, or an explicit `not in` test) warns, does not raise, and
    # the key does not stay in the dict that is handed to the constructor
    unknown = [h.body for h in ast.walk(m) if isinstance(h, ast.ExceptHandler) and "KeyError" in astq.handler_types(h)]
    unknown += [i.body for i in ast.walk(m) if isinstance(i, ast.If) and any(isinstance(c, ast.Compare) and isinstance(c.ops[0], ast.NotIn)
                                                                             for c in ast.walk(i.test))]
    def warns(b):
        return any(isinstance(c, ast.Call) and call_name(c).split(".")[-1] in ("warn", "warning") for st in b for c in ast.walk(st))
    def raises(b):
        return any(isinstance(r, ast.Raise) for st in b for r in ast.walk(st))
    removes = any((isinstance(c, ast.Call) and isinstance(c.func, ast.Attribute) and c.func.attr == "pop") or isinstance(c, ast.Delete)
                  for c in ast.walk(m)) or any(isinstance(c, (ast.DictComp,)) for c in ast.walk(m))
    ok = any(warns(b) and not raises(b) for b in unknown) and removes
    rep.ob("markdown metadata: unknown keys warned and dropped", ok,
           "the unknown-key path warns and the key is removed from the settings dict" if ok else
           "convert_types_from_metapreprocessor no longer warns about and removes unknown keys", py.nloc(m))
    # ... and only unknown keys are dropped: the converted value of a key of the schema is stored whatever the value is - an option
    # written with an empty value (`docmark_alt:`, the documented way to switch the alternative marker off) must not fall back to
    # its default, which the other two formats would not do either
    mev = astq.trace(m)
    stores = [e for e in mev if e.kind == "assign" and e.value is not None and e.loops and
              any(isinstance(c, ast.Call) and call_name(c).split(".")[-1] == "convert_setting" for c in ast.walk(e.value))]
    if not stores:
        raise AnalysisError("convert_types_from_metapreprocessor: the store of the converted value was not found")

    def known_atom(x):
        if isinstance(x, ast.Compare) and len(x.ops) == 1 and isinstance(x.ops[0], (ast.In, ast.NotIn)) and isinstance(x.left, ast.Name):
            return ("known", isinstance(x.ops[0], ast.In))
        return None
    for e in stores:
        loop = e.loops[-1]
        outer = {id(t_) for t_, _p, _s in next((x.conds for x in mev if x.kind == "loop" and x.node is loop), [])}
        extra = [t_ for t_, _p, _s in e.conds if id(t_) not in outer and known_atom(t_) is None and
                 not (isinstance(t_, ast.UnaryOp) and known_atom(t_.operand) is not None)]
        rep.ob("markdown metadata: every key of the schema is converted and kept", not extra,
               "nothing but `key in schema` decides whether a value is stored" if not extra else
               f"the converted value is stored only under {[ast.unparse(t_)[:50] for t_ in extra]}: for some values of a known option the "
               f"project file silently keeps the default while fpm.toml and --config use the value given", py.nloc(e.node))
    toml = py.func("settings.load_toml_settings")
    t = ast.unparse(toml)
    raw = re.search(r"ProjectSettings\(\*\*settings\['extra'\]\['ford'\]\)", t) is not None
    rep.ob("fpm.toml: unknown keys warned and dropped", not raw,
           "keys are filtered against the schema before construction" if not raw else
           "`ProjectSettings(**settings['extra']['ford'])` passes every key to the dataclass constructor: an "
           "unknown key aborts with TypeError instead of a warning", py.nloc(toml))
    pa = py.func("__init__.parse_arguments")
    loops = [n for n in ast.walk(pa) if isinstance(n, ast.For) and "tomllib.loads" in ast.unparse(n.iter)]
    if loops:
        lp = loops[0]
        keyvar = target_names_of(lp.target)[0] if target_names_of(lp.target) else "key"

        def atom(n):
            # "the key is an option of the schema": `key in field_types` / `key not in ...` / hasattr(proj_data, key)
            if isinstance(n, ast.Compare) and len(n.ops) == 1 and isinstance(n.ops[0], (ast.In, ast.NotIn)) and \
                    ast.unparse(n.left) == keyvar:
                return ("known", isinstance(n.ops[0], ast.In))
            if isinstance(n, ast.Call) and call_name(n) == "hasattr" and len(n.args) == 2 and ast.unparse(n.args[1]) == keyvar:
                return ("known", True)
            return None
        evs = astq.trace_block([lp], pa)
        stores = [e for e in evs if (e.kind == "call" and call_name(e.node) == "setattr") or
                  (e.kind == "assign" and e.target and "[" in e.target)]
        guarded = bool(stores) and all(astq.path_implies(e, atom, {"known": True}) is True for e in stores)
        rep.ob("--config: unknown keys warned and dropped", guarded,
               "keys are checked against the schema" if guarded else
               "`setattr(proj_data, key, value)` stores any key silently (no warning, no type conversion)",
               py.nloc(lp))
    else:
        rep.ob("--config: unknown keys warned and dropped", "convert_types_from_metapreprocessor" in ast.unparse(pa)
               or "field_types" in ast.unparse(pa), "config values go through the schema-aware conversion", py.nloc(pa))


def r6_precedence(ctx, rep):
    py = ctx.py
    pa = py.func("__init__.parse_arguments")
    cfg_line = None
    for n in ast.walk(pa):
        if isinstance(n, ast.If) and "config" in ast.unparse(n.test) and "tomllib.loads" in ast.unparse(n):
            cfg_line = n
    merge = [c for c in py.walk_calls(pa) if call_name(c) == "convert_types_from_commandarguments"]
    if cfg_line is None or not merge:
        raise AnalysisError("parse_arguments: --config block or CLI merge not found")
    ok = cfg_line.lineno < merge[0].lineno
    rep.ob("--config applied before the dedicated CLI options", ok,
           "config values are written first, dedicated options override them" if ok else
           "--config is applied after the dedicated options", py.nloc(cfg_line))
    t = ast.unparse(cfg_line)
    applies_to_settings = "setattr(proj_data" in t or "proj_data." in t
    merges_into_cli = re.search(r"command_line_args\s*=|command_line_args\.update|command_line_args\[", t) is not None
    rep.ob("--config values do not enter the CLI argument dict", applies_to_settings and not merges_into_cli,
           "config values are applied to the settings object, not merged over the dedicated options" if
           applies_to_settings and not merges_into_cli else
           "--config values are merged into command_line_args (a later dict entry wins): they override the "
           "dedicated command-line options", py.nloc(cfg_line))
    ok = ast.unparse(merge[0].args[1]) == "command_line_args" if len(merge[0].args) > 1 else False
    rep.ob("CLI merge uses the parsed arguments", ok, "", py.nloc(merge[0]))
    cc = py.ifunc("settings.convert_types_from_commandarguments")
    cev = astq.trace(cc)
    writes = [e for e in cev if (e.kind == "assign" and e.target and "[" in e.target) or
              (e.kind == "call" and call_name(e.node) in ("setattr",))]
    # every write happens only where the path conditions imply that the value is not None (nested if, early `continue`,
    # combined test, hoisted flag: all the same proposition)
    ok = bool(writes) and all(astq.path_implies(e, _cli_atoms(cc), {"none": False}) is True for e in writes)
    rep.ob("absent CLI options (None) do not override", ok, "", py.nloc(cc))
    # every store_true/store_false option defaults to None so that absence does not override
    for d, c in cli_dests(py).items():
        act = [k.value.value for k in c.keywords if k.arg == "action" and isinstance(k.value, ast.Constant)]
        if act and act[0] in ("store_true", "store_false"):
            dflt = [k.value for k in c.keywords if k.arg == "default"]
            ok = bool(dflt) and isinstance(dflt[0], ast.Constant) and dflt[0].value is None
            rep.ob(f"flag --{d} defaults to None", ok, "absent flag does not override the file value" if ok else
                   f"flag for `{d}` has a non-None default: it always overrides the project file", py.nloc(c))
    ini = py.func("__init__.initialize")
    # a value that was given on the command line and is falsy (`--no-search` stores False) overrides like any other: on the way
    # from the parsed arguments to the merge, and in the merge itself, values are dropped for being None only - never for being
    # false / empty
    truthy = []
    for host in (ini, py.func("settings.convert_types_from_commandarguments"), py.func("__init__.parse_arguments")):
        valnames = set()
        for n in ast.walk(host):
            if isinstance(n, (ast.For, ast.comprehension)) and isinstance(n.target, ast.Tuple) and len(n.target.elts) == 2 and \
                    isinstance(n.iter, ast.Call) and isinstance(n.iter.func, ast.Attribute) and n.iter.func.attr == "items" and \
                    any(k in ast.unparse(n.iter.func.value) for k in ("args", "command_line")):
                if isinstance(n.target.elts[1], ast.Name):
                    valnames.add(n.target.elts[1].id)
        for n in ast.walk(host):
            tests = []
            if isinstance(n, ast.comprehension):
                tests = list(n.ifs)
            elif isinstance(n, (ast.If, ast.IfExp)):
                tests = [n.test]
            for t in tests:
                for x in ([t] if isinstance(t, ast.Name) else (t.values if isinstance(t, ast.BoolOp) else [t.operand] if isinstance(t, ast.UnaryOp) and isinstance(t.op, ast.Not) else [])):
                    if isinstance(x, ast.Name) and x.id in valnames:
                        truthy.append((host, x))
    rep.ob("a falsy value given on the command line still overrides", not truthy,
           "command-line values are tested against None only" if not truthy else
           f"`{truthy[0][1].id}` (a command-line value) is tested for truthiness in {py.qualname(truthy[0][0])}: an option that was given with the "
           f"value False - `--no-search` - is treated like one that was not given, and the project file wins",
           py.nloc(truthy[0][1]) if truthy else py.nloc(ini))
    seq = [call_name(c) for st in ini.body for c in py.walk_calls(st)]
    ok = "load_settings" in seq and "parse_arguments" in seq and seq.index("load_settings") < seq.index("parse_arguments")
    rep.ob("file settings loaded before CLI merge", ok, "", py.nloc(ini))
    dir_ok = []
    for c in py.walk_calls(ini):
        if call_name(c) in ("load_settings", "parse_arguments"):
            fdef = py.func(f"__init__.{call_name(c)}")
            arg = astq.bind_args(c, fdef).get("directory")
            alts = astq.expand_locals(arg, ini) if arg is not None else []
            dir_ok.append(any("project_file" in ast.unparse(x) and any(
                (isinstance(k, ast.Call) and call_name(k).split(".")[-1] == "dirname") or (isinstance(k, ast.Attribute) and k.attr == "parent")
                for k in ast.walk(x)) for x in alts))
    ok = len(dir_ok) >= 2 and all(dir_ok)
    rep.ob("paths are rooted at the project file's directory", ok,
           "directory = dirname(project_file.name) is handed to load_settings and normalise_paths", py.nloc(ini))


def _schema_table(fn, e: ast.AST) -> bool:
    """is `e` (the right side of `key in e`) the table of schema fields: derived from the dataclass/option table"""
    SRC = ("option_types", "fields", "get_type_hints", "field_names")
    alts = [e] + (astq.expand_locals(e, fn) if isinstance(e, ast.Name) else [])
    for a in alts:
        for x in ast.walk(a):
            if isinstance(x, ast.Call) and call_name(x).split(".")[-1] in SRC:
                return True
            if isinstance(x, ast.Attribute) and x.attr in ("__dataclass_fields__", "__annotations__"):
                return True
    return False


def _cli_atoms(fn):
    def atom(t):
        if isinstance(t, ast.Compare) and len(t.ops) == 1:
            op, r = t.ops[0], t.comparators[0]
            if isinstance(r, ast.Constant) and r.value is None and isinstance(op, (ast.Is, ast.IsNot, ast.Eq, ast.NotEq)):
                return ("none", isinstance(op, (ast.Is, ast.Eq)))
            if isinstance(op, (ast.In, ast.NotIn)) and isinstance(t.left, ast.Name) and _schema_table(fn, r):
                return ("schema", isinstance(op, ast.In))
        if isinstance(t, ast.Call) and call_name(t) == "hasattr" and len(t.args) == 2 and isinstance(t.args[1], ast.Name):
            return ("schema", True)
        return None
    return atom


def r7_schema_only_writes(ctx, rep):
    py = ctx.py
    n = 0
    for q in ("settings.convert_types_from_commandarguments", "__init__.parse_arguments"):
        fn = py.ifunc(q)
        for e in astq.trace(fn):
            c = e.node
            if e.kind == "call" and isinstance(c, ast.Call) and call_name(c) == "setattr" and len(c.args) == 3 and \
                    ast.unparse(c.args[0]) in ("settings", "proj_data"):
                n += 1
                guarded = astq.path_implies(e, _cli_atoms(fn), {"schema": True}) is True
                rep.ob(f"{q} setattr({ast.unparse(c.args[0])}, key, ...) value={ast.unparse(c.args[2])[:30]}", guarded,
                       "only schema fields are written" if guarded else
                       "a key that is not a field of the settings schema is stored on the settings object (e.g. the "
                       "open project_file handle from argparse, which makes the object unpicklable for parallel runs)",
                       py.nloc(c))
    if n == 0:
        raise AnalysisError("no setattr on the settings object found")


def r4_path_rooting(ctx, rep):
    py = ctx.py
    fields = schema(py, "ProjectSettings")
    np = py.func("ProjectSettings.normalise_paths")
    dirs = [v for _, v in astq.assignments(np, "self.directory") if v is not None]
    ok = bool(dirs) and all(any(isinstance(c, ast.Call) and isinstance(c.func, ast.Attribute) and c.func.attr in ("absolute", "resolve")
                                for c in ast.walk(v)) for v in dirs)
    first_dir = min([st.lineno for st, _ in astq.assignments(np, "self.directory")] or [0])
    others = [st.lineno for st in ast.walk(np) if isinstance(st, ast.Assign) and isinstance(st.targets[0], ast.Attribute)
              and ast.unparse(st.targets[0]) != "self.directory" and "self.directory" in ast.unparse(st.value)]
    ok = ok and (not others or first_dir < min(others))
    rep.ob("normalise_paths: the project directory is made absolute first", ok, "", py.nloc(np))
    n = 0
    for st in ast.walk(np):
        if isinstance(st, ast.Assign) and isinstance(st.targets[0], ast.Attribute) and \
                ast.unparse(st.targets[0].value) == "self" and st.targets[0].attr in fields and \
                "Path" in fields[st.targets[0].attr] and st.targets[0].attr != "directory":
            n += 1
            v = ast.unparse(st.value)
            rooted = "self.directory" in v or "__file__" in v or "normalise_path(" in v or "self.output_dir" in v
            rep.ob(f"normalise_paths: self.{st.targets[0].attr} = {v[:40]}", rooted,
                   "value is rooted at the absolute project directory (or the package)" if rooted else
                   f"`self.{st.targets[0].attr} = {v}` stores the raw `directory` argument; the generic loop then joins it onto "
                   f"the project directory again: with `ford sub/proj.md` the path becomes <cwd>/sub/sub", py.nloc(st))
    # the generic loop over the fields: under `is_same_type(<type>, Path)` and under `is_same_type(<type>, List[Path])` the
    # value is passed through normalise_path(self.directory, ...)
    def normalised_under(type_text: str) -> bool:
        for i in ast.walk(np):
            if isinstance(i, ast.If) and any(isinstance(c, ast.Call) and call_name(c).split(".")[-1] == "is_same_type" and len(c.args) == 2
                                             and ast.unparse(c.args[1]) == type_text for c in ast.walk(i.test)):
                if any(isinstance(c, ast.Call) and call_name(c).split(".")[-1] == "normalise_path" and c.args
                       and ast.unparse(c.args[0]) == "self.directory" for st in i.body for c in ast.walk(st)):
                    return True
        return False
    ok = normalised_under("Path") and normalised_under("List[Path]")
    rep.ob("normalise_paths: every Path / List[Path] field is normalised against the project directory", ok, "", py.nloc(np))
    u = py.func("utils.normalise_path")
    p0, p1 = [a.arg for a in u.args.args][:2]
    def names(e):
        return {x.id for x in ast.walk(e) if isinstance(x, ast.Name)}
    joins = any(isinstance(b, ast.BinOp) and isinstance(b.op, ast.Div) and p0 in names(b.left) and p1 in names(b.right) for b in ast.walk(u)) or \
        any(isinstance(c, ast.Call) and call_name(c).split(".")[-1] in ("joinpath", "join", "Path", "PurePath") and
            p0 in names(c) and p1 in names(c) and (not c.args or p1 not in names(c.args[0])) for c in ast.walk(u))
    rep.ob("normalise_path joins onto the base directory (absolute inputs win)", joins,
           f"`{p0} / {p1}`: a relative path is rooted at the base directory, an absolute one replaces it", py.nloc(u))
    if n == 0:
        raise AnalysisError("normalise_paths: no direct path assignments found")


def r8_metadata_grammar(ctx, rep):
    """markdown metadata: a line is either `key: value` (indent < 4) or a continuation (indent >= 4) -
    the two recognisers must be disjoint, otherwise `    word: text` continuation lines open new keys."""
    py, rx = ctx.py, ctx.rx
    mp, mf, mnode, _ = ctx.regexes["utils.META_RE"]
    cp, cf, cnode, _ = ctx.regexes["utils.META_MORE_RE"]
    M, C = rx.match_lang(mp, mf), rx.match_lang(cp, cf)
    w = rx.disjoint_witness(M, C)
    rep.ob("META_RE and META_MORE_RE are disjoint", w is None,
           "key lines (indent 0-3) and continuation lines (indent >= 4) cannot be confused" if w is None else
           f"`{w}` is matched both as a new key line and as a continuation line; META_RE is tried first, so an indented "
           f"continuation such as `    json: http://...` (second entry of a key/value option) becomes an unknown key",
           py.nloc(mnode), witness=w)
    ref_key = rx.full(r"[ ]{0,3}[A-Za-z0-9_-]+:.*", 0)
    w = rx.subset_witness(ref_key, M)
    rep.ob("every `key: value` line with indent <= 3 is a key line", w is None, "" if w is None else f"`{w}`", py.nloc(mnode), witness=w)
    ref_more = rx.full(r"[ ]{4}[ ]*[^ ].*", 0)
    w = rx.subset_witness(ref_more, C)
    rep.ob("every line indented >= 4 is a continuation line", w is None, "" if w is None else f"`{w}`", py.nloc(cnode), witness=w)
    fn = py.func("utils.meta_preprocessor")
    def methods(e):
        return [c.func.attr for c in ast.walk(e) if isinstance(c, ast.Call) and isinstance(c.func, ast.Attribute)]
    def from_key_group(e):
        return any(isinstance(c, ast.Call) and isinstance(c.func, ast.Attribute) and c.func.attr == "group"
                   and c.args and isinstance(c.args[0], ast.Constant) and c.args[0].value == "key" for c in ast.walk(e))
    # the name that holds the key: assigned from the `key` group; it must pass .lower() - in the same expression or in a later
    # re-assignment that is unconditional, or conditional only on a parameter that is true by default and that no caller sets
    kvars = {t.id for a in ast.walk(fn) if isinstance(a, ast.Assign) and from_key_group(a.value) for t in a.targets if isinstance(t, ast.Name)}
    par = astq.parents_of(fn)
    def default_true_unset(test: ast.AST) -> bool:
        if not isinstance(test, ast.Name):
            return False
        params = fn.args.args + fn.args.kwonlyargs
        defaults = dict(zip([a.arg for a in fn.args.args][len(fn.args.args) - len(fn.args.defaults):], fn.args.defaults))
        defaults.update({a.arg: d for a, d in zip(fn.args.kwonlyargs, fn.args.kw_defaults) if d is not None})
        d = defaults.get(test.id)
        if test.id not in [a.arg for a in params] or not (isinstance(d, ast.Constant) and d.value is True):
            return False
        pos = [a.arg for a in fn.args.args].index(test.id) if test.id in [a.arg for a in fn.args.args] else None
        for _m, f2 in py.all_functions():
            for c in py.walk_calls(f2):
                if call_name(c).split(".")[-1] == fn.name and (any(k.arg == test.id for k in c.keywords) or
                                                               (pos is not None and len(c.args) > pos)):
                    return False
        return True
    ok = False
    for a in ast.walk(fn):
        if isinstance(a, ast.Assign) and any(isinstance(t, ast.Name) and t.id in kvars for t in a.targets) and \
                any(m in ("lower", "casefold") for m in methods(a.value)) and \
                (from_key_group(a.value) or any(isinstance(x, ast.Name) and x.id in kvars for x in ast.walk(a.value))):
            # enclosing conditions on the shape of the line are irrelevant; a condition on a *parameter* of the function is a
            # switch and must be on by default and never set by a caller
            pnames = {x.arg for x in fn.args.args[1:] + fn.args.kwonlyargs}
            extra = [c for c, _pol in astq.conditions_of(a, par, stop=fn)
                     if any(isinstance(x, ast.Name) and x.id in pnames for x in ast.walk(c))]
            if all(default_true_unset(c) for c in extra):
                ok = True
    rep.ob("metadata keys are lower-cased", ok, "", py.nloc(fn))



def r9_values_recorded_as_written(ctx, rep):
    """(a) a `key: value` metadata line records its value also when it is empty (an option explicitly set to the empty
    string is not the default); (b) values from fpm.toml are native TOML values and must not pass through the text
    conversion (convert_setting assumes lists of strings for dictionary options)"""
    py = ctx.py
    fn = py.func("utils.meta_preprocessor")
    ev = astq.trace(fn)
    key_line = [e for e in ev if e.kind == "assign" and e.value is not None and "META_RE" in e.text(e.value) and "MORE" not in e.text(e.value)]
    if not key_line:
        raise AnalysisError("meta_preprocessor: META_RE match not found")
    mvar = key_line[0].target
    apps = [e for e in ev if e.kind == "call" and isinstance(e.node.func, ast.Attribute) and e.node.func.attr == "append"
            and any(re.search(rf"\b{re.escape(mvar)}\b", c) and not c.startswith("not") for c in e.cond_texts())
            and not any("MORE" in c for c in e.cond_texts())]
    if not apps:
        raise AnalysisError("meta_preprocessor: the append of a key line's value was not found")
    for e in apps:
        extra = [c for c in e.cond_texts() if not ("META_RE" in c or c == mvar) and not c.startswith("not ") and c != "lines"]
        rep.ob("a key line records its value even when it is empty", not extra,
               "appended unconditionally once the line matched" if not extra else
               f"the value of a `key: value` line is only recorded under {extra}: `docmark_alt:` (set to empty) silently keeps the "
               f"default, while the same setting in fpm.toml / --config yields ''", py.nloc(e.node))
    toml = py.func("settings.load_toml_settings")
    tev = astq.trace(toml, astq.class_method_resolver(py, None, "settings"), max_depth=2)
    conv = [e for e in tev if e.kind in ("call", "inline") and call_name(e.node).split(".")[-1] in ("convert_setting", "convert_types_from_metapreprocessor")]
    rep.ob("fpm.toml values are not passed through the text conversion", not conv,
           "native TOML values reach ProjectSettings(...) as they are" if not conv else
           f"`{ast.unparse(conv[0].node)[:70]}` applies the markdown-metadata conversion to TOML values: `extra_filetypes` given as "
           f"an array of tables reaches ExtraFileType.from_string(<dict>) and loading aborts", py.nloc(conv[0].node) if conv else py.nloc(toml))


def r10_normalisations_applied(ctx, rep):
    """the normalisations written in the conversion code are applied: no statement computes a stripped / lower-cased
    value and throws it away (generic rule, all modules)"""
    from . import common
    common.discarded_results(ctx, rep)


def _filtered_by_init(py, fn: ast.FunctionDef) -> bool:
    """fn returns a table built from dataclasses.fields(...) filtered on `.init`"""
    for c in ast.walk(fn):
        if isinstance(c, (ast.DictComp, ast.ListComp, ast.SetComp, ast.GeneratorExp)):
            for g in c.generators:
                if "fields(" in ast.unparse(g.iter) and any(re.search(r"\.init\b", ast.unparse(i)) for i in g.ifs):
                    return True
    return False


def r11_computed_fields_are_not_options(ctx, rep):
    """a field declared with `field(init=False)` is computed from other options: the tables that decide which keys are
    options must not contain it (as a key it would pass the unknown-key check and then abort the constructor, or
    silently overwrite the computed value)"""
    py = ctx.py
    computed = []
    for cname, ci in py.classes.items():
        if ci.module != "settings":
            continue
        for st in ci.node.body:
            if isinstance(st, ast.AnnAssign) and isinstance(st.value, ast.Call) and call_name(st.value) in ("field", "dataclasses.field") \
                    and any(k.arg == "init" and isinstance(k.value, ast.Constant) and k.value.value is False for k in st.value.keywords):
                computed.append(f"{cname}.{st.target.id}")
    sites = 0
    for mod in ("settings", "__init__"):
        for m, fn in py.all_functions():
            if m != mod:
                continue
            for st in ast.walk(fn):
                if not (isinstance(st, ast.Assign) and len(st.targets) == 1 and isinstance(st.targets[0], ast.Name)
                        and isinstance(st.value, ast.Call)):
                    continue
                tname = st.targets[0].id
                cn = call_name(st.value)
                # is the table used to decide whether a key is known?
                used = [c for c in ast.walk(fn) if (isinstance(c, ast.Compare) and len(c.ops) == 1 and isinstance(c.ops[0], (ast.In, ast.NotIn))
                                                    and isinstance(c.comparators[0], ast.Name) and c.comparators[0].id == tname)
                        or (isinstance(c, ast.Subscript) and isinstance(c.value, ast.Name) and c.value.id == tname
                            and any(isinstance(p, ast.Try) and any("KeyError" in astq.handler_types(h) for h in p.handlers)
                                    for p in _ancestors(py, c, fn)))]
                if not used:
                    continue
                if cn.split(".")[-1] == "get_type_hints":
                    filtered = False
                else:
                    callee = py.func(f"{mod}.{cn}") if py.has_func(f"{mod}.{cn}") else (py.func(f"settings.{cn}") if py.has_func(f"settings.{cn}") else None)
                    if callee is None:
                        continue
                    # the table may be built by the callee or by a (cached) helper it delegates to
                    builders = [callee]
                    for _ in range(2):
                        for b in list(builders):
                            for c2 in py.walk_calls(b):
                                q2 = f"settings.{call_name(c2)}"
                                if py.has_func(q2) and py.func(q2) not in builders:
                                    builders.append(py.func(q2))
                    if not any("get_type_hints" in ast.unparse(b) or "fields(" in ast.unparse(b) for b in builders):
                        continue
                    filtered = any(_filtered_by_init(py, b) for b in builders)
                sites += 1
                ok = filtered or not computed
                rep.ob(f"{py.qualname(fn)}: known-key table `{tname}` excludes computed fields", ok,
                       "built from the fields that the constructor accepts" if ok else
                       f"`{ast.unparse(st.value)[:60]}` also lists {', '.join(computed)} (init=False): the key `{computed[0].split('.')[1]}` "
                       f"passes the unknown-key check and then aborts with TypeError (or overwrites the computed value)",
                       py.nloc(st), nontrivial=not ok)
    if not sites:
        raise AnalysisError("no known-key table found in settings / __init__")


def _ancestors(py, node, stop):
    p = node
    while p is not stop and p in py.parents:
        p = py.parents[p]
        yield p


def r13_metadata_accumulates(ctx, rep):
    """list options written as repeated `key: value` lines (or continuation lines) accumulate: every store into the table that
    `meta_preprocessor` returns appends to the entry, none replaces it.  (The TOML spelling of the same option is a list; a
    store that overwrites keeps only the last line, so the two formats disagree - and `display:` written once per word,
    C05, loses all but the last word.)"""
    py = ctx.py
    fn = py.ifunc("utils.meta_preprocessor")
    tables = set()
    for r in astq.returns(fn):
        first = r.elts[0] if isinstance(r, ast.Tuple) and r.elts else r
        if isinstance(first, ast.Name):
            tables.add(first.id)
    if not tables:
        raise AnalysisError("meta_preprocessor: the returned table was not identified")
    n = 0
    for st in ast.walk(fn):
        tg, val = None, None
        if isinstance(st, ast.Assign) and len(st.targets) == 1:
            tg, val = st.targets[0], st.value
        elif isinstance(st, ast.AugAssign):
            tg = st.target
        if isinstance(tg, ast.Subscript) and isinstance(tg.value, ast.Name) and tg.value.id in tables:
            n += 1
            key = ast.unparse(tg.slice)
            keeps = isinstance(st, ast.AugAssign) or any(
                (isinstance(x, ast.Subscript) and isinstance(x.value, ast.Name) and x.value.id in tables and ast.unparse(x.slice) == key) or
                (isinstance(x, ast.Call) and isinstance(x.func, ast.Attribute) and x.func.attr in ("get", "setdefault", "pop")
                 and isinstance(x.func.value, ast.Name) and x.func.value.id in tables) for x in ast.walk(val))
            rep.ob(f"meta_preprocessor: store `{ast.unparse(tg)}` keeps the earlier values", keeps,
                   "extends the entry" if keeps else
                   f"`{ast.unparse(st)[:70]}` replaces the entry: of `display: public` / `display: private` written on two lines "
                   f"only the last survives, while the same list in fpm.toml keeps both", py.nloc(st))
        if isinstance(st, ast.Call) and isinstance(st.func, ast.Attribute) and st.func.attr in ("append", "extend"):
            b = st.func.value
            if isinstance(b, ast.Call) and isinstance(b.func, ast.Attribute) and b.func.attr == "setdefault":
                b = b.func.value
            elif isinstance(b, ast.Subscript):
                b = b.value
            if isinstance(b, ast.Name) and b.id in tables:
                n += 1
                rep.ob(f"meta_preprocessor: `{ast.unparse(st.func)[:40]}` accumulates", True, "", py.nloc(st))
    if n < 2:
        raise AnalysisError(f"meta_preprocessor: only {n} stores into the metadata table found")


def r14_paths_do_not_depend_on_cwd(ctx, rep):
    """a relative path option is resolved against the project file's directory and nothing else (shared with C19.R3)"""
    from . import c19
    c19.r3_resolved_paths(ctx, rep)


_SPLIT_EXAMPLE = """
def bad(string):
    return string.strip().split(" ")
def good(string):
    return string.split()
def good2(string):
    return string.split(",")
"""


def _single_blank_splits(fn: ast.AST):
    return [c for c in ast.walk(fn) if isinstance(c, ast.Call) and isinstance(c.func, ast.Attribute) and c.func.attr in ("split", "rsplit")
            and c.args and isinstance(c.args[0], ast.Constant) and c.args[0].value in (" ", "\t")]


def r15_fields_split_at_blank_runs(ctx, rep):
    """Option values that are records written as text (`extra_filetypes: cpp  //  c++`) have their fields separated by blanks -
    any number of them, as in aligned metadata blocks, and tabs.  `text.split()` does that; `text.split(" ")` produces empty
    fields for every additional blank, so a well-formed value is rejected or - worse - read with its fields shifted, while the
    same record written as a TOML table is read correctly."""
    py = ctx.py
    ex = ast.parse(_SPLIT_EXAMPLE)
    got = {f.name: len(_single_blank_splits(f)) for f in ex.body if isinstance(f, ast.FunctionDef)}
    if got != {"bad": 1, "good": 0, "good2": 0}:
        raise AnalysisError(f"single-blank split matcher fails on its own example: {got}")
    n = 0
    sites = 0
    for mod, fn in py.all_functions():
        if mod != "settings":
            continue
        n += 1
        for c in _single_blank_splits(fn):
            sites += 1
            rep.ob(f"{py.qualname(fn)}: `{ast.unparse(c)[:50]}`", False,
                   f"`{ast.unparse(c)[:60]}` splits an option value at every single blank: two blanks (or a tab) between the fields give "
                   f"an empty field, the record is rejected or its fields are shifted", py.nloc(c))
    rep.ob("records in option values are split at runs of blanks", sites == 0, f"{n} functions of settings.py inspected, no single-blank split",
           "ford/settings.py")
    if n < 10:
        raise AnalysisError("settings.py: functions not found")


def r16_defaults_do_not_overwrite(ctx, rep):
    """Built-in defaults are merged *under* what the user configured.  `self.<option>.update(<BUILT_IN_TABLE>)` does the opposite:
    for a key the user set as well, the built-in value wins - `extra_mods: iso_fortran_env: https://my.site/...` in the project
    file is silently replaced by the default URL."""
    py = ctx.py
    fields = set(schema(py, "ProjectSettings"))
    n = 0
    for mod, fn in py.all_functions():
        if mod != "settings":
            continue
        for c in py.walk_calls(fn):
            if isinstance(c.func, ast.Attribute) and c.func.attr == "update" and isinstance(c.func.value, ast.Attribute) and \
                    ast.unparse(c.func.value.value) == "self" and c.func.value.attr in fields and c.args and \
                    isinstance(c.args[0], ast.Name) and c.args[0].id.isupper():
                n += 1
                rep.ob(f"{py.qualname(fn)}: `{ast.unparse(c)}`", False,
                       f"the built-in table `{c.args[0].id}` is written over the configured `{c.func.value.attr}`: an entry the user gave for "
                       f"a key that also has a default is lost (defaults must be merged under the user's values: "
                       f"`{{**{c.args[0].id}, **self.{c.func.value.attr}}}`)", py.nloc(c))
    merges = [a for _m, fn in py.all_functions() if _m == "settings" for a in ast.walk(fn)
              if isinstance(a, ast.Assign) and any(isinstance(t, ast.Attribute) and ast.unparse(t.value) == "self" and t.attr in fields for t in a.targets)
              and isinstance(a.value, ast.Dict) and any(k is None for k in a.value.keys)]
    for a in merges:
        # {**DEFAULTS, **self.x}: later entries win - the configured mapping must come last
        stars = [v for k, v in zip(a.value.keys, a.value.values) if k is None]
        n += 1
        ok = bool(stars) and ast.unparse(stars[-1]).startswith("self.")
        rep.ob(f"settings: `{ast.unparse(a)[:60]}`", ok, "the configured mapping is merged last" if ok else
               "the built-in table is merged after the configured mapping and overwrites it", py.nloc(a))
    # ... and what the user wrote is validated before the built-in entries are mixed in: a check `for k in self.x: if k in
    # self.y: raise` that runs after the merge rejects configurations in which the *built-in* keys clash - `external: mpi = ...`
    # with no extra_mods at all
    pi = py.ifunc("ProjectSettings.__post_init__")
    ev = astq.trace(pi)
    for i, e in enumerate(ev):
        if e.kind != "assign" or e.value is None or not e.target or not e.target.startswith("self.") or e.target[5:] not in fields:
            continue
        if not any(isinstance(x, ast.Name) and x.id.isupper() for x in ast.walk(e.value)) or \
                not isinstance(e.value, (ast.Dict, ast.BinOp, ast.Call)):
            continue
        tgt = e.target
        late = [r for r in ev[i + 1:] if r.kind == "raise" and
                (any(tgt in ast.unparse(l.iter) for l in r.loops if isinstance(l, ast.For)) or
                 any(tgt in unparse_c for unparse_c in r.cond_texts()))]
        n += 1
        rep.ob(f"__post_init__: `{tgt}` is validated before built-in entries are merged in", not late,
               "every rejection that looks at it precedes the merge" if not late else
               f"`{late[0].text()[:70]}` runs after the merge: built-in entries are validated as if the user had written them, so a "
               f"configuration that clashes with a *default* is refused", py.nloc(e.node))
    if n == 0:
        rep.ob("built-in defaults are merged under configured mappings", True, "no built-in table is merged into an option", "ford/settings.py",
               nontrivial=False)


def r17_loader_paths_rooted(ctx, rep):
    """A loader that has to open a file itself, before the settings object exists (files included into the metadata block with
    `{!file!}`), looks it up from the project file's directory: the fallback of a `.get(<path option>, <fallback>)` on the raw
    mapping derives from the loader's `directory` parameter.  The declared default of such an option is `Path(".")` - the current
    working directory until normalise_paths has run -, so using it here makes `ford proj/proj.md` read other files than `cd proj;
    ford proj.md`."""
    py = ctx.py
    fields = schema(py, "ProjectSettings")
    n = 0
    for mod, ifn in py.all_ifunctions():
        fn = ifn
        if mod != "settings" or not isinstance(fn, (ast.FunctionDef,)):
            continue
        a = fn.args
        params = [x.arg for x in a.posonlyargs + a.args + a.kwonlyargs]
        if "directory" not in params:
            continue
        for c in ast.walk(ifn):
            if isinstance(c, ast.Call) and isinstance(c.func, ast.Attribute) and c.func.attr in ("get", "pop", "setdefault") and len(c.args) == 2 \
                    and isinstance(c.args[0], ast.Constant) and c.args[0].value in fields and "Path" in fields[c.args[0].value]:
                n += 1
                made_of = astq.expand_locals(c.args[1], ifn)
                ok = any(isinstance(x, ast.Name) and x.id == "directory" for e in made_of for x in ast.walk(e))
                # ... and so does a value that *is* given: `md_base_dir: meta` means <project directory>/meta here as it does
                # everywhere else - the looked-up value is joined onto the directory (or handed to normalise_path with it)
                par = astq.parents_of(ifn)

                def from_dir(e):
                    return any(isinstance(x, ast.Name) and x.id == "directory" for y in astq.expand_locals(e, ifn) for x in ast.walk(y))
                node, joined = c, False
                while node in par and isinstance(par[node], ast.expr):
                    up = par[node]
                    if isinstance(up, ast.BinOp) and isinstance(up.op, ast.Div) and up.right is node and from_dir(up.left):
                        joined = True
                    if isinstance(up, ast.Call) and call_name(up).split(".")[-1] in ("normalise_path", "joinpath") and \
                            any(from_dir(x) for x in ([up.func.value] if isinstance(up.func, ast.Attribute) else []) + list(up.args) if x is not node):
                        joined = True
                    node = up
                rep.ob(f"{fn.name}: value of `{ast.unparse(c)[:60]}`", joined,
                       "joined onto the directory of the project file" if joined else
                       f"a relative `{c.args[0].value}` given in the project file is used as written - relative to the working directory -, "
                       f"while every later use of the option is relative to the project file", py.nloc(c))
                ok = ok or joined
                rep.ob(f"{fn.name}: fallback of `{ast.unparse(c)[:60]}`", ok,
                       "derives from the directory of the project file" if ok else
                       f"`{ast.unparse(c.args[1])}` does not derive from the project file's directory: a relative name is looked up from the "
                       f"working directory FORD was started in", py.nloc(c))
    if n == 0:
        rep.ob("no loader opens files by an option of its own", True, "", "ford/settings.py", nontrivial=False)


RULES = [
    RuleSpec("C15.R4", r4_path_rooting, "relative paths are rooted at the project file's directory", floor=2),
    RuleSpec("C15.R8", r8_metadata_grammar, "markdown metadata grammar: key lines vs continuation lines", floor=2),
    RuleSpec("C15.R1", r1_stale_derived, "no stale derived state after post-construction assignment", floor=7),
    RuleSpec("C15.R2", r2_conversion, "conversion is exhaustive and table-consistent", floor=52),
    RuleSpec("C15.R3", r3_rejections_name_option, "rejections name the option", floor=2),
    RuleSpec("C15.R5", r5_unknown_keys, "unknown keys are reported, not fatal", floor=1),
    RuleSpec("C15.R6", r6_precedence, "precedence file < --config < CLI", floor=6),
    RuleSpec("C15.R7", r7_schema_only_writes, "only schema fields are written onto the settings object", floor=1),
    RuleSpec("C15.R10", r10_normalisations_applied, "no computed normalisation is thrown away", floor=3),
    RuleSpec("C15.R11", r11_computed_fields_are_not_options, "computed (init=False) fields are not options", floor=2),
    RuleSpec("C15.R9", r9_values_recorded_as_written, "values are recorded as written; TOML values stay native", floor=2),
    RuleSpec("C15.R13", r13_metadata_accumulates, "repeated metadata keys accumulate (lists agree between formats)", floor=2),
    RuleSpec("C15.R14", r14_paths_do_not_depend_on_cwd, "path normalisation is a function of the project directory (shared with C19.R3)", floor=1),
    RuleSpec("C15.R15", r15_fields_split_at_blank_runs, "textual records in option values are split at runs of blanks", floor=1),
    RuleSpec("C15.R16", r16_defaults_do_not_overwrite, "built-in defaults are merged under configured values", floor=1),
    RuleSpec("C15.R17", r17_loader_paths_rooted, "a loader's own file look-ups are rooted at the project file's directory", floor=1),
]
