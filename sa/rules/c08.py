"""C08 — recorded calls are exactly the user procedures a unit invokes (structural clauses)."""
from __future__ import annotations

import ast
import re
from typing import Dict, List, Optional, Set, Tuple

from ..core import AnalysisError, RuleSpec
from ..pymodel import call_name
from .. import astq
from ..specs.keywords import PAREN_KEYWORDS

EXPLANATION = (
    "R1 (E5 cascade model): for every container class that owns `calls`, the FORMAT and "
    "arithmetic-GOTO arms precede the call arm and leave the iteration without reaching "
    "_add_procedure_calls; every declaration arm precedes the call arm, so declared arrays are never "
    "scanned; only the ASSOCIATE arm and the call arm reach _add_procedure_calls; and the placeholder "
    "language of masked literals is disjoint from what the call regex can start on (E2). R2: in "
    "_add_procedure_calls every append to self.calls is dominated by the intrinsic/keyword filter and "
    "by de-duplication on the last chain element, after lower-casing and ASSOCIATE substitution; in "
    "correlate, resolved variables and types are dropped. R3: every Fortran keyword that can be "
    "followed by '(' in executable/I-O statements (table with clause numbers) is in INTRINSICS. R4 "
    "(E2): on the regular language that strip_paren(line, 0) produces, every CALL statement form "
    "(optional label, optional logical-IF prefix, component chains, with or without argument list, "
    "all names/blank/case spellings) is matched by SUBCALL_RE or CALL_RE. Exactness of the recorded "
    "set on every executable part is not decided."
    ' R5: EXTERNAL declarations are handled before variables are matched, and `;` splitting is exact (shared with C02.R3). R2 is decided on the event trace of _add_procedure_calls, so one combined filter test and several early `continue`s are the same thing.'
    " Added after waves 6/7 - the CALL_RE clause is a language inclusion; protected variables are exported so their element references resolve."
)
ASSUMPTIONS = ["identifiers are [A-Za-z][A-Za-z0-9_]*; statement labels are 1-5 digits"]

DECLARATION_ARMS = ["ATTRIB_RE", "MODPROC_RE", "BLOCK_DATA_RE", "MODULE_RE", "SUBMODULE_RE", "PROGRAM_RE",
                    "SUBROUTINE_RE", "NAMELIST_RE", "FUNCTION_RE", "TYPE_RE", "INTERFACE_RE", "ENUM_RE",
                    "BOUNDPROC_RE", "COMMON_RE", "FINAL_RE", "VARIABLE_RE", "USE_RE", "END_RE", "BLOCK_RE"]


def r1_not_scanned(ctx, rep):
    py, cs, rx = ctx.py, ctx.cascade, ctx.rx
    call_arm = cs.arm_by_regex("CALL_RE")
    if not any(r == "SUBCALL_RE" for r, _ in call_arm.regexes):
        raise AnalysisError("the call arm does not test SUBCALL_RE")
    for name in ("FORMAT_RE", "ARITH_GOTO_RE"):
        a = cs.arm_by_regex(name)
        ok = a.index < call_arm.index and a.continues and "_add_procedure_calls" not in a.calls
        rep.ob(f"{name} arm precedes the call arm and skips scanning", ok,
               f"arm {a.index} < call arm {call_arm.index}; body ends the iteration without scanning" if ok else
               f"{name} statements can reach the call scanner", py.nloc(a.test))
    for name in DECLARATION_ARMS:
        a = cs.arm_by_regex(name)
        ok = a.index < call_arm.index and "_add_procedure_calls" not in a.calls
        rep.ob(f"declaration arm {name} precedes the call arm", ok,
               "statements of this kind are consumed before the call scanner" if ok else
               f"{name} arm is after the call arm or scans for calls", py.nloc(a.test))
    # declarations local to a BLOCK construct are not documented, but they are still declarations: a declaration arm that is
    # switched off by a condition in its *test* lets the statement fall through to the later arms - `integer :: tmp(5)` then
    # matches the call regex and `tmp` is recorded as a call
    from . import c07
    ctr = c07.block_counter(cs)
    for name in ("VARIABLE_RE", "ATTRIB_RE"):
        a = cs.arm_by_regex(name)
        falls = c07.block_guard_in_test(a, ctr)
        later_guarded = all(c07.block_guard_in_test(x, ctr) for x in cs.arms if x.index > a.index and "_add_procedure_calls" in x.calls)
        ok = not falls or later_guarded
        rep.ob(f"a {name[:-3].lower()} declaration inside a BLOCK construct does not reach the call scanner", ok,
               "the arm consumes the statement also inside a BLOCK" if ok else
               f"`{ctr} == 0` is part of the arm's test: inside a BLOCK a declaration is not consumed and falls through to the call arm, "
               f"`block; integer :: tmp(5); type(foo(4)) :: z` records `tmp` and `foo` as calls", py.nloc(a.test), nontrivial=not ok)
    for lit in ("contains", "private", "sequence"):
        a = cs.arm_by_literal(lit)
        rep.ob(f"literal arm {lit} precedes the call arm", a.index < call_arm.index, "", py.nloc(a.test), nontrivial=False)
    scanners = sorted(a.name for a in cs.arms if "_add_procedure_calls" in a.calls)
    ok = scanners == sorted(["ASSOCIATE_RE", call_arm.name])
    rep.ob("only ASSOCIATE and the call arm scan for calls", ok, f"scanning arms: {scanners}", py.nloc(call_arm.test))
    # call arm is the last arm
    rep.ob("call arm is the last arm", call_arm.index == len(cs.arms) - 1, "", py.nloc(call_arm.test), nontrivial=False)
    # without `calls`, nothing is recorded
    # the scan is reached only when the container has a `calls` list: every call of the scanner in the arm runs under a
    # condition that implies hasattr(self, 'calls') (directly, or through earlier `if not hasattr(...): continue` exits)
    scans = [e for e in astq.trace_block(call_arm.body, cs.fn) if e.kind in ("call", "inline")
             and call_name(e.node).split(".")[-1] == "_add_procedure_calls"]
    if not scans:
        raise AnalysisError("call arm: the call of _add_procedure_calls was not found")
    def implies_calls(e) -> bool:
        cts = e.cond_texts()
        if any(c.startswith("hasattr(self, 'calls')") for c in cts):
            return True
        # negated guards: not (not hasattr(...) and m1), not (not hasattr(...) and m2) with m1 or m2 known to hold (arm test)
        neg = [c for c in cts if c.startswith("not (") and "not hasattr(self, 'calls')" in c]
        return len(neg) >= len(call_arm.regexes) or any(c == "not (not hasattr(self, 'calls'))" for c in cts)
    ok = all(implies_calls(e) for e in scans)
    rep.ob("containers without `calls` do not scan", ok,
           "each matcher of the arm has an early exit for containers without a `calls` list" if ok else
           f"_add_procedure_calls is reached under {scans[0].cond_texts()}: a container without `calls` scans the statement",
           py.nloc(call_arm.test))
    # placeholder language vs call regex
    pat, flags, node, _ = ctx.regexes["FortranContainer.CALL_RE"]
    core = rx.match_lang(r"\w+\s*\(", 0)
    placeholder_tail = rx.cat(rx.full(r"\d+\"", 0), rx.ANYSTAR)
    w = rx.disjoint_witness(core, placeholder_tail)
    rep.ob("masked-literal placeholder cannot start a call match", w is None,
           r'L(\w+\s*\() and L(\d+" .*) are disjoint: text of a character literal (masked as "N") is never read as a reference'
           if w is None else f"witness {w!r}", py.nloc(node))
    # every match contains a name directly followed (blanks aside) by an opening parenthesis: L(CALL_RE) is included in
    # .*\w\s*\(.*  (decided on the language, so `\(`, `[(]` and verbose layouts are the same thing)
    try:
        w_ = rx.subset_witness(rx.full(pat, flags), rx.full(r".*\w\s*\(.*", 0))
    except rx.Unsupported as e_:
        raise AnalysisError(f"CALL_RE not understood: {e_}")
    ok = w_ is None
    rep.ob("CALL_RE requires name followed by '('", ok, "" if ok else f"`{w_}` matches without a name followed by '('", py.nloc(node),
           nontrivial=False)
    # masking dominates the chain (shared with C02.R4)
    pre = [type(s).__name__ for s in cs.pre]
    wl = [s for s in cs.pre if isinstance(s, ast.While) and "QUOTES_RE" in ast.unparse(s)]
    rep.ob("literal masking precedes the dispatch chain", len(wl) == 1, f"pre-arm statements: {pre}", py.nloc(cs.loop))


def r2_filter_dominance(ctx, rep):
    """Decided on the condition-annotated event trace of _add_procedure_calls (early `continue`s contribute negated
    conditions), so one combined test and several separate tests are the same thing."""
    py = ctx.py
    fn = py.ifunc("FortranContainer._add_procedure_calls")      # canonical form: a test hoisted into a local reads like the inline one
    ev = astq.trace(fn)
    idx = {id(e): i for i, e in enumerate(ev)}
    aps = [e for e in ev if e.kind == "call" and call_name(e.node) == "self.calls.append"]
    if len(aps) != 1 or not aps[0].node.args or not isinstance(aps[0].node.args[0], ast.Name):
        raise AnalysisError(f"_add_procedure_calls: expected one `self.calls.append(<chain>)`, found {len(aps)}")
    ap = aps[0]
    chain = ap.node.args[0].id

    def is_last_of_chain(e: ast.AST) -> bool:
        for x in astq.expand_locals(e, fn):
            if isinstance(x, ast.Subscript) and isinstance(x.value, ast.Name) and x.value.id == chain and ast.unparse(x.slice) == "-1":
                return True
        return False

    def disjuncts(t: ast.AST) -> List[ast.AST]:
        if isinstance(t, ast.BoolOp) and isinstance(t.op, ast.Or):
            return [d for v in t.values for d in disjuncts(v)]
        return [t]
    negs = [d for t, pol, _ in ap.conds if not pol for d in disjuncts(t)]
    params = {a.arg for a in fn.args.args + fn.args.kwonlyargs}
    callers = [c for _m, f2 in py.all_functions() for c in py.walk_calls(f2) if call_name(c).split(".")[-1] == fn.name]

    def is_intrinsics(e: ast.AST) -> bool:
        """the table itself, or a name that can hold nothing else: a local copy, or an optional parameter that no call site
        supplies and that is replaced by the table when absent"""
        if ast.unparse(e).split(".")[-1] == "INTRINSICS":
            return True
        if not isinstance(e, ast.Name):
            return False
        vals = [v for _t, v in astq.assignments(fn, e.id) if v is not None]
        if e.id in params:
            if any(astq.bind_args(c, fn, skip_self=True).get(e.id) is not None for c in callers):
                return False
            pos = fn.args.args
            dflt = dict(zip([a.arg for a in pos[len(pos) - len(fn.args.defaults):]], fn.args.defaults))
            dflt.update({a.arg: d for a, d in zip(fn.args.kwonlyargs, fn.args.kw_defaults) if d is not None})
            d = dflt.get(e.id)
            if d is None or not ((isinstance(d, ast.Constant) and d.value is None) or ast.unparse(d).split(".")[-1] == "INTRINSICS"):
                return False
        return bool(vals) and all(ast.unparse(v).split(".")[-1] == "INTRINSICS" for v in vals)
    def f_atom(x):
        # 'intr': the (last element of the) chain is an intrinsic / keyword;  'single': the chain is a plain name, not `a%b`
        if isinstance(x, ast.Compare) and len(x.ops) == 1 and isinstance(x.ops[0], (ast.In, ast.NotIn)) and \
                is_intrinsics(x.comparators[0]) and is_last_of_chain(x.left):
            return ("intr", isinstance(x.ops[0], ast.In))
        if isinstance(x, ast.Compare) and len(x.ops) == 1 and isinstance(x.left, ast.Call) and call_name(x.left) == "len" and \
                x.left.args and isinstance(x.left.args[0], ast.Name) and x.left.args[0].id == chain and \
                isinstance(x.comparators[0], ast.Constant) and x.comparators[0].value in (1, 2):
            k, op = x.comparators[0].value, type(x.ops[0])
            table = {(1, ast.Eq): True, (1, ast.NotEq): False, (1, ast.Gt): False, (1, ast.LtE): True, (2, ast.Lt): True, (2, ast.GtE): False}
            if (k, op) in table:
                return ("single", table[(k, op)])
        return None
    blocked = astq.event_fires(ap, f_atom, {"intr": True, "single": True}) is False
    rep.ob("append dominated by the INTRINSICS filter on the last chain element", blocked,
           "a plain name that is an intrinsic / keyword never reaches the append" if blocked else
           "the intrinsic/keyword filter no longer dominates self.calls.append", py.nloc(ap.node))
    # ... but only a *plain* name can be an intrinsic: in `x%size()` the last element is a type-bound procedure of x, whatever it
    # is called - the filter must let component references through
    open_ = astq.event_fires(ap, f_atom, {"intr": True, "single": False}) is not False
    rep.ob("a type-bound procedure named like an intrinsic is still recorded", open_,
           "the filter is restricted to chains of one element" if open_ else
           "the intrinsic filter looks at the last element of every chain: `n = x%size()` / `call obj%index(i)` are dropped although "
           "they call the type's own binding - the call and its edge are missing from the call graph", py.nloc(ap.node))
    # de-duplication: the probe is the last element, compared with the last element of every recorded chain
    dd = [d for d in negs if "self.calls" in ast.unparse(d)]
    good = False
    for d in dd:
        for n in ast.walk(d):
            if isinstance(n, (ast.GeneratorExp, ast.ListComp, ast.SetComp)) and len(n.generators) == 1 and \
                    ast.unparse(n.generators[0].iter) == "self.calls" and isinstance(n.generators[0].target, ast.Name):
                v = n.generators[0].target.id
                last_known = lambda x: isinstance(x, ast.Subscript) and isinstance(x.value, ast.Name) and x.value.id == v and ast.unparse(x.slice) == "-1"  # noqa: E731
                if last_known(n.elt):
                    # <probe> in (k[-1] for k in self.calls)
                    par = py.parents.get(n)
                    if isinstance(par, ast.Compare) and isinstance(par.ops[0], ast.In) and is_last_of_chain(par.left):
                        good = True
                    if isinstance(par, ast.Call) and call_name(par) in ("set", "list", "tuple", "frozenset"):
                        pp = py.parents.get(par)
                        if isinstance(pp, ast.Compare) and isinstance(pp.ops[0], ast.In) and is_last_of_chain(pp.left):
                            good = True
                if isinstance(n.elt, ast.Compare) and len(n.elt.ops) == 1 and isinstance(n.elt.ops[0], ast.Eq):
                    # any(<probe> == k[-1] for k in self.calls)
                    l, r = n.elt.left, n.elt.comparators[0]
                    if (last_known(l) and is_last_of_chain(r)) or (last_known(r) and is_last_of_chain(l)):
                        par = py.parents.get(n)
                        if isinstance(par, ast.Call) and call_name(par) == "any":
                            good = True
    if not good:
        # the same test against a local set of the recorded last elements: `known = {c[-1] for c in self.calls}` ...
        # `if name in known: continue` ... `known.add(name)` next to the append (so that a repetition inside one statement
        # is still seen)
        for d in negs:
            if not (isinstance(d, ast.Compare) and len(d.ops) == 1 and isinstance(d.ops[0], ast.In) and isinstance(d.comparators[0], ast.Name)
                    and is_last_of_chain(d.left)):
                continue
            known = d.comparators[0].id
            builds = [v for _s, v in astq.assignments(fn, known) if isinstance(v, (ast.SetComp, ast.ListComp, ast.GeneratorExp, ast.Call))]
            from_calls = False
            for v in builds:
                for n in ast.walk(v):
                    if isinstance(n, (ast.SetComp, ast.ListComp, ast.GeneratorExp)) and len(n.generators) == 1 and \
                            ast.unparse(n.generators[0].iter) == "self.calls" and isinstance(n.generators[0].target, ast.Name) and \
                            isinstance(n.elt, ast.Subscript) and isinstance(n.elt.value, ast.Name) and \
                            n.elt.value.id == n.generators[0].target.id and ast.unparse(n.elt.slice) == "-1":
                        from_calls = True
            kept_up = any(e.kind == "call" and isinstance(e.node.func, ast.Attribute) and e.node.func.attr in ("add", "append")
                          and isinstance(e.node.func.value, ast.Name) and e.node.func.value.id == known and e.node.args
                          and is_last_of_chain(e.node.args[0])
                          and [(id(t_), p_) for t_, p_, _ in e.conds] == [(id(t_), p_) for t_, p_, _ in ap.conds] for e in ev)
            if from_calls and kept_up:
                good = True
                dd = [d]
    t = ast.unparse(dd[0])[:90] if dd else "(none)"
    rep.ob("de-duplication compares the last chain elements", good,
           "a procedure reached through different receiver chains is recorded once" if good else
           f"de-duplication test is `{t}`: two chains ending in the same procedure (a%area(), b%area()) are both "
           f"recorded, and both resolve to one procedure", py.nloc(dd[0]) if dd else py.nloc(ap.node))
    cdef = [e for e in ev if e.kind == "assign" and e.target == chain and e.value is not None]
    def lowered_split(v):
        cs_ = [c for c in ast.walk(v) if isinstance(c, ast.Call) and isinstance(c.func, ast.Attribute)]
        return any(c.func.attr in ("lower", "casefold") for c in cs_) and any(
            c.func.attr == "split" and c.args and isinstance(c.args[0], ast.Constant) and c.args[0].value == "%" for c in cs_)
    ok = bool(cdef) and any(lowered_split(x) for x in astq.expand_locals(cdef[0].value, fn))
    rep.ob("chain lower-cased before the tests", ok, "", py.nloc(cdef[0].node) if cdef else py.nloc(fn))
    assoc = [e for e in ev if e.kind == "assign" and e.target and e.target.startswith(chain + "[") and "associations" in ast.unparse(e.value)]
    ok = bool(assoc) and idx[id(assoc[0])] < idx[id(ap)] and not any("INTRINSICS" in c for c in assoc[0].cond_texts())
    rep.ob("ASSOCIATE names substituted before the tests", ok, "", py.nloc(assoc[0].node) if assoc else py.nloc(fn))
    co = py.ifunc("FortranCodeUnit.correlate")      # canonical form: the matching loop may live in a helper
    cev = astq.trace(co)
    found = [e for e in cev if e.kind == "assign" and e.value is not None and isinstance(e.value, ast.Call)
             and call_name(e.value).endswith("_find_chain_item")]
    if not found:
        raise AnalysisError("FortranCodeUnit.correlate: `item = self._find_chain_item(call)` not found")
    item = found[0].target
    callv = ast.unparse(found[0].value.args[0])
    keeps = [e for e in cev if e.kind == "call" and call_name(e.node).endswith(".append") and e.node.args
             and ast.unparse(e.node.args[0]) == item]
    ok = bool(keeps) and any(re.match(r"not \(?isinstance\(", c) and "FortranVariable" in c and "FortranType" in c for c in keeps[0].cond_texts_x(co))
    rep.ob("resolved variables and types are dropped from calls", ok, "", py.nloc(co))
    names = [e for e in cev if e.kind == "call" and call_name(e.node).endswith(".append") and e.node.args
             and ast.unparse(e.node.args[0]) == f"{callv}[-1]"]
    ok = bool(names) and astq.implied_none_tests(names[0]).get(item) is True
    rep.ob("unresolved calls keep their name", ok, "", py.nloc(co))
    # function references are searched at every parenthesis depth: strip_paren(line, <d>) inside a loop that increments <d>
    sp = [e for e in ev if e.kind == "call" and call_name(e.node).endswith("strip_paren") and len(e.node.args) >= 2]
    loops = [n for n in ast.walk(fn) if isinstance(n, (ast.While, ast.For))]
    ok = False
    for lp in loops:
        incs = {ast.unparse(n.target) for n in ast.walk(lp) if isinstance(n, ast.AugAssign) and isinstance(n.op, ast.Add)}
        if isinstance(lp, ast.For) and isinstance(lp.iter, ast.Call) and call_name(lp.iter).split(".")[-1] == "count":
            incs.add(ast.unparse(lp.target))          # `for depth in itertools.count(start)`
        calls_in = [c for c in ast.walk(lp) if isinstance(c, ast.Call) and call_name(c).endswith("strip_paren") and len(c.args) >= 2
                    and ast.unparse(c.args[1]) in incs]
        finds = [c for c in ast.walk(lp) if isinstance(c, ast.Call) and call_name(c).endswith("CALL_RE.finditer")]
        ok = ok or (bool(calls_in) and bool(finds))
    rep.ob("function references are searched at every parenthesis depth", ok, "", py.nloc(fn))


def r3_keyword_table(ctx, rep):
    py = ctx.py
    v = py.const_value("intrinsics", "INTRINSICS")
    vals: Set[str] = set(v) if isinstance(v, (list, tuple, set, frozenset)) else set()
    if len(vals) < 300:
        raise AnalysisError("INTRINSICS table not found")
    for kw, clause in sorted(PAREN_KEYWORDS.items()):
        ok = kw in vals
        rep.ob(f"keyword {kw}", ok,
               f"in INTRINSICS ({clause})" if ok else
               f"`{kw}` can be followed by '(' ({clause}) but is not in INTRINSICS: it is recorded as a called "
               f"procedure", "ford/intrinsics.py", nontrivial=False)
    rep.stats["intrinsics"] = len(vals)


def r4_call_forms(ctx, rep):
    py, rx = ctx.py, ctx.rx
    sp, sf, snode, _ = ctx.regexes["FortranContainer.SUBCALL_RE"]
    cp, cf, cnode, _ = ctx.regexes["FortranContainer.CALL_RE"]
    covered = rx.alt(rx.search_lang(sp, sf), rx.search_lang(cp, cf))
    NAME = r"[a-z][a-z0-9_]*"
    chain = rf"(?:{NAME}\s*(?:\(\))?\s*%\s*)*"
    forms = {
        "call name": rf"call\s+{chain}{NAME}\s*",
        "call name()": rf"call\s+{chain}{NAME}\s*\(\)\s*",
        "if () call name": rf"if\s*\(\)\s*call\s+{chain}{NAME}\s*",
        "if () call name()": rf"if\s*\(\)\s*call\s+{chain}{NAME}\s*\(\)\s*",
        "label call name": rf"[0-9]{{1,5}}\s+call\s+{chain}{NAME}\s*",
        "label call name()": rf"[0-9]{{1,5}}\s+call\s+{chain}{NAME}\s*\(\)\s*",
        "label if () call name": rf"[0-9]{{1,5}}\s+if\s*\(\)\s*call\s+{chain}{NAME}\s*",
        "x = name()": rf"{NAME}\s*=\s*{chain}{NAME}\s*\(\)\s*",
    }
    sub_only = rx.search_lang(sp, sf)
    for label, ref in forms.items():
        L = rx.full(ref, re.IGNORECASE)
        # without an argument list only SUBCALL_RE can capture the procedure name (CALL_RE needs `name(`)
        target = covered if label.endswith("()") else sub_only
        w = rx.subset_witness(L, target)
        rep.ob(f"call form `{label}`", w is None,
               ("every spelling of this form is matched by SUBCALL_RE or CALL_RE "
                f"({rx.witness.last_states} derivative states)" if w is None else
                f"`{w}` is a legal statement of the form `{label}` (after strip_paren) that neither SUBCALL_RE nor "
                f"CALL_RE matches: the call is not recorded"), py.nloc(snode), witness=w)
    # the names captured: SUBCALL's call_chain group must not swallow a following token
    ok = "call_chain" in sp and "call_chain" in cp
    rep.ob("both regexes expose the call_chain group", ok, "", py.nloc(snode), nontrivial=False)


def r5_external_and_semicolons(ctx, rep):
    py = ctx.py
    # variables carrying EXTERNAL (declared function names) are removed from the variable table only
    # after stand-alone attribute statements were applied
    cl = py.func("FortranCodeUnit._cleanup")
    pa_line = min([c.lineno for c in py.walk_calls(cl) if call_name(c) == "self.process_attribs"] or [0])
    reads = [n for n in ast.walk(cl) if isinstance(n, ast.Attribute) and n.attr == "attribs" and isinstance(n.ctx, ast.Load)]
    if not pa_line or not reads:
        raise AnalysisError("FortranCodeUnit._cleanup: process_attribs call or attribs read not found")
    early = [r for r in reads if r.lineno < pa_line]
    rep.ob("_cleanup reads attributes only after process_attribs", not early,
           "the EXTERNAL filter runs after stand-alone attribute statements were attached" if not early else
           "`.attribs` is read before self.process_attribs(): `real :: area` + `external area` leaves `area` a variable, "
           "and references `area(x)` are then discarded as array elements", py.nloc(early[0] if early else cl))
    refilter = [n for n in ast.walk(cl) if isinstance(n, ast.Assign) and any(ast.unparse(t) == "self.variables" for t in n.targets)
                and any(isinstance(c, ast.Compare) and isinstance(c.ops[0], (ast.NotIn, ast.In, ast.NotEq, ast.Eq))
                        and any(isinstance(k, ast.Constant) and k.value == "external" for k in ast.walk(c)) for c in ast.walk(n.value))]
    rep.ob("EXTERNAL names are dropped from the variable table", bool(refilter),
           "self.variables is rebuilt without the entities that carry the EXTERNAL attribute", py.nloc(cl))
    # `;`-separated statements: the splitter is exact (shared with C02.R3)
    from . import c02
    c02.r3_scanners(ctx, rep)



def r6_association_scoping_and_pushback(ctx, rep):
    """(a) an ASSOCIATE name is looked up in the innermost batch first; (b) a line handed back to the reader is the
    next one it returns, also when `;`-separated statements are still pending"""
    py = ctx.py
    for m in ("__getitem__", "__contains__"):
        fn = py.func(f"Associations.{m}")
        its = [n.iter for n in ast.walk(fn) if isinstance(n, (ast.For, ast.comprehension)) and "_batches" in ast.unparse(n.iter)]
        maps = [c for c in py.walk_calls(fn) if call_name(c).split(".")[-1] == "ChainMap" and "_batches" in ast.unparse(c)]
        props = []
        for c in ast.walk(fn):
            if isinstance(c, ast.Attribute) and isinstance(c.value, ast.Name) and c.value.id == "self" and c.attr != "_batches":
                r = py.resolve_method("Associations", c.attr)
                if r is not None:
                    its += [n.iter for n in ast.walk(r[1]) if isinstance(n, (ast.For, ast.comprehension)) and "_batches" in ast.unparse(n.iter)]
                    maps += [k for k in py.walk_calls(r[1]) if call_name(k).split(".")[-1] == "ChainMap" and "_batches" in ast.unparse(k)]
        if not its and not maps:
            raise AnalysisError(f"Associations.{m}: no traversal of the batches found")
        inner_first = all("reversed(" in ast.unparse(i) or "[::-1]" in ast.unparse(i) for i in its) and \
            all("reversed(" in ast.unparse(k) or "[::-1]" in ast.unparse(k) for k in maps)
        rep.ob(f"Associations.{m} searches the innermost ASSOCIATE first", inner_first,
               "batches are traversed from the last one added" if inner_first else
               "the batches are searched outermost-first: a name re-bound by a nested ASSOCIATE resolves to the outer selector, so "
               "`call part%start()` is recorded for the wrong type", py.nloc(fn))
    pb = py.func("FortranReader.pass_back")
    front = False
    for n in ast.walk(pb):
        if isinstance(n, ast.Call) and isinstance(n.func, ast.Attribute) and ast.unparse(n.func.value) == "self.pending":
            if n.func.attr == "insert" and n.args and ast.unparse(n.args[0]) == "0":
                front = True
            if n.func.attr == "appendleft":
                front = True
        if isinstance(n, ast.Assign) and ast.unparse(n.targets[0]) == "self.pending" and isinstance(n.value, ast.BinOp) \
                and isinstance(n.value.left, ast.List) and ast.unparse(n.value.right) == "self.pending":
            front = True
    rep.ob("pass_back re-queues the line at the front of the pending statements", front,
           "the line handed back is returned next" if front else
           "pass_back puts the line behind the statements still pending from a `;`-separated source line: statements are "
           "reordered (an END can overtake a CALL, which is then recorded for no one)", py.nloc(pb))


def r6_protected_arrays_resolve(ctx, rep):
    """an element reference of a use-associated array is dropped from the calls only if the array can be resolved; PROTECTED
    variables are exported like public ones (shared with C06.R2)"""
    from . import c06
    c06.r2_public_only(ctx, rep)


def r7_dependency_closure(ctx, rep):
    """calls are resolved against what the used modules export, so a module is correlated after every module that any procedure
    nested in it uses (shared with C06.R3)"""
    from . import c06
    c06.r3_dependency_order(ctx, rep)


def r8_format_statements(ctx, rep):
    """A FORMAT statement is a label, the keyword and a parenthesised list - with or without a blank in front of the parenthesis
    (R1001).  Its content is full of `name(`-like text (`3(i3, 1x)`, `f8.3`), so the statement has to be taken out before the call
    patterns see it: every `label FORMAT (...)` / `label FORMAT(...)` must be matched by the pattern that does that.  Decided as a
    language inclusion."""
    py, rx = ctx.py, ctx.rx
    key = next((k for k in ctx.regexes if k.split(".")[-1] == "FORMAT_RE"), None)
    if key is None:
        raise AnalysisError("FORMAT_RE not found")
    pat, flags, node, _ = ctx.regexes[key]
    cs = ctx.cascade
    how = "match"
    ref = rx.full(r"[0-9]+ +[Ff][Oo][Rr][Mm][Aa][Tt] *\([^\n]*\)", 0)
    try:
        w = rx.subset_witness(ref, rx.match_lang(pat, flags))
    except rx.Unsupported as e_:
        raise AnalysisError(f"FORMAT_RE not understood: {e_}")
    rep.ob("FORMAT_RE matches every labelled FORMAT statement", w is None,
           "label, FORMAT, optional blanks, parenthesised list" if w is None else
           f"`{w}` is a FORMAT statement that the pattern does not match: it goes on to the call patterns, and a repeat count in front "
           f"of a group (`3(i3)`) is recorded as a call of a procedure named `3`", py.nloc(node), witness=w)


def r9_external_tables_keep_local_names(ctx, rep):
    """tables of external modules keep their keys (shared with C06.R5)"""
    from . import c06
    c06.r5_externalised_tables(ctx, rep)


def r10_inheritance_is_transitive(ctx, rep):
    """bindings are looked up in the accumulated members of the parent type (shared with C07.R15)"""
    from . import c07
    c07.r15_inheritance_is_transitive(ctx, rep)


RULES = [
    RuleSpec("C08.R5", r5_external_and_semicolons, "EXTERNAL handling order; exact `;` splitting (shared with C02.R3)", floor=2),
    RuleSpec("C08.R1", r1_not_scanned, "statements that must not be scanned", floor=15),
    RuleSpec("C08.R2", r2_filter_dominance, "filter dominance and de-duplication", floor=3),
    RuleSpec("C08.R3", r3_keyword_table, "keyword table", floor=21),
    RuleSpec("C08.R4", r4_call_forms, "call statement forms are recognised", floor=4),
    RuleSpec("C08.R6", r6_association_scoping_and_pushback, "ASSOCIATE scoping and statement order on ;-lines", floor=3),
    RuleSpec("C08.R6", r6_protected_arrays_resolve, "protected variables are exported, so their element references resolve (shared with C06.R2)", floor=7),
    RuleSpec("C08.R7", r7_dependency_closure, "modules are correlated after everything nested procedures use (shared with C06.R3)", floor=5),
    RuleSpec("C08.R8", r8_format_statements, "labelled FORMAT statements are recognised with or without a blank before the parenthesis", floor=1),
    RuleSpec("C08.R9", r9_external_tables_keep_local_names, "tables of external modules keep their keys (shared with C06.R5)", floor=1),
    RuleSpec("C08.R10", r10_inheritance_is_transitive, "bindings are looked up in the accumulated members of the parent type (shared with C07.R15)", floor=1),
]
