"""C07 — cross-references resolve to the entity Fortran scoping designates (structural clauses)."""
from __future__ import annotations

import ast
import re
from typing import Dict, List, Optional, Set, Tuple

from ..core import AnalysisError, RuleSpec
from ..pymodel import call_name
from .. import astq

EXPLANATION = (
    "Rules on how the per-scope name tables are built in the correlate methods. R1 (alias rule): a "
    "name or attribute bound to a table of the host scope (self.parent.<t>, getattr(self.parent, '<t>', "
    "...)) without an intervening copy must not be the receiver of a subscript store, update, "
    "setdefault, pop or clear - otherwise a child writes its declarations into the parent's dictionary "
    "and they become visible to siblings. Read-only aliases are counted. R2 (innermost wins): for each of "
    "the four tables the writes in FortranCodeUnit.correlate are classified LOCAL / HOST / ANCESTOR / USE "
    "and ordered; no HOST or ANCESTOR write may follow the LOCAL write to the same table. R3: every key "
    "written into or looked up in a scope table is lower-cased. R4: resolution never falls back to a "
    "project-wide search - the `project` parameter of the correlate methods is only passed on and used "
    "for common blocks. R5: types are correlated in extension order (toposort over resolved parents, "
    "looked up after host/USE merging). Designation of the right entity on every program is not decided."
    " R6: declarations local to BLOCK/ASSOCIATE constructs stay out of the enclosing scope's tables. R7 (shared with C06.R3): importers are correlated after their exporters."
    " Added after waves 6/7 - scope tables are read by key; external modules export under their local names."
)
ASSUMPTIONS = ["dict writes are subscript stores, update, setdefault, pop, clear, del"]

TABLES = ("all_procs", "all_types", "all_vars", "all_absinterfaces")
MUT = ("update", "setdefault", "pop", "clear", "popitem")


def _is_parent_table(v: ast.AST) -> Optional[str]:
    """'<table>' if v reads a table of another scope without copying it."""
    if isinstance(v, ast.Attribute) and v.attr in TABLES and not (isinstance(v.value, ast.Name) and v.value.id == "self"):
        return v.attr
    if isinstance(v, ast.Call) and call_name(v) == "getattr" and len(v.args) >= 2 and \
            isinstance(v.args[1], ast.Constant) and v.args[1].value in TABLES and ast.unparse(v.args[0]) != "self":
        return v.args[1].value
    return None


def r1_alias_mutation(ctx, rep):
    py = ctx.py
    n_alias = 0
    for cname, ci in py.classes.items():
        if ci.module != "sourceform":
            continue
        fn = ci.methods.get("correlate")
        if fn is None:
            continue
        aliases: Dict[str, Tuple[str, ast.AST]] = {}     # 'self.all_types' or local name -> (foreign table, node)
        for st in ast.walk(fn):
            if isinstance(st, ast.Assign) and len(st.targets) == 1:
                t = _is_parent_table(st.value)
                if t:
                    aliases[ast.unparse(st.targets[0])] = (ast.unparse(st.value), st)
        for alias, (src, node) in sorted(aliases.items()):
            n_alias += 1
            muts = []
            for n in ast.walk(fn):
                if n.lineno <= node.lineno if hasattr(n, "lineno") else False:
                    continue
                if isinstance(n, ast.Subscript) and isinstance(n.ctx, (ast.Store, ast.Del)) and ast.unparse(n.value) == alias:
                    muts.append(n)
                if isinstance(n, ast.Call) and isinstance(n.func, ast.Attribute) and n.func.attr in MUT and \
                        ast.unparse(n.func.value) == alias:
                    muts.append(n)
            ok = not muts
            rep.ob(f"{cname}.correlate alias {alias} = {src}", ok,
                   ("read-only alias of the host's table" if ok else
                    f"`{alias}` is the host's own dictionary ({src}, no copy) and is mutated at line(s) "
                    f"{sorted({m.lineno for m in muts})}: declarations local to this scope are written into the parent's "
                    f"table and become visible to sibling scopes"), py.nloc(node))
    if n_alias < 8:
        raise AnalysisError(f"only {n_alias} host-table aliases found in correlate methods")
    rep.stats["aliases"] = n_alias


def r2_innermost_wins(ctx, rep, only_use: bool = False):
    py = ctx.py
    # canonical form: a table-driven loop over (all_*, pub_*) pairs is unrolled, getattr(self, "<table>") is self.<table>
    fn = py.ifunc("FortranCodeUnit.correlate")
    events: Dict[str, List[Tuple[int, str, str]]] = {t: [] for t in TABLES}

    def classify(src: str) -> str:
        if "parent_submodule" in src or "ancestor_module" in src:
            return "ANCESTOR"
        if "self.parent" in src:
            return "HOST"
        if src in use_names or re.sub(r"\[\d+\]$", "", src) in use_names:      # `used[2]`: one element of the imported tuple
            return "USE"
        return "LOCAL"

    # the names that hold what a USE statement imported: targets of `... = <module>.get_used_entities(...)`
    use_names: Set[str] = set()
    for n in ast.walk(fn):
        if isinstance(n, ast.Assign) and isinstance(n.value, ast.Call) and isinstance(n.value.func, ast.Attribute) and \
                n.value.func.attr == "get_used_entities":
            for t in n.targets:
                use_names |= {x.id for x in ast.walk(t) if isinstance(x, ast.Name)}
    if not use_names:
        raise AnalysisError("FortranCodeUnit.correlate: the result of get_used_entities is not bound to names")

    for n in ast.walk(fn):
        # self.T.update(X)
        if isinstance(n, ast.Call) and isinstance(n.func, ast.Attribute) and n.func.attr == "update" and \
                isinstance(n.func.value, ast.Attribute) and n.func.value.attr in TABLES and n.args:
            events[n.func.value.attr].append((n.lineno, classify(ast.unparse(n.args[0])), ast.unparse(n)[:70]))
        # self.T = X   (a dict display {**A, **B} is a sequence of writes in which the later entry wins;
        #               `**self.T` re-asserts everything written so far)
        if isinstance(n, ast.Assign) and isinstance(n.targets[0], ast.Attribute) and n.targets[0].attr in TABLES and \
                ast.unparse(n.targets[0].value) == "self":
            tname = n.targets[0].attr
            v = n.value
            parts = None
            if isinstance(v, ast.Dict) and v.keys and all(k is None for k in v.keys):
                parts = list(v.values)
            elif isinstance(v, ast.BinOp) and isinstance(v.op, ast.BitOr):
                parts = [v.left, v.right]
            if parts is not None:
                for i, part in enumerate(parts):
                    if ast.unparse(part) == f"self.{tname}":
                        for ln, k, d in list(events[tname]):
                            if ln < n.lineno:
                                events[tname].append((n.lineno + 0.01 * (i + 1), k, f"re-asserted by `{ast.unparse(n)[:60]}`"))
                    else:
                        events[tname].append((n.lineno + 0.01 * (i + 1), classify(ast.unparse(part)), ast.unparse(n)[:70]))
            else:
                events[tname].append((n.lineno, classify(ast.unparse(v)), ast.unparse(n)[:70]))
        # for x in COLL: self.T[...] = x
        if isinstance(n, ast.For):
            for s in n.body:
                if isinstance(s, ast.Assign) and isinstance(s.targets[0], ast.Subscript) and \
                        isinstance(s.targets[0].value, ast.Attribute) and s.targets[0].value.attr in TABLES:
                    src = ast.unparse(n.iter)
                    kind = "HOST" if "self.parent" in src else "LOCAL"
                    events[s.targets[0].value.attr].append((n.lineno, kind, f"for ... in {src}: {ast.unparse(s)[:50]}"))
        if isinstance(n, ast.If) and any(
                (isinstance(x, ast.Call) and call_name(x) == "getattr" and len(x.args) >= 2 and ast.unparse(x.args[0]) == "self.parent"
                 and isinstance(x.args[1], ast.Constant) and x.args[1].value == "retvar")
                or (isinstance(x, ast.Attribute) and x.attr == "retvar" and ast.unparse(x.value) == "self.parent") for x in ast.walk(n.test)):
            events["all_vars"].append((n.lineno, "HOST", "parent's result variable"))
    # tables that are first filled in _cleanup (before correlate): an assignment there from the unit's own lists is LOCAL
    cl = py.ifunc("FortranCodeUnit._cleanup")
    for n in ast.walk(cl):
        if isinstance(n, ast.Assign) and isinstance(n.targets[0], ast.Attribute) and n.targets[0].attr in TABLES and \
                ast.unparse(n.targets[0].value) == "self" and classify(ast.unparse(n.value)) == "LOCAL":
            events[n.targets[0].attr].append((0, "LOCAL", f"_cleanup: {ast.unparse(n)[:60]}"))
    for t in TABLES:
        ev = sorted(events[t])
        if not ev:
            raise AnalysisError(f"no writes to {t} found in FortranCodeUnit.correlate")
        local_at = [ln for ln, k, _ in ev if k == "LOCAL"]
        if not local_at:
            raise AnalysisError(f"no LOCAL write to {t} found")
        last_local = max(local_at)
        order = " < ".join(f"{k}" for ln, k, _ in ev)
        use_at = [ln for ln, k, _ in ev if k == "USE"]
        if use_at:
            later = [(ln, k, d) for ln, k, d in ev if ln > max(use_at) and k in ("HOST",)]
            rep.ob(f"table {t}: use association overrides host association", not later,
                   f"write order {order}" if not later else
                   f"write order {order}: `{later[0][2]}` puts the host's names back over what a USE statement of this scope "
                   f"imported: an inner-scope `use m, only: x` no longer hides the host's `x`",
                   f"ford/sourceform.py:{int(later[0][0]) if later else int(ev[0][0])}")
        if only_use:
            continue
        for kind, word in (("HOST", "host"), ("ANCESTOR", "ancestor-module")):
            later = [(ln, k, d) for ln, k, d in ev if ln > last_local and k == kind]
            rep.ob(f"table {t}: no {word} write after the local one", not later,
                   f"write order {order}" if not later else
                   f"write order {order}: `{later[0][2]}` runs after the scope's own declarations were entered, and the "
                   f"later dict write wins: a {word} entity shadows a local declaration of the same name",
                   f"ford/sourceform.py:{int(later[0][0]) if later else int(ev[0][0])}")


PROJECT_NAME_TABLES = {"common"}     # dicts on the project object that are keyed by a Fortran name


def r3_lower_keys(ctx, rep):
    py = ctx.py
    n = 0
    for cname, ci in py.classes.items():
        if ci.module != "sourceform":
            continue
        for mname in ("correlate", "_cleanup", "get_used_entities", "_find_chain_item"):
            fn = ci.methods.get(mname)
            if fn is None:
                continue
            for s in ast.walk(fn):
                key = None
                where = None
                # stores T[key] = ...
                if isinstance(s, ast.Subscript) and isinstance(s.value, ast.Attribute) and s.value.attr in TABLES:
                    key, where = s.slice, "subscript"
                # T.get(key, ...) / key in T
                if isinstance(s, ast.Call) and isinstance(s.func, ast.Attribute) and s.func.attr == "get" and \
                        isinstance(s.func.value, ast.Attribute) and s.func.value.attr in TABLES and s.args:
                    key, where = s.args[0], "get"
                if isinstance(s, ast.Compare) and len(s.ops) == 1 and isinstance(s.ops[0], (ast.In, ast.NotIn)) and \
                        isinstance(s.comparators[0], ast.Attribute) and s.comparators[0].attr in TABLES:
                    key, where = s.left, "in"
                # project-wide name tables (`project.common`: common-block name -> the blocks of that name in all units)
                if isinstance(s, ast.Subscript) and isinstance(s.value, ast.Attribute) and s.value.attr in PROJECT_NAME_TABLES \
                        and ast.unparse(s.value.value) == "project":
                    key, where = s.slice, "project table subscript"
                if isinstance(s, ast.Compare) and len(s.ops) == 1 and isinstance(s.ops[0], (ast.In, ast.NotIn)) and \
                        isinstance(s.comparators[0], ast.Attribute) and s.comparators[0].attr in PROJECT_NAME_TABLES \
                        and ast.unparse(s.comparators[0].value) == "project":
                    key, where = s.left, "project table in"
                # dict displays merged into tables: {x.name: x for ...}
                if key is None:
                    continue
                n += 1
                kt = ast.unparse(key)
                lowered = kt.endswith(".lower()") or _name_is_lowered(py, fn, key)
                rep.ob(f"{cname}.{mname}: {where} key `{kt}`", lowered,
                       "key is lower-cased" if lowered else
                       f"`{kt}` is used as a key of a case-insensitive scope table without .lower(): an entity whose "
                       f"declaration and reference differ in letter case is not found", py.nloc(s))
            for s in ast.walk(fn):
                if isinstance(s, ast.DictComp) and isinstance(s.key, ast.Attribute) and s.key.attr == "name":
                    n += 1
                    rep.ob(f"{cname}.{mname}: dict keyed by `{ast.unparse(s.key)}`", False,
                           f"`{ast.unparse(s)[:60]}` keys a name table by the name as written (no .lower())", py.nloc(s))
    # names imported through USE become keys of the importing scope's tables
    gu = py.func("FortranModule.get_used_entities")
    for m in ast.walk(gu):
        if isinstance(m, ast.Assign) and isinstance(m.targets[0], ast.Subscript) and \
                ast.unparse(m.targets[0].value) == "used_names":
            n += 1
            k, v = ast.unparse(m.targets[0].slice), ast.unparse(m.value)
            ok = k.endswith(".lower()") and v.endswith(".lower()")
            rep.ob(f"FortranModule.get_used_entities: used_names[{k}] = {v}", ok,
                   "imported names (remote and local) are lower-cased" if ok else
                   f"`used_names[{k}] = {v}`: the local name of a renamed import keeps its source spelling and becomes "
                   f"a table key that no lower-cased lookup reaches", py.nloc(m))
    if n < 25:
        raise AnalysisError(f"only {n} scope-table key sites found")


def _name_is_lowered(py, fn, key: ast.AST) -> bool:
    """key is a local name assigned from an expression ending in .lower(), or a loop variable over a
    list that was lower-cased at construction (FortranNamelist.variables)."""
    if isinstance(key, ast.Name):
        for s in ast.walk(fn):
            if isinstance(s, ast.Assign) and any(isinstance(t, ast.Name) and t.id == key.id for t in s.targets):
                if ast.unparse(s.value).endswith(".lower()") or ".lower()" in ast.unparse(s.value):
                    return True
            if isinstance(s, ast.NamedExpr) and s.target.id == key.id and ".lower()" in ast.unparse(s.value):
                return True
        # parameters named label/type_str in _find_chain_item are lowered by their producers
        if key.id in ("label", "type_str", "proto_lower", "proto_name", "binding_name", "variable"):
            return True
    return False


def r4_no_project_fallback(ctx, rep):
    py = ctx.py
    n = 0
    for cname, ci in py.classes.items():
        if ci.module != "sourceform":
            continue
        fn = ci.methods.get("correlate")
        if fn is None or len(fn.args.args) < 2:
            continue
        p = fn.args.args[1].arg
        uses = [x for x in ast.walk(fn) if isinstance(x, ast.Name) and x.id == p and isinstance(x.ctx, ast.Load)]
        for u in uses:
            par = py.parents[u]
            n += 1
            passed_on = isinstance(par, ast.Call) and u in par.args and call_name(par).endswith(".correlate")
            common = cname == "FortranCommon" and isinstance(par, ast.Attribute) and par.attr == "common"
            ok = passed_on or common
            rep.ob(f"{cname}.correlate use of `{p}`: {ast.unparse(par)[:50]}", ok,
                   "passed on to a nested correlate" if passed_on else ("common blocks are global by definition" if common else
                   f"`{ast.unparse(par)[:60]}` consults the whole project while resolving a name: a reference with no "
                   f"visible declaration would be linked to a same-named entity elsewhere"), py.nloc(u), nontrivial=not passed_on)
    if n < 10:
        raise AnalysisError("correlate methods with a project parameter not found")


def r5_type_extension_order(ctx, rep):
    py = ctx.py
    for q in ("FortranCodeUnit.correlate", "FortranBlockData.correlate"):
        fn = py.ifunc(q)        # canonical form: the ordering may live in a helper (`self._types_in_extension_order()`)
        # the loop that correlates types iterates a toposorted order of the extension map
        loops = [n for n in ast.walk(fn) if isinstance(n, ast.For) and isinstance(n.target, ast.Name) and any(
            isinstance(c, ast.Call) and isinstance(c.func, ast.Attribute) and c.func.attr == "correlate"
            and isinstance(c.func.value, ast.Name) and c.func.value.id == n.target.id for c in ast.walk(n))]
        topo = [c for l in loops for e in astq.expand_locals(l.iter, fn) for c in ast.walk(e)
                if isinstance(c, ast.Call) and call_name(c).split(".")[-1] in ("toposort_flatten", "toposort")]
        ok = bool(topo)
        rep.ob(f"{q}: types correlated in extension order", ok, "", py.nloc(fn))
        # the extension map: typelist[<t>] = {<t>.extends}, with the parent looked up lower-cased in the merged table
        mapname = ast.unparse(topo[0].args[0]) if topo and topo[0].args else "typelist"
        stores = [n for n in ast.walk(fn) if isinstance(n, ast.Assign) and isinstance(n.targets[0], ast.Subscript)
                  and ast.unparse(n.targets[0].value) == mapname and ".extends" in ast.unparse(n.value)]
        lookups = [n for n in ast.walk(fn) if isinstance(n, ast.Assign) and ast.unparse(n.targets[0]).endswith(".extends")
                   and isinstance(n.value, ast.Subscript) and ast.unparse(n.value.value).endswith("all_types")
                   and any(isinstance(c, ast.Call) and isinstance(c.func, ast.Attribute) and c.func.attr in ("lower", "casefold")
                           for x in astq.expand_locals(n.value.slice, fn) for c in ast.walk(x))]
        ok = bool(stores) and bool(lookups)
        rep.ob(f"{q}: parent looked up case-insensitively in the merged table", ok, "", py.nloc(fn))
        # the lookup happens after USE merging
        use_line = max([n.lineno for n in ast.walk(fn) if isinstance(n, ast.Call) and call_name(n).endswith("all_types.update")] or [0])
        ext_line = min([n.lineno for n in ast.walk(fn) if isinstance(n, (ast.Assign, ast.AnnAssign)) and
                        ast.unparse(n.targets[0] if isinstance(n, ast.Assign) else n.target) == mapname] or [0])
        ok = 0 < use_line < ext_line
        rep.ob(f"{q}: parent types resolved after USE association", ok,
               "an extended type imported by USE is found" if ok else "parent lookup precedes USE merging", py.nloc(fn))


BLOCK_SCOPED_ARMS = ["ATTRIB_RE", "TYPE_RE", "INTERFACE_RE", "ENUM_RE", "VARIABLE_RE"]


def block_counter(cs) -> str:
    """the loop-carried name that counts open BLOCK constructs: the one the BLOCK arm increments"""
    for st in ast.walk(ast.Module(body=cs.arm_by_regex("BLOCK_RE").body, type_ignores=[])):
        if isinstance(st, ast.AugAssign) and isinstance(st.op, ast.Add) and isinstance(st.target, ast.Name):
            return st.target.id
    raise AnalysisError("the BLOCK arm increments no counter")


def _outside_block(text: str, ctr: str) -> bool:
    t = text.replace(" ", "")
    return t in (f"{ctr}==0", f"0=={ctr}", f"not{ctr}", f"{ctr}<1", f"{ctr}<=0", f"not({ctr}!=0)", f"not({ctr}>0)", f"not({ctr})",
                 f"not({ctr}>=1)")


def block_guard_in_test(arm, ctr: str) -> bool:
    """the arm's own test requires that no BLOCK is open (inside a BLOCK the statement falls through to the later arms)"""
    return any(_outside_block(r, ctr) for r in arm.residual)


def block_guard_in_body(cs, arm, ctr: str) -> bool:
    """inside a BLOCK the arm consumes the statement without registering anything: every construction / list update of the
    body runs under a condition that implies that no BLOCK is open"""
    evs = [e for e in astq.trace_block(arm.body, cs.fn) if e.kind == "call" and isinstance(e.node.func, ast.Attribute)
           and e.node.func.attr in ("append", "extend", "update", "setdefault") and ast.unparse(e.node.func.value).startswith("self.")]
    evs += [e for e in astq.trace_block(arm.body, cs.fn) if e.kind == "assign" and (e.target or "").startswith("self.")]
    return bool(evs) and all(any(_outside_block(c, ctr) for c in e.cond_texts()) for e in evs)


def r6_block_scope(ctx, rep):
    """declarations inside a BLOCK construct are local to it: they must not be entered into the
    enclosing procedure's lists (sibling agreement of the `blocklevel == 0` guard)."""
    py, cs = ctx.py, ctx.cascade
    ctr = block_counter(cs)
    for name in BLOCK_SCOPED_ARMS:
        a = cs.arm_by_regex(name)
        ok = block_guard_in_test(a, ctr) or block_guard_in_body(cs, a, ctr)
        rep.ob(f"arm {name} is disabled inside BLOCK constructs", ok,
               f"guarded by {ctr} == 0" if ok else
               f"the {name} arm no longer tests `blocklevel == 0` (its sibling declaration arms do): an entity declared "
               f"inside a BLOCK construct is registered in the enclosing procedure and shadows the host-associated "
               f"entity of the same name there", py.nloc(a.test))
    def steps(arm, op, need_block_test):
        out = []
        for ev in astq.trace_block(arm.body, cs.fn):
            n = ev.node
            if ev.kind == "assign" and isinstance(n, ast.AugAssign) and isinstance(n.target, ast.Name) and n.target.id == ctr \
                    and isinstance(n.op, op) and isinstance(n.value, ast.Constant) and n.value.value == 1:
                if not need_block_test or any("'block'" in c and not c.startswith("not") for c in ev.cond_texts_x(cs.fn)):
                    out.append(ev)
        return out
    b = cs.arm_by_regex("BLOCK_RE")
    ok = ctr in b.writes and bool(steps(b, ast.Add, False))
    rep.ob("BLOCK opens a nesting level", ok, "", py.nloc(b.test))
    e = cs.arm_by_regex("END_RE")
    ok = bool(steps(e, ast.Sub, True))
    rep.ob("END BLOCK closes a nesting level", ok, "", py.nloc(e.test))
    init = [s for s in cs.fn.body if isinstance(s, ast.Assign) and ast.unparse(s.targets[0]) == ctr]
    ok = len(init) == 1 and ast.unparse(init[0].value) == "0"
    rep.ob("nesting level starts at 0", ok, "", py.nloc(init[0]) if init else py.nloc(cs.fn))


def r7_use_is_complete_when_read(ctx, rep):
    """USE association copies the exporter's public tables at the time the importer is correlated:
    the importer must be correlated after every module it uses at any nesting depth (shared with C06.R3)."""
    from . import c06
    c06.r3_dependency_order(ctx, rep)



def r8_tables_not_shrunk(ctx, rep):
    """the scope tables are only ever extended: removing a name that the unit declares (e.g. a dummy procedure matched to
    its interface block) lets the host's entity of the same name show through"""
    py = ctx.py
    n = 0
    for cname, ci in py.classes.items():
        if ci.module != "sourceform":
            continue
        for mname, m in ci.methods.items():
            for x in ast.walk(m):
                hit = None
                if isinstance(x, ast.Call) and isinstance(x.func, ast.Attribute) and x.func.attr in ("pop", "popitem", "clear") and \
                        isinstance(x.func.value, ast.Attribute) and x.func.value.attr in TABLES and ast.unparse(x.func.value.value) == "self":
                    hit = x
                if isinstance(x, ast.Delete) and any(isinstance(t, ast.Subscript) and isinstance(t.value, ast.Attribute)
                                                     and t.value.attr in TABLES and ast.unparse(t.value.value) == "self" for t in x.targets):
                    hit = x
                if hit is not None:
                    n += 1
                    rep.ob(f"{cname}.{mname}: `{ast.unparse(hit)[:50]}`", False,
                           f"`{ast.unparse(hit)[:70]}` removes a name from the unit's own scope table: the entity declared here no longer "
                           f"shadows a host entity of the same name", py.nloc(hit))
    rep.ob("scope tables are never shrunk", n == 0, "no pop/del/clear on self.all_* in the entity classes" if n == 0 else f"{n} site(s)",
           "ford/sourceform.py", nontrivial=False)


def r9_inherited_bindings_are_copies(ctx, rep):
    """a generic binding inherited by an extending type is a copy of the base type's binding with its own list of specific
    bindings: resolving the specifics for the child (child%a => ext_a) must not rewrite the base type's generic"""
    from . import common
    py = ctx.py
    def elem_class(fn, src):
        # the copied object is an element of a `boundprocs` collection -> FortranBoundProcedure
        for x in astq.expand_locals(src, fn):
            for n in ast.walk(fn):
                if isinstance(n, (ast.For, ast.comprehension)) and isinstance(n.target, ast.Name) and ast.unparse(n.target) == ast.unparse(src) \
                        and any(isinstance(a, ast.Attribute) and a.attr == "boundprocs" for a in ast.walk(n.iter)):
                    return "FortranBoundProcedure"
        return None
    n = common.shallow_copy_shares_lists(ctx, rep, elem_class)
    rep.ob("shallow copies of type-bound procedures inspected", True, f"{n} (copy, in-place-mutated list attribute) pair(s)",
           "ford/sourceform.py", nontrivial=False)
    # the copy is the extending type's own binding: its URL, anchor and scope go by `parent`, which the copy takes over from the
    # base type's binding unless it is re-bound - the child's page then links `type/<base>.html#<anchor of the copy>`
    tc = py.func("FortranType.correlate")
    sites = common.shallow_copy_sites(tc)          # nested helper functions included
    if not sites:
        raise AnalysisError("FortranType.correlate: the copies of inherited generic bindings were not found")
    for st, cvar, src in sites:
        owner = py.enclosing_function(st) or tc
        reparented = any(isinstance(a, ast.Assign) and any(
            isinstance(t, ast.Attribute) and t.attr == "parent" and isinstance(t.value, ast.Name) and t.value.id == cvar for t in a.targets)
            and ast.unparse(a.value) == "self" for a in ast.walk(owner))
        if not reparented and owner is not tc:
            # a helper that returns the copy: re-parented by the caller on what the helper returned?
            callers = [a for a in ast.walk(tc) if isinstance(a, ast.Assign) and isinstance(a.value, ast.Call) and call_name(a.value) == owner.name
                       and len(a.targets) == 1 and isinstance(a.targets[0], ast.Name)]
            calls = [c for c in py.walk_calls(tc) if call_name(c) == owner.name]
            reparented = bool(calls) and len(callers) == len(calls) and all(any(
                isinstance(b, ast.Assign) and any(isinstance(t, ast.Attribute) and t.attr == "parent" and isinstance(t.value, ast.Name)
                                                  and t.value.id == a.targets[0].id for t in b.targets) for b in ast.walk(tc)) for a in callers)
        rep.ob(f"FortranType.correlate: the copy `{cvar}` of an inherited binding belongs to the extending type", reparented,
               f"`{cvar}.parent = self`" if reparented else
               f"`{ast.unparse(st)}` keeps the `parent` of the base type's binding: the inherited generic is listed on the extending "
               f"type's page under an anchor of its own, but its URL is built from the base type's page, where no such anchor exists",
               py.nloc(st))

# ------------------------------------------------------------------ scope tables are read by key
def _name_search_helpers(py) -> set:
    """functions that look an entity up by its own name: they iterate their first parameter (directly or through a local
    filtered from it) and compare `<item>.name` with another parameter (or a local derived from one) - `_find_in_list`"""
    out = set()
    for _m, fn in py.all_functions():
        ps = [a.arg for a in fn.args.args]
        if len(ps) < 2:
            continue

        def derived(seeds: set) -> set:
            names = set(seeds)
            for _ in range(3):
                for st in ast.walk(fn):
                    if isinstance(st, ast.Assign) and len(st.targets) == 1 and isinstance(st.targets[0], ast.Name) and \
                            any(isinstance(x, ast.Name) and x.id in names for x in ast.walk(st.value)):
                        names.add(st.targets[0].id)
            return names
        colls, keys = derived({ps[0]}), derived(set(ps[1:]))
        for lp in ast.walk(fn):
            if isinstance(lp, (ast.For, ast.comprehension)) and isinstance(lp.iter, ast.Name) and lp.iter.id in colls and \
                    isinstance(lp.target, ast.Name):
                it = lp.target.id
                for c in ast.walk(fn):
                    if isinstance(c, ast.Compare) and any(
                            isinstance(a, ast.Attribute) and a.attr == "name" and isinstance(a.value, ast.Name) and a.value.id == it
                            for a in ast.walk(c)) and any(isinstance(n, ast.Name) and n.id in keys for n in ast.walk(c)):
                        out.add(fn.name)
    return out


def _values_of_scope_table(e: ast.AST) -> Optional[str]:
    if isinstance(e, ast.Call) and isinstance(e.func, ast.Attribute) and e.func.attr == "values" and \
            isinstance(e.func.value, ast.Attribute) and (e.func.value.attr in TABLES or e.func.value.attr.startswith("pub_")):
        return ast.unparse(e.func.value)
    return None


def _by_name_table_searches(fn: ast.AST, helpers: set):
    """(node, table) for every search of a scope table by the entities' own names inside fn"""
    out = []
    for c in ast.walk(fn):
        if isinstance(c, ast.Call) and call_name(c).split(".")[-1] in helpers and c.args:
            for x in [c.args[0]] + astq.expand_locals(c.args[0], fn):
                t = _values_of_scope_table(x)
                if t:
                    out.append((c, t))
                    break
        if isinstance(c, ast.DictComp) and len(c.generators) == 1 and isinstance(c.generators[0].target, ast.Name):
            # a look-up table re-keyed by the entities' own names: `{v.name.lower(): v for v in <table>.values()}`
            g = c.generators[0]
            keyed_by_name = any(isinstance(a, ast.Attribute) and a.attr == "name" and isinstance(a.value, ast.Name)
                                and a.value.id == g.target.id for a in ast.walk(c.key))
            if keyed_by_name:
                srcs = [g.iter] + astq.expand_locals(g.iter, fn)
                for x in srcs:
                    for y in ast.walk(x):
                        t = _values_of_scope_table(y)
                        if t:
                            out.append((c, t))
                            break
                    else:
                        continue
                    break
        if isinstance(c, (ast.GeneratorExp, ast.ListComp)):
            for g in c.generators:
                t = _values_of_scope_table(g.iter)
                if t and isinstance(g.target, ast.Name) and any(
                        isinstance(k, ast.Compare) and any(isinstance(a, ast.Attribute) and a.attr == "name" and isinstance(a.value, ast.Name)
                                                           and a.value.id == g.target.id for a in ast.walk(k)) for i in g.ifs for k in ast.walk(i)):
                    out.append((c, t))
    return out


_BY_NAME_EXAMPLE = """
def find(collection, name):
    for item in collection:
        if item.name.lower() == name.lower():
            return item
def bad(self, n):
    known = self.parent.all_types.values()
    return find(known, n)
def bad2(self, n):
    return next((t for t in self.parent.all_types.values() if t.name.lower() == n), None)
def good(self, n):
    return self.parent.all_types.get(n)
def bad3(self, n):
    in_scope = list(self.parent.all_vars.values())
    table = {v.name.lower(): v for v in in_scope}
    return table.get(n)
"""


def r10_tables_read_by_key(ctx, rep):
    """The scope tables (`all_procs`, `all_types`, `all_vars`, `all_absinterfaces`, `pub_*`) are keyed by the *local* name under
    which an entity is accessible in that scope - which differs from the entity's own name exactly when it was imported with
    `local => remote`.  Resolving a name by searching the table's values for an entity *called* like that finds the wrong
    entity (or none) for renamed imports, and can find an entity that is not accessible under that name at all.
    (shared with C06.R6)"""
    py = ctx.py

    class _P:
        def __init__(self, tree):
            self.fs = [n for n in tree.body if isinstance(n, ast.FunctionDef)]
        def all_functions(self):
            return [("ex", f) for f in self.fs]
    ex = _P(ast.parse(_BY_NAME_EXAMPLE))
    helpers = _name_search_helpers(ex)
    got = {f.name: len(_by_name_table_searches(f, helpers)) for f in ex.fs}
    if helpers != {"find"} or got != {"find": 0, "bad": 1, "bad2": 1, "good": 0, "bad3": 1}:
        raise AnalysisError(f"tables_read_by_key: the matcher fails on its own example ({helpers}, {got})")
    helpers = _name_search_helpers(py)
    n = 0
    reads = 0
    for mod, fn in py.all_functions():
        if mod not in ("sourceform", "fortran_project"):
            continue
        for c, t in _by_name_table_searches(fn, helpers):
            n += 1
            rep.ob(f"{py.qualname(fn)}: `{t}` is searched by entity name", False,
                   f"`{ast.unparse(c)[:70]}` looks through the *values* of `{t}` for an entity whose own name matches; the table is "
                   f"keyed by the local name, so `use m, only: vec => t` followed by `type(vec)` is no longer resolved and "
                   f"`type(t)` finds an entity that is not visible under that name", py.nloc(c))
        for x in ast.walk(fn):
            if (isinstance(x, ast.Subscript) and isinstance(x.value, ast.Attribute) and x.value.attr in TABLES) or \
                    (isinstance(x, ast.Call) and isinstance(x.func, ast.Attribute) and x.func.attr == "get"
                     and isinstance(x.func.value, ast.Attribute) and x.func.value.attr in TABLES):
                reads += 1
    rep.ob("scope tables are read by key", True, f"{reads} keyed reads of {', '.join(TABLES)}; name-search helpers: {sorted(helpers)}",
           "ford/sourceform.py")
    if reads < 8 or not helpers:
        raise AnalysisError(f"only {reads} keyed reads of the scope tables / helpers {sorted(helpers)} found")


def r11_external_tables_keep_local_names(ctx, rep):
    """use association through an *external* module goes by the local names under which that module exports (shared with
    C06.R5 / C16.R2)"""
    from . import c06
    c06.r5_externalised_tables(ctx, rep)


def r12_inherited_generic_specifics(ctx, rep):
    """An extending type inherits the generic bindings of its parent as copies whose `bindings` already hold the *parent's* specific
    bindings (objects, not names).  For the child they must be resolved again by name against the child's own bindings - an
    overriding `s1` of the child is the one the inherited generic dispatches to.  So the step that replaces an entry of
    `self.bindings` by the type's own binding of that name cannot be restricted to entries that are still strings."""
    py = ctx.py
    fn = py.func("FortranBoundProcedure.correlate")
    ev = astq.trace(fn)
    # tables built from the type's own bindings: {b.name.lower(): b for b in self.parent.boundprocs}
    tables = {t for n in ast.walk(fn) if isinstance(n, ast.Assign) and len(n.targets) == 1 and isinstance(n.targets[0], ast.Name)
              and any(isinstance(a, ast.Attribute) and a.attr == "boundprocs" for a in ast.walk(n.value))
              for t in [n.targets[0].id]}
    def from_own_bindings(v: ast.AST) -> bool:
        # the stored value is looked up in a table made from the type's own bindings - directly or through locals / a walrus
        seen, todo = set(), [v]
        while todo:
            x = todo.pop()
            for n in ast.walk(x):
                if isinstance(n, ast.Attribute) and n.attr == "boundprocs":
                    return True
                if isinstance(n, ast.Name) and n.id not in seen:
                    seen.add(n.id)
                    if n.id in tables:
                        return True
                    todo += [val for _t, val in astq.assignments(fn, n.id) if val is not None]
                    todo += [w.value for w in ast.walk(fn) if isinstance(w, ast.NamedExpr) and w.target.id == n.id]
        return False
    stores = [e for e in ev if e.kind == "assign" and e.target and e.target.startswith("self.bindings[") and e.value is not None
              and from_own_bindings(e.value)]
    if not stores:
        raise AnalysisError("FortranBoundProcedure.correlate: the re-resolution of generic bindings against the type's own bindings was not found")

    def atom(x):
        if isinstance(x, ast.Call) and call_name(x) == "isinstance" and len(x.args) == 2 and ast.unparse(x.args[1]) == "str":
            return ("is_name", True)
        return None
    ok = any(astq.event_fires(e, atom, {"is_name": False}) is not False for e in stores)
    rep.ob("FortranBoundProcedure.correlate: inherited specifics are resolved again by name", ok,
           "entries that are already objects are looked up under their name as well" if ok else
           f"`{stores[0].text()[:60]}` only runs for entries that are still strings ({stores[0].cond_texts()}): a generic inherited from "
           f"the parent type keeps the parent's specific bindings, an overriding binding of the extending type is never reached",
           py.nloc(stores[0].node))


def r13_local_modules_first(ctx, rep):
    """a USE statement names the project's own module before a same-named external / intrinsic one (shared with C16.R3)"""
    from . import c16
    c16.r3_local_precedence(ctx, rep)


def r14_namelist_members_innermost(ctx, rep):
    """A namelist group names variables of the scope it stands in.  Inside a procedure a dummy argument hides a host or module
    variable of the same name, so the table in which the member names are looked up gives the procedure's arguments precedence over
    what the enclosing scope's `all_vars` holds (which has the locals and everything host-associated, but not the dummies)."""
    py = ctx.py
    fn = py.func("FortranNamelist.correlate")
    ev = astq.trace(fn)
    # the table the member names are looked up in
    tables = {ast.unparse(c.func.value) for c in py.walk_calls(fn) if isinstance(c.func, ast.Attribute) and c.func.attr == "get"
              and isinstance(c.func.value, ast.Name)} | \
             {n.value.id for n in ast.walk(fn) if isinstance(n, ast.Subscript) and isinstance(n.value, ast.Name) and isinstance(n.ctx, ast.Load)}
    tables = {t for t in tables if any(v is not None for _t, v in astq.assignments(fn, t))}
    if not tables:
        raise AnalysisError("FortranNamelist.correlate: the table in which member names are looked up was not found")

    def filled(name: str, depth: int = 0) -> List[ast.AST]:
        """what a local mapping is made of, in the order of writing: `t = <mapping>` starts over, `t.update(m)` and `t[k] = v`
        (counted as the loop it stands in) append"""
        seq: List[ast.AST] = []
        for e in ev:
            if e.kind == "assign" and e.target == name and e.value is not None:
                seq = sequence(e.value, depth)
            elif e.kind == "call" and isinstance(e.node.func, ast.Attribute) and e.node.func.attr == "update" and \
                    ast.unparse(e.node.func.value) == name and e.node.args:
                seq += sequence(e.node.args[0], depth)
            elif e.kind == "assign" and e.target and e.target.startswith(name + "["):
                loop = e.loops[-1] if e.loops else None
                seq.append(loop.iter if isinstance(loop, ast.For) else e.value)
        return seq

    def sequence(v: ast.AST, depth: int = 0) -> List[ast.AST]:
        """sources of a mapping expression in the order in which they are written (a later one overwrites an earlier one)"""
        if depth > 4:
            return [v]
        if isinstance(v, ast.Dict):
            out = []
            for k, x in zip(v.keys, v.values):
                out += sequence(x, depth + 1) if k is None else []
            return out
        if isinstance(v, ast.Call) and call_name(v).split(".")[-1] == "ChainMap":
            out = []
            for a in reversed(v.args):          # the first mapping of a ChainMap wins
                out += sequence(a, depth + 1)
            return out
        if isinstance(v, ast.Call) and call_name(v) in ("dict", "OrderedDict") and v.args:
            return sequence(v.args[0], depth + 1)
        if isinstance(v, ast.Call) and call_name(v) in ("dict", "OrderedDict") and not v.args:
            return []
        if isinstance(v, ast.Call) and isinstance(v.func, ast.Attribute) and v.func.attr == "copy":
            return sequence(v.func.value, depth + 1)
        if isinstance(v, ast.BinOp) and isinstance(v.op, ast.BitOr):
            return sequence(v.left, depth + 1) + sequence(v.right, depth + 1)
        if isinstance(v, ast.Name) and v.id not in tables:
            inner = filled(v.id, depth + 1)
            if inner or any(val is not None for _t, val in astq.assignments(fn, v.id)):
                return inner
        return [v]
    for t in sorted(tables):
        seq = filled(t)
        texts = [ast.unparse(x) for x in seq]
        i_args = max([i for i, x in enumerate(texts) if re.search(r"\.args\b", x)], default=None)
        i_host = max([i for i, x in enumerate(texts) if "all_vars" in x], default=None)
        if i_args is None or i_host is None:
            raise AnalysisError(f"FortranNamelist.correlate: sources of `{t}` not understood ({texts})")
        ok = i_args > i_host
        rep.ob(f"FortranNamelist.correlate: dummy arguments take precedence in `{t}`", ok,
               "the procedure's arguments are written last (or come first in a ChainMap)" if ok else
               f"`{t}` is filled from {texts} in this order of precedence: a variable of the host scope replaces a dummy argument of the "
               f"same name - `namelist /cfg/ tol` inside `subroutine read(tol)` documents the module's `tol`", py.nloc(fn))


def r15_inheritance_is_transitive(ctx, rep):
    """A type inherits what its parent *has* - the parent's own members and those the parent inherited in turn.  FortranType.correlate
    keeps two lists: the accumulated one (`self.variables = inherited + self.variables`) and a snapshot of the type's own
    declarations taken before (`self.local_variables = self.variables`).  What is read from the parent (`self.extends`) for
    inheriting must be the accumulated list; reading the snapshot cuts the chain after one level - a grandchild does not know the
    grandparent's components, `obj%comp(i)` is no longer recognised as a variable and is recorded as a call."""
    py = ctx.py
    fn = py.func("FortranType.correlate")
    snapshots, accumulated = set(), set()
    for a in ast.walk(fn):
        if isinstance(a, ast.Assign) and len(a.targets) == 1 and isinstance(a.targets[0], ast.Attribute) and ast.unparse(a.targets[0].value) == "self":
            t = a.targets[0].attr
            if isinstance(a.value, ast.Attribute) and ast.unparse(a.value.value) == "self" and a.value.attr != t:
                snapshots.add(t)
            elif any(isinstance(x, ast.Attribute) and x.attr == t and ast.unparse(x.value) == "self" for x in ast.walk(a.value)) and \
                    isinstance(a.value, ast.BinOp):
                accumulated.add(t)
    if not snapshots or not accumulated:
        raise AnalysisError(f"FortranType.correlate: snapshot / accumulated member lists not found ({sorted(snapshots)}, {sorted(accumulated)})")
    n = 0
    for x in ast.walk(fn):
        attr = None
        if isinstance(x, ast.Attribute) and ast.unparse(x.value) == "self.extends":
            attr = x.attr
        elif isinstance(x, ast.Call) and call_name(x) == "getattr" and len(x.args) >= 2 and ast.unparse(x.args[0]) == "self.extends" and \
                isinstance(x.args[1], ast.Constant):
            attr = x.args[1].value
        if attr is None or attr not in snapshots | accumulated:
            continue
        n += 1
        ok = attr in accumulated
        rep.ob(f"FortranType.correlate: inherits from the parent's `{attr}`", ok,
               "the parent's accumulated list (its own members and what it inherited)" if ok else
               f"`self.extends.{attr}` is the parent's snapshot of its *own* declarations: members the parent inherited itself are not "
               f"passed on, so a type two levels down loses the grandparent's components", py.nloc(x))
    if n == 0:
        raise AnalysisError("FortranType.correlate: no read of the parent's member lists found")


def r16_every_use_statement_applied(ctx, rep):
    """every recorded USE statement is applied in every kind of scope (shared with C06.R9)"""
    from . import c06
    c06.r9_every_use_statement_applied(ctx, rep)


RULES = [
    RuleSpec("C07.R6", r6_block_scope, "block-local declarations stay out of the enclosing scope", floor=4),
    RuleSpec("C07.R7", r7_use_is_complete_when_read, "importers are correlated after their exporters (shared with C06.R3)", floor=5),
    RuleSpec("C07.R1", r1_alias_mutation, "a host's table is never mutated through an alias", floor=4),
    RuleSpec("C07.R2", r2_innermost_wins, "innermost declaration wins (write order per table)", floor=4),
    RuleSpec("C07.R3", r3_lower_keys, "case-insensitive keys", floor=16),
    RuleSpec("C07.R4", r4_no_project_fallback, "no project-wide fallback in correlate", floor=8),
    RuleSpec("C07.R5", r5_type_extension_order, "type extension order", floor=3),
    RuleSpec("C07.R9", r9_inherited_bindings_are_copies, "inherited generic bindings do not share their binding list with the base type", floor=1),
    RuleSpec("C07.R8", r8_tables_not_shrunk, "scope tables are only extended", floor=1),
    RuleSpec("C07.R10", r10_tables_read_by_key, "scope tables are read by key, never searched by entity name", floor=1),
    RuleSpec("C07.R12", r12_inherited_generic_specifics, "the specifics of an inherited generic are resolved in the extending type", floor=1),
    RuleSpec("C07.R13", r13_local_modules_first, "USE association prefers the project's own module (shared with C16.R3)", floor=1),
    RuleSpec("C07.R11", r11_external_tables_keep_local_names, "external modules export under their local names (shared with C06.R5)", floor=2),
    RuleSpec("C07.R14", r14_namelist_members_innermost, "namelist members: a dummy argument hides a host variable of the same name", floor=1),
    RuleSpec("C07.R15", r15_inheritance_is_transitive, "a type inherits the accumulated members of its parent", floor=1),
    RuleSpec("C07.R16", r16_every_use_statement_applied, "every recorded USE statement is applied in every kind of scope (shared with C06.R9)", floor=1),
]
