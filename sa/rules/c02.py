"""C02 — statement and doc extraction depends only on Fortran lexical rules (structural clauses)."""
from __future__ import annotations

import ast
import re
from typing import Dict, List, Optional, Set, Tuple

from ..core import AnalysisError, RuleSpec
from ..pymodel import call_name
from ..specs import lexical
from .. import fsmx
from .. import astq

EXPLANATION = (
    "Exact regular-language reasoning (E2: derivative-based engine over the regex constants, parsed "
    "with re._parser, never matched) and finite-state extraction (E4) for the lexical mechanisms. "
    "R1: the prefix group of COM_RE and of every _compile_docmark(m) equals the language 'no ! outside "
    "complete character literals', the split is unique (prefix AND prefix.!.anything is empty, so group 4 "
    "can only start at the first ! outside literals whatever the backtracking order), and the doc "
    "variants differ from COM_RE only by the escaped marker. R2: QUOTES_RE equals the standard's "
    "char-literal-constant language. R3: _contains_unterminated_string and quote_split are turned into "
    "finite automata by abstract interpretation of their loop bodies and compared, by exhaustive product "
    "exploration (all string lengths), with the reference 'inside a literal' automaton. R4: the literal "
    "masking loop dominates the dispatch chain and lower-casing happens after masking. R5: continuation "
    "joining removes exactly the one leading/trailing '&'. The flag logic of FortranReader.__next__ "
    "(doc buffering order, pending buffers) is not decided."
    " R5 is decided on the condition-annotated event trace of FortranReader.__next__ (what is assigned to the piece on the paths 'starts with & and continued' / 'ends with &'; a comment line inside an open literal is skipped). R6 (shared with C20.R4): the masking loops advance past the placeholder."
    " Added after waves 6/7 - source text used as a regex replacement template has its backslashes doubled (no re.error / altered literal)."
)
ASSUMPTIONS = ["alphabet: printable ASCII + tab + one non-ASCII letter; statements contain no newline",
               "docmark instantiations: the four defaults, a two-character marker, markers with regex metacharacters"]

DOCMARKS = ["!", ">", "*", "|", "!!", "d:", "(", ".", "<<"]


def r1_comment_recogniser(ctx, rep):
    py, rx = ctx.py, ctx.rx
    pat, flags, node, _ = ctx.regexes["FortranReader.COM_RE"]
    try:
        gnum, _gname = rx.group_starting_with(pat, flags, "!")       # the comment group, whatever its number or name
        P, _tail = rx.split_at_group(pat, flags, gnum)
    except rx.Unsupported as e:
        raise AnalysisError(f"COM_RE: the comment is no longer captured by a top-level group ({e}): {pat}")
    R = rx.full(lexical.CODE_PREFIX, 0)
    w = rx.equiv_witness(P, R)
    rep.ob("COM_RE prefix == code-without-comment language", w is None,
           f"equivalent ({rx.witness.last_states} derivative states explored)" if w is None else
           f"`{w}` distinguishes the prefix group of COM_RE from 'no ! outside complete literals'", py.nloc(node), witness=w)
    bang = rx.lit("!")
    w = rx.disjoint_witness(P, rx.cats(P, bang, rx.ANYSTAR))
    rep.ob("COM_RE split uniqueness", w is None,
           "prefix AND prefix.!.anything is empty: the comment can only start at the first ! outside literals" if w is None else
           f"`{w}` can be split at two different `!`", py.nloc(node), witness=w)
    full = rx.full(pat, flags)
    want = rx.cats(R, bang, rx.ANYSTAR)
    w = rx.equiv_witness(full, want)
    rep.ob("COM_RE == prefix . ! . anything", w is None, "" if w is None else f"witness `{w}`", py.nloc(node), witness=w)
    # doc-mark variants
    fn = py.func("reader._compile_docmark")
    call = [c for c in py.walk_calls(fn) if call_name(c) == "re.compile"]
    if not call:
        raise AnalysisError("_compile_docmark: re.compile not found")
    param = fn.args.args[0].arg
    fl = py.eval_flags(call[0].args[1] if len(call[0].args) > 1 else None)
    for mk in DOCMARKS:
        p = None
        for cand in [call[0].args[0]] + astq.expand_locals(call[0].args[0], fn):      # the pattern may be built in a local first
            p = py.eval_str(cand, {**py.module_env("reader"), param: mk})
            if p is not None:
                break
        if p is None:
            raise AnalysisError("_compile_docmark: the pattern is not a constant expression of the marker")
        try:
            L = rx.full(p, fl or 0)
        except rx.Unsupported as e:
            rep.ob(f"docmark {mk!r} pattern", False, f"pattern {p!r} is not a valid/understood regex: {e}", py.nloc(call[0]))
            continue
        want = rx.cats(R, bang, rx.lit(mk), rx.ANYSTAR)
        w = rx.equiv_witness(L, want)
        rep.ob(f"docmark {mk!r}: pattern == prefix . !{mk} . anything", w is None,
               "the doc-comment recogniser differs from COM_RE only by the literal marker" if w is None else
               f"`{w}` is classified differently from the Fortran comment rule with marker {mk!r} "
               f"(pattern {p!r})", py.nloc(call[0]), witness=w)
    # _match_docmark never matches inside an open literal
    md = py.func("reader._match_docmark")
    mev = astq.trace(md)
    params = [a.arg for a in md.args.args]
    if len(params) < 3:
        raise AnalysisError("_match_docmark: expected (pattern, line, open-literal flag)")
    line_p, quote_p = params[1], params[2]
    def inside(e) -> bool:       # the event runs on a path on which the line starts inside an open literal
        return any(c == quote_p or c.startswith(quote_p + " ") for c in e.cond_texts())
    def outside(e) -> bool:
        return any(c == f"not ({quote_p})" for c in e.cond_texts())
    matches = [e for e in mev if e.kind == "call" and isinstance(e.node.func, ast.Attribute) and e.node.func.attr in ("match", "search", "fullmatch")]
    if not matches:
        raise AnalysisError("_match_docmark: no regex match call found")
    raw_inside = [e for e in matches if not outside(e) and e.node.args and ast.unparse(e.node.args[0]) == line_p and
                  not any(ev.kind == "assign" and ev.target == line_p and inside(ev) for ev in mev)]
    rep.ob("_match_docmark never searches the text of an open literal for comments", not raw_inside,
           "inside a literal continued from the previous line, the raw line is not handed to the comment regex" if not raw_inside else
           f"`{raw_inside[0].text()}` is applied to the raw line although it starts inside a character literal: a `!` in the "
           f"literal is taken for a comment", py.nloc(md))
    searched = [e for e in matches if not outside(e)]
    rep.ob("comments after the end of a continued literal are recognised", bool(searched),
           "the rest of the line after the closing quote is searched" if searched else
           f"while `{quote_p}` holds _match_docmark returns None for the whole line: on the line that closes a continued literal a "
           f"trailing comment stays in the statement (and is scanned as code), and an inline doc comment is lost", py.nloc(md),
           nontrivial=not searched)


def r2_literal_recogniser(ctx, rep):
    py, rx = ctx.py, ctx.rx
    pat, flags, node, _ = ctx.regexes["sourceform.QUOTES_RE"]
    w = rx.equiv_witness(rx.full(pat, flags), rx.full(lexical.CHAR_LITERAL, 0))
    rep.ob("QUOTES_RE == char-literal-constant", w is None,
           "both delimiters, doubled delimiter inside" if w is None else f"`{w}` distinguishes them", py.nloc(node), witness=w)
    # a literal cannot be matched inside another kind's literal start: leftmost match begins at the
    # first quote character (no quote-free prefix can be a match)
    w = rx.disjoint_witness(rx.full(pat, flags), rx.full(r"[^\"']+.*", 0))
    rep.ob("QUOTES_RE matches start at a quote character", w is None, "", py.nloc(node), witness=w)


def open_literal_scanner(py):
    """(function, call in FortranReader.__next__): the scanner whose answer on the joined buffer tells the reader that the next
    line starts inside a character literal - found by role: its result is what the comment matchers receive as their
    open-literal argument.  One-line wrappers (`return bool(f(x))`) are followed to the function that has the loop."""
    nx = py.func("FortranReader.__next__")
    md = py.func("reader._match_docmark")
    flag_args = {ast.unparse(c.args[2]) for c in py.walk_calls(nx) if call_name(c).split(".")[-1] == md.name and len(c.args) >= 3}
    if len(flag_args) != 1:
        raise AnalysisError(f"FortranReader.__next__: the open-literal argument of the comment matchers is not a single name ({sorted(flag_args)})")
    flag = flag_args.pop()
    calls = [v for _t, v in astq.assignments(nx, flag) if isinstance(v, ast.Call)]
    if not calls:
        raise AnalysisError(f"FortranReader.__next__: `{flag}` is not assigned from a scanner call")
    call = calls[0]
    name = call_name(call).split(".")[-1]
    for _ in range(3):
        if not py.has_func(f"reader.{name}"):
            raise AnalysisError(f"scanner `{name}` not found in reader.py")
        fn = py.func(f"reader.{name}")
        body = [st for st in fn.body if not (isinstance(st, ast.Expr) and isinstance(st.value, ast.Constant))]
        if len(body) == 1 and isinstance(body[0], ast.Return):
            inner = [c for c in ast.walk(body[0].value) if isinstance(c, ast.Call) and py.has_func(f"reader.{call_name(c).split('.')[-1]}")]
            if len(inner) == 1:
                name = call_name(inner[0]).split(".")[-1]
                continue
        return fn, call
    raise AnalysisError("open-literal scanner: wrapper chain too long")


def r3_scanners(ctx, rep):
    py = ctx.py
    fn, scan_call = open_literal_scanner(py)
    impl = fsmx.extract_unterminated(fn, py.module_env(py.module_of(fn)))
    w, n = fsmx.compare_acceptors(impl, fsmx.ref_unterminated())
    rep.ob("open-literal scanner == 'ends inside a literal'", w is None,
           f"equivalent for strings of every length ({n} product states)" if w is None else
           f"after reading `{w}` the function answers {impl_answer(impl, w)} "
           f"but the string {'is' if fsmx_ref_in(w or '') else 'is not'} inside a literal ({n} product states explored): "
           f"comment stripping and doc recognition are switched off (or left on) for the next continued line",
           py.nloc(fn), witness=w)
    fq = py.func("utils.quote_split")
    impl2 = fsmx.extract_quote_split(fq, py.module_env(py.module_of(fq)))
    w, n = fsmx.compare_quote_split(impl2)
    rep.ob("quote_split splits exactly at separators outside literals", w is None,
           f"equivalent for strings of every length ({n} product configurations)" if w is None else
           f"on `{w}` (S = separator, x = other character) the split decision differs from the reference", py.nloc(fq), witness=w)
    # the reader uses them as intended
    nx = py.func("FortranReader.__next__")
    t = ast.unparse(nx)
    qs = [c for c in py.walk_calls(nx) if call_name(c).endswith("quote_split") and len(c.args) >= 2 and ast.unparse(c.args[0]) == "';'"]
    ok = bool(qs) and bool(scan_call.args) and ast.unparse(scan_call.args[0]) == ast.unparse(qs[0].args[1])
    rep.ob("reader uses the scanners on the joined buffer", ok, "", py.nloc(nx))


def impl_answer(impl, w) -> bool:
    s, step, acc, _ = impl
    for c in (w or ""):
        s = step(s, c)
    return acc(s)


def fsmx_ref_in(w: str) -> bool:
    s0, step, acc = fsmx.ref_unterminated()
    s = s0
    for c in w:
        s = step(s, c)
    return acc(s)


def _pre_aliases(cs, base: str) -> Set[str]:
    """names that stand for `base` (a local name or `self.<attr>`) in the loop prologue: assigned to it or from it, also
    position-wise through tuple assignments (`line, self.strings = text, strings`)"""
    names = {base}
    for _ in range(3):
        for st in cs.pre:
            for a in ast.walk(st):
                if not isinstance(a, (ast.Assign, ast.AnnAssign)) or getattr(a, "value", None) is None:
                    continue
                tgts = a.targets if isinstance(a, ast.Assign) else [a.target]
                for t in tgts:
                    pairs = list(zip(t.elts, a.value.elts)) if isinstance(t, ast.Tuple) and isinstance(a.value, ast.Tuple) and \
                        len(t.elts) == len(a.value.elts) else [(t, a.value)]
                    for tt, vv in pairs:
                        tn, vn = ast.unparse(tt), ast.unparse(vv)
                        if isinstance(vv, (ast.Name, ast.Attribute)) and isinstance(tt, (ast.Name, ast.Attribute)):
                            if tn in names:
                                names.add(vn)
                            if vn in names:
                                names.add(tn)
    return names


def r4_masking(ctx, rep):
    """Structure of the per-statement prologue of the dispatch loop on the canonical (helper-inlined) form, by role: the
    literal table is self.strings or a local that is assigned to it; the masking loop is the `while` that appends to the table;
    the case-folded copy is the local assigned from <statement>.lower()."""
    py, cs = ctx.py, ctx.cascade
    LV, LO = cs.line_var, cs.lower_var
    TABLE = _pre_aliases(cs, "self.strings")
    TEXT = _pre_aliases(cs, LV)
    def appends_strings(n):
        return isinstance(n, ast.Call) and isinstance(n.func, ast.Attribute) and n.func.attr == "append" and \
            ast.unparse(n.func.value) in TABLE
    mask_i = next((i for i, st in enumerate(cs.pre) if isinstance(st, ast.While) and any(appends_strings(n) for n in ast.walk(st))), None)
    low_i = next((i for i, st in enumerate(cs.pre) if isinstance(st, ast.Assign) and any(isinstance(t, ast.Name) and t.id == LO
                                                                                           for t in st.targets)), None)
    if mask_i is None or low_i is None:
        raise AnalysisError("masking loop or the case-folded copy of the statement not found before the dispatch chain")
    ok = mask_i < low_i
    rep.ob("lower-casing happens after literal masking", ok,
           "line_lower / the `lower` option are applied to the masked statement, literal text keeps its case" if ok else
           "`line.lower()` is computed before character literals are masked: with the `lower` option the "
           "content of literals (initial values, bind names) is lower-cased", py.nloc(cs.pre[low_i]))
    for i, st in enumerate(cs.pre):
        if isinstance(st, ast.If) and any(isinstance(n, ast.Attribute) and n.attr == "lower" and "settings" in ast.unparse(n.value)
                                          for n in ast.walk(st.test)):
            ok2 = i > mask_i
            rep.ob("`lower` option applied after masking", ok2, "", py.nloc(st))
    w = cs.pre[mask_i]
    stores = [n for n in ast.walk(w) if appends_strings(n) and n.args and isinstance(n.args[0], ast.Call)
              and isinstance(n.args[0].func, ast.Attribute) and n.args[0].func.attr == "group"]
    def indexed(e: ast.AST) -> bool:
        """a quoted index into the table: an f-string / format that interpolates len(<table>)"""
        for x in astq.expand_locals(e, cs.fn):
            for c in ast.walk(x):
                if isinstance(c, ast.Call) and call_name(c) == "len" and c.args and ast.unparse(c.args[0]) in TABLE:
                    return True
        return False
    def replaces_one(a: ast.Assign) -> bool:
        subs_ = [n for n in ast.walk(a.value) if isinstance(n, ast.Call) and isinstance(n.func, ast.Attribute) and n.func.attr == "sub"]
        if subs_:
            return all(any(k.arg == "count" and isinstance(k.value, ast.Constant) and k.value.value == 1 for k in n.keywords) or
                       (len(n.args) >= 3 and isinstance(n.args[2], ast.Constant) and n.args[2].value == 1) for n in subs_)
        # spliced in by position: text[:m.start()] + placeholder + text[m.end():]
        return any(isinstance(n, ast.Call) and isinstance(n.func, ast.Attribute) and n.func.attr in ("start", "end", "span")
                   for n in ast.walk(a.value))
    subs = [st for st in ast.walk(w) if isinstance(st, ast.Assign) and any(ast.unparse(t) in TEXT for t in st.targets)
            and indexed(st.value) and replaces_one(st)]
    ok = bool(stores) and bool(subs)
    rep.ob("masking replaces each literal by its index placeholder", ok,
           'literal k is stored in the table and one occurrence is replaced by "k"' if ok else
           "the masking loop does not store the matched literal and substitute exactly one occurrence by its index", py.nloc(w))
    # nothing between masking and the chain re-reads the unmasked text: the statement variables are only re-assigned
    # from each other (and from the table hand-over of an inlined helper)
    between = cs.pre[mask_i + 1:]
    allowed = TEXT | TABLE | {LO, "self"}
    bad = [st for st in between for a in ast.walk(st) if isinstance(a, ast.Assign)
           and any(isinstance(t, ast.Name) and t.id in (LV, LO) for tg in a.targets for t in ast.walk(tg))
           and not {n.id for n in ast.walk(a.value) if isinstance(n, ast.Name)} <= {x.split(".")[0] for x in allowed}]
    rep.ob("nothing re-reads the unmasked text before dispatch", not bad,
           f"{len(between)} statements between masking and the chain; the statement is only re-assigned from itself" if not bad else
           f"`{ast.unparse(bad[0])[:70]}` rebuilds the statement from something else than its masked text", py.nloc(cs.loop))
    rs = [i for i, st in enumerate(cs.pre) if isinstance(st, (ast.Assign, ast.AnnAssign)) and getattr(st, "value", None) is not None
          and any(ast.unparse(t) in TABLE for t in (st.targets if isinstance(st, ast.Assign) else [st.target]))
          and isinstance(st.value, ast.List) and not st.value.elts]
    rep.ob("literal table reset per statement", len(rs) >= 1 and rs[0] < mask_i,
           "the table is emptied at the top of each iteration", py.nloc(cs.loop))


def r5_continuation(ctx, rep):
    """Decided on the condition-annotated event trace of FortranReader.__next__: what is assigned to the piece being
    joined on the path 'starts with & and the previous piece was continued' and on the path 'ends with &'."""
    py = ctx.py
    fn = py.func("FortranReader.__next__")
    ev = astq.trace(fn)
    V = "line"

    def pos_tests(e):
        return [t for t, pol, _ in e.conds if pol]

    def neg_tests(e):
        return [t for t, pol, _ in e.conds if not pol]

    def lead(t):
        return astq.tests_first_char(t, V, "&")

    def trail(t):
        return astq.tests_last_char(t, V, "&")

    def only(t, name):
        return isinstance(t, ast.Name) and t.id == name

    def is_slice(v: ast.AST, lo, hi) -> bool:
        """v is line[lo:hi] (None = open end; 0 and None are the same lower bound)"""
        if not (isinstance(v, ast.Subscript) and isinstance(v.value, ast.Name) and v.value.id == V and isinstance(v.slice, ast.Slice)):
            return False
        lower = None if v.slice.lower is None else ast.literal_eval(v.slice.lower) if isinstance(v.slice.lower, (ast.Constant, ast.UnaryOp)) else "?"
        upper = None if v.slice.upper is None else ast.literal_eval(v.slice.upper) if isinstance(v.slice.upper, (ast.Constant, ast.UnaryOp)) else "?"
        return (lower or None) == (lo or None) and upper == hi and v.slice.step is None

    # --- leading &.  Path conditions are evaluated propositionally (atoms: the line starts with &, the previous piece was
    # continued, anything else is a free proposition), so nested ifs, inverted tests with early exits and hoisted flags are
    # the same thing
    def atom(t):
        if isinstance(t, ast.Name) and t.id == "continued":
            return ("continued", True)
        if lead(t) and isinstance(t, (ast.Compare, ast.Call)):
            return ("lead", True)
        if isinstance(t, ast.Compare) and len(t.ops) == 1 and isinstance(t.ops[0], ast.NotEq):
            eq = ast.Compare(left=t.left, ops=[ast.Eq()], comparators=t.comparators)
            if lead(eq):
                return ("lead", False)
        return None
    strips_lead = lambda v: is_slice(v, 1, None) or (isinstance(v, ast.Call) and call_name(v) == f"{V}.removeprefix"      # noqa: E731
                                                     and [ast.unparse(a_) for a_ in v.args] == ["'&'"])
    on_lead = [e for e in ev if e.kind == "assign" and e.target == V and e.value is not None
               and astq.path_implies(e, atom, {"lead": True}) is True]
    le = [e for e in on_lead if astq.path_implies(e, atom, {"lead": True, "continued": True}) is True]
    if not le:
        raise AnalysisError("reader: no assignment to the piece on the path 'starts with & and continued'")
    ok = all(strips_lead(e.value) for e in le)
    bad_e = next((e for e in le if not strips_lead(e.value)), le[0])
    rep.ob("leading & : exactly that one character is removed", ok,
           "the continued text is appended verbatim after the leading &" if ok else
           f"`line = {ast.unparse(bad_e.value)}`: more than the leading & is removed, so a "
           f"character literal continued as `'abc&` / `& def'` loses the blanks after the &", py.nloc(bad_e.node))

    def not_leads(e):
        return astq.path_implies(e, atom, {"lead": False}) is True
    err = [e for e in ev if e.kind == "raise" and astq.path_implies(e, atom, {"lead": True, "continued": False}) is True]
    rep.ob("a leading & without a continued line is an error", bool(err), "", py.nloc(err[0].node) if err else py.nloc(fn))
    nb = [e for e in ev if e.kind == "assign" and e.target == "linebuffer" and not_leads(e)]
    ok = bool(nb) and isinstance(nb[0].value, ast.BinOp) and isinstance(nb[0].value.op, ast.Add) and \
        ast.unparse(nb[0].value.left) in ("linebuffer.strip()", "linebuffer.rstrip()") and ast.unparse(nb[0].value.right) == "' '"
    rep.ob("no leading & : pieces are joined with a single blank", ok, "", py.nloc(nb[0].node) if nb else py.nloc(fn))
    # --- trailing &
    flag_from_test = [e for e in ev if e.kind == "assign" and e.target == "continued" and e.value is not None and trail(e.value)]
    te = [e for e in ev if e.kind == "assign" and e.target == V and (any(trail(t) for t in pos_tests(e)) or
                                                                    (flag_from_test and any(only(t, "continued") for t in pos_tests(e))
                                                                     and not any(lead(t) for t in pos_tests(e))))]
    te = [e for e in te if e not in le]
    sets_true = flag_from_test or [e for e in ev if e.kind == "assign" and e.target == "continued" and any(trail(t) for t in pos_tests(e))
                                   and ast.unparse(e.value) == "True"]
    sets_false = flag_from_test or [e for e in ev if e.kind == "assign" and e.target == "continued" and any(trail(t) for t in neg_tests(e))
                                    and ast.unparse(e.value) == "False"]
    ok = len(te) == 1 and (is_slice(te[0].value, None, -1) or (isinstance(te[0].value, ast.Call) and call_name(te[0].value) == f"{V}.removesuffix")) \
        and bool(sets_true) and bool(sets_false)
    rep.ob("trailing & : exactly that one character is removed", ok,
           "" if ok else f"trailing-& handling: piece assignments {[ast.unparse(e.node) for e in te]}, continued set on both paths: "
           f"{bool(sets_true) and bool(sets_false)}", py.nloc(te[0].node) if te else py.nloc(fn))
    # --- `;` splitting
    ext = [c for c in py.walk_calls(fn) if isinstance(c.func, ast.Attribute) and c.func.attr == "extend" and ast.unparse(c.func.value) == "self.pending"]
    ok = False
    for c in ext:
        for n in ast.walk(c):
            if isinstance(n, (ast.ListComp, ast.GeneratorExp)) and len(n.generators) == 1:
                g = n.generators[0]
                strips = isinstance(n.elt, ast.Call) and isinstance(n.elt.func, ast.Attribute) and n.elt.func.attr == "strip"
                nonempty = any(ast.unparse(i) in (f"len({ast.unparse(g.target)}) > 0", ast.unparse(g.target), f"len({ast.unparse(g.target)})",
                                                  f"{ast.unparse(g.target)} != ''") for i in g.ifs)
                src = [x for x in astq.expand_locals(g.iter, fn)]
                split = any(isinstance(q, ast.Call) and call_name(q).endswith("quote_split") and q.args and ast.unparse(q.args[0]) == "';'"
                            for x in src for q in ast.walk(x))
                ok = ok or (strips and nonempty and split)
    rep.ob("`;` fragments are stripped and empty ones dropped", ok, "", py.nloc(fn))
    # a line that starts with ! while a literal is open is a comment line (literal text continues at a line starting with &)
    # (the open-literal flag is found by role: what the comment matchers receive as their open-literal argument)
    md = py.func("reader._match_docmark")
    flags = {ast.unparse(c.args[2]) for c in py.walk_calls(fn) if call_name(c).split(".")[-1] == md.name and len(c.args) >= 3}
    scanners = {call_name(v).split(".")[-1] for f_ in flags for _t, v in astq.assignments(fn, f_) if isinstance(v, ast.Call)}

    def skip_atom(x):
        if isinstance(x, ast.Name) and x.id in flags:
            return ("open", True)
        if isinstance(x, ast.Call) and call_name(x).split(".")[-1] in scanners:
            return ("open", True)
        if isinstance(x, (ast.Compare, ast.Call)) and (astq.tests_first_char(x, V, "!") or re.search(
                r"\.(l?strip)\(\)(\[:1\]|\[0\]) == '!'|\.l?strip\(\)\.startswith\('!'\)", ast.unparse(x))):
            return ("bang", not (isinstance(x, ast.Compare) and isinstance(x.ops[0], ast.NotEq)))
        return None
    skips = [e for e in ev if e.kind == "jump" and isinstance(e.node, ast.Continue) and
             astq.path_implies(e, skip_atom, {"open": True, "bang": True}) is True]
    rep.ob("comment lines between the lines of a continued literal are skipped", bool(skips),
           "a line starting with ! inside an open literal is dropped before it can be taken for code" if skips else
           "while a literal is open, comment recognition is off and nothing skips a line that starts with `!`: a comment line "
           "between `'abc&` and `&def'` is taken for code and the file is rejected", py.nloc(fn))
    acc = [e for e in ev if e.kind == "assign" and e.target == "linebuffer" and isinstance(e.node, ast.AugAssign) and ast.unparse(e.value) == V]
    acc += [e for e in ev if e.kind == "assign" and e.target == "linebuffer" and ast.unparse(e.value) in (f"linebuffer + {V}",)]
    rep.ob("pieces accumulate in linebuffer", bool(acc), "", py.nloc(fn), nontrivial=False)


def r6_masking_cursor(ctx, rep):
    from . import c20
    c20.r4_cursor_progress(ctx, rep)



def r7_no_transform_after_restore(ctx, rep):
    """literal text is preserved verbatim: nothing rewrites a value after the masked literals were put back
    (shared with C18.R2)"""
    from . import c18
    c18.r2_no_transform_after_restore(ctx, rep)


def r8_include_lines(ctx, rep):
    """an INCLUDE line is the keyword followed by a character literal; a statement that merely begins with the word
    (`include = 3`, `include_flag = .true.` after a blank) is an ordinary statement.  The recogniser of
    FortranReader.include is read from the code (a startswith constant or a regular expression on the lower-cased pending
    line) and compared as a language with the reference"""
    py, rx = ctx.py, ctx.rx
    fn = py.func("FortranReader.include")
    rec = None
    node = fn
    for c in py.walk_calls(fn):
        if isinstance(c.func, ast.Attribute) and c.func.attr == "startswith" and c.args and isinstance(c.args[0], ast.Constant) \
                and isinstance(c.args[0].value, str) and "include" in c.args[0].value.lower():
            rec = rx.cat(rx.full(re.escape(c.args[0].value), re.IGNORECASE), rx.ANYSTAR)
            node = c
        elif isinstance(c.func, ast.Attribute) and c.func.attr in ("match", "fullmatch", "search"):
            owner = ast.unparse(c.func.value).split(".")[-1]
            for k, (pat, flags, _n, _o) in ctx.regexes.items():
                if k.split(".")[-1] == owner and "include" in pat.lower():
                    rec = {"match": rx.match_lang, "fullmatch": rx.full, "search": rx.search_lang}[c.func.attr](pat, flags)
                    node = c
    if rec is None:
        raise AnalysisError("FortranReader.include: the test that recognises an INCLUDE line was not found")
    # no other Fortran statement begins with the keyword directly followed by a quote, so anything between the outer quotes
    # is accepted
    ref = rx.full(r"include\s*(?:'.*'|\".*\")\s*", re.IGNORECASE)
    w = rx.witness(rx.conj(rec, rx.neg(ref), rx.full(r"[a-z =0-9'\"_.]*", re.IGNORECASE)))
    rep.ob("only `include <character literal>` is taken for an INCLUDE line", w is None,
           "the recogniser requires the quoted file name" if w is None else
           f"`{w}` is taken for an INCLUDE line: an assignment to a variable named `include` makes FORD look for a file of that "
           f"name and reject the whole source file", py.nloc(node), witness=w)
    w2 = rx.subset_witness(rx.full(r"include '[a-z.]+'", re.IGNORECASE), rec)
    rep.ob("`include 'file'` is recognised", w2 is None, "" if w2 is None else f"`{w2}` is not recognised", py.nloc(node), witness=w2)

def r9_sub_templates(ctx, rep):
    """literal text that is put back with `<regex>.sub(text, ...)` is a replacement *template*: its backslashes must be
    doubled first, otherwise the literal is changed or FORD fails on it (generic rule `sub_template_escaped`; shared with
    C18.R12)"""
    from . import common
    common.sub_template_escaped(ctx, rep, modules=("sourceform", "reader", "utils"))


def r10_blanked_copy_keeps_columns(ctx, rep):
    """While a literal continued from the previous line is open, the comment patterns are matched against a copy of the line in
    which the rest of the literal is blanked out, and the positions of that match are used to cut the *real* line.  That only
    works if the copy has the columns of the line: every value the blanking helper returns has the length of its argument.
    Decided symbolically (lengths of `c * n`, `a + b`, `line[a:b]` as linear forms)."""
    py = ctx.py
    md = py.func("reader._match_docmark")
    line_p = md.args.args[1].arg
    helpers = {}
    for c in py.walk_calls(md):
        nm = call_name(c).split(".")[-1]
        if py.has_func(f"reader.{nm}") and c.args and ast.unparse(c.args[0]) == line_p:
            helpers[nm] = py.func(f"reader.{nm}")
    matched = [c for c in py.walk_calls(md) if isinstance(c.func, ast.Attribute) and c.func.attr in ("match", "search", "fullmatch")]
    if not matched:
        raise AnalysisError("_match_docmark: no pattern match found")
    if not helpers:
        # the line is matched as it is (no blanked copy): nothing to keep aligned
        rep.ob("comment patterns are matched on text that has the columns of the line", True,
               "the line itself is matched", py.nloc(md), nontrivial=False)
        return
    for nm, fn in sorted(helpers.items()):
        subject = fn.args.args[0].arg
        rets = [r for r in astq.returns(fn)]
        if not rets:
            raise AnalysisError(f"{nm}: no return value")
        for r in rets:
            ln = astq.str_length(r, subject)
            if ln is None and isinstance(r, ast.Name):
                vals = [v for _t, v in astq.assignments(fn, r.id) if v is not None]
                lns = [astq.str_length(v, subject) for v in vals]
                ln = lns[0] if lns and all(x == lns[0] for x in lns) else None
            if ln is None:
                raise AnalysisError(f"{nm}: the length of `{ast.unparse(r)[:60]}` is not understood")
            want = {f"len({subject})": 1, "": 0}
            got = dict(ln)
            got.setdefault("", 0)
            ok = got == want
            rep.ob(f"{nm}: `{ast.unparse(r)[:50]}` has the length of the line", ok,
                   "columns of the blanked copy are the columns of the line" if ok else
                   f"the blanked copy is len({subject}) {'+' if got.get('', 0) - (0) >= 0 else ''}... = {got} characters long: every "
                   f"position taken from a match on it is off, so cutting a trailing comment removes a character of code (or leaves "
                   f"one of the comment)", py.nloc(r))


def r11_literal_rewrites_keep_length(ctx, rep):
    """literal text is preserved verbatim also where it is prepared for display (shared with C18.R16)"""
    from . import c18
    c18.r16_literal_rewrites_keep_length(ctx, rep)


RULES = [
    RuleSpec("C02.R6", r6_masking_cursor, "masking loops advance past the placeholder (shared with C20.R4)", floor=2),
    RuleSpec("C02.R1", r1_comment_recogniser, "comment recogniser == Fortran comment rule", floor=6),
    RuleSpec("C02.R2", r2_literal_recogniser, "literal recogniser", floor=1),
    RuleSpec("C02.R3", r3_scanners, "character scanners == reference automaton", floor=1),
    RuleSpec("C02.R4", r4_masking, "masking dominates dispatch; case folding after masking", floor=2),
    RuleSpec("C02.R5", r5_continuation, "continuation joining removes exactly the & characters", floor=3),
    RuleSpec("C02.R8", r8_include_lines, "INCLUDE lines are recognised by keyword plus literal", floor=2),
    RuleSpec("C02.R7", r7_no_transform_after_restore, "no rewriting after literals are re-inserted (shared with C18.R2)", floor=2),
    RuleSpec("C02.R10", r10_blanked_copy_keeps_columns, "the blanked copy of a line inside an open literal keeps the line's columns", floor=1),
    RuleSpec("C02.R9", r9_sub_templates, "source text used as a regex replacement template has its backslashes doubled", floor=5),
    RuleSpec("C02.R11", r11_literal_rewrites_keep_length, "substitutions on a restored literal keep its length (shared with C18.R16)", floor=1),
]
