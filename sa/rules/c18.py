"""C18 — rendered declarations say what the source says, and stay inert text (structural clauses)."""
from __future__ import annotations

import ast
import re
from typing import Dict, List, Set, Tuple

from jinja2 import nodes as N

from ..core import AnalysisError, RuleSpec
from ..jmodel import JModel, sym
from . import common
from ..pymodel import call_name
from .. import astq
from . import c09

EXPLANATION = (
    "Taint analysis across Python and templates, without running FORD. Sources are the attributes "
    "into which the parser re-inserts character-literal text (the QUOTES_RE.sub(...strings[num]...) "
    "idiom: `initial`, `bindC`, `attribs`); the rule re-derives the restoration sites from the AST on "
    "every run and fails closed if a new one appears. Sinks are all template outputs, after macro "
    "inlining on every page template, whose value carries the taint (through loops, set, macro "
    "parameters, or/if-expressions, join) and is not under an escaping filter; the Jinja environment "
    "is asserted to have no autoescape. R2 checks that nothing transforms a value after literals "
    "were re-inserted; R3 that procedure headings are assembled by proc_line with result/bind "
    "clauses and arguments in declaration order. Decides these clauses, not textual fidelity of every "
    "declaration."
    ' R4: literal case is preserved (masking before case folding) and argument attributes are complete. R5: the kind/len selector regexes capture the whole expression (E2). R6: relurl rewrites links and absolute paths only.'
    " Added after waves 6/7 - literals in kind/len selectors and array specifications are put back; replacement templates are escaped; the restoring loop's cursor is measured on the inserted text; selector slots are filled at most once."
)
ASSUMPTIONS = [
    "escaping filters are e/escape/forceescape/striptags/urlencode",
    "intent strings are out of scope of R1 (the regex that produces them admits keywords only)",
]

SOURCES = {
    "initial": "line_to_variables restores literals into `initial` (FortranVariable.initial); param_dict values",
    "bindC": "FortranProcedure._parse_bind_C restores literals into self.bindC; process_attribs copies bind(...) text",
    "attribs": "ATTRIB_RE arm restores literals into `attr`, which process_attribs appends to .attribs",
    # expression text: may contain relational operators (`dimension(merge(1,2,n<m))`, `kind=merge(4,8,n<m)`)
    "dimension": "array specification as written in the declaration (an expression list)",
    "kind": "kind selector expression as written (parse_type)",
    "strlen": "length selector expression as written (parse_type)",
}
# restoration targets that were reviewed and are deliberately not sources, with reason
NON_SOURCES = {
    "name": "line_to_variables restores the declarator as a whole; the FortranVariable constructor cuts the array specification / "
            "char-length (the only parts that can hold a literal) off into `dimension`, which is a source",
    "kind": "parse_type restores a literal inside kind=...; shown through full_type (recorded as C18.R1 kind finding if it ever reaches an unescaped sink: see note)",
}


ORIGINS: Dict[int, Tuple[ast.AST, ast.Call]] = {}    # id(site node) -> (function, QUOTES_RE.sub call) it stems from


def restoration_sites(py) -> List[Tuple[str, ast.AST, str]]:
    """(target name, node, function qualname) for each `T = ... QUOTES_RE.sub(<uses strings[..]>, ...)`."""
    out = []
    # on the canonical (helper-inlined) program: a restoration helper is part of each function that uses it
    for mod, fn in py.all_ifunctions():
        if mod != "sourceform":
            continue
        for n in ast.walk(fn):
            if not isinstance(n, ast.Assign):
                continue
            if py.enclosing_function(n) is not fn:
                continue
            for c in py.walk_calls(n.value):
                if call_name(c) == "QUOTES_RE.sub" and c.args:
                    first = ast.unparse(c.args[0])
                    uses_strings = "strings[" in first
                    if not uses_strings and isinstance(c.args[0], ast.Name):
                        # `string = NBSP_RE.sub(.., parent.strings[num])` then QUOTES_RE.sub(string, ..): the replacement is
                        # derived from the literal table through local assignments (also those of an inlined helper)
                        uses_strings = any("strings[" in ast.unparse(x) for x in astq.expand_locals(c.args[0], fn, depth=6))
                    if uses_strings:
                        t = n.targets[0]
                        name = t.id if isinstance(t, ast.Name) else (t.attr if isinstance(t, ast.Attribute) else ast.unparse(t))
                        out.append((name, n, py.qualname(fn)))
                        ORIGINS[id(n)] = (fn, c)
            # the same restoration by splicing: `text = text[:a] + <literal> + text[b:]` inside a loop that searches for the
            # placeholders with QUOTES_RE
            if isinstance(n.value, ast.BinOp) and isinstance(n.value.op, ast.Add) and len(n.targets) == 1 and \
                    isinstance(n.targets[0], (ast.Name, ast.Attribute)):
                tgt = ast.unparse(n.targets[0])
                parts = []

                def flat(e):
                    if isinstance(e, ast.BinOp) and isinstance(e.op, ast.Add):
                        flat(e.left)
                        flat(e.right)
                    else:
                        parts.append(e)
                flat(n.value)
                slices = [p_ for p_ in parts if isinstance(p_, ast.Subscript) and isinstance(p_.slice, ast.Slice) and ast.unparse(p_.value) == tgt]
                mids = [p_ for p_ in parts if p_ not in slices]
                in_search_loop = False
                q_ = n
                while q_ in py.parents and q_ is not fn:
                    q_ = py.parents[q_]
                    if isinstance(q_, ast.While) and "QUOTES_RE" in ast.unparse(q_.test):
                        in_search_loop = True
                if len(slices) == 2 and len(mids) == 1 and in_search_loop:
                    x = mids[0]
                    uses = "strings[" in ast.unparse(x) or (isinstance(x, ast.Name) and any(
                        "strings[" in ast.unparse(y) for y in astq.expand_locals(x, fn, depth=6)))
                    if uses:
                        t = n.targets[0]
                        name = t.id if isinstance(t, ast.Name) else t.attr
                        fake = ast.copy_location(ast.Call(func=ast.Attribute(value=ast.Name(id="QUOTES_RE", ctx=ast.Load()), attr="sub", ctx=ast.Load()),
                                                          args=[x, n.targets[0]], keywords=[]), n)
                        ast.fix_missing_locations(fake)
                        out.append((name, n, py.qualname(fn)))
                        ORIGINS[id(n)] = (fn, fake)
    # a restoration inside a helper whose result is returned: the real targets are the assignment targets at the
    # helper's call sites  (initial = _restore_string_literals(initial, parent.strings))
    for _ in range(2):
        nxt = []
        changed = False
        for name, node, q in out:
            fn = py.enclosing_function(node)
            returned = fn is not None and any(isinstance(r, ast.Return) and isinstance(r.value, ast.Name) and r.value.id == name
                                              for r in ast.walk(fn))
            if not returned or py.enclosing_class(fn) is not None and fn.name.startswith("__"):
                nxt.append((name, node, q))
                continue
            sites = [a for _, f2 in py.all_ifunctions() for a in ast.walk(f2) if isinstance(a, ast.Assign)
                     and any(isinstance(c, ast.Call) and call_name(c).split(".")[-1] == fn.name for c in ast.walk(a.value))]
            if not sites:
                nxt.append((name, node, q))
                continue
            changed = True
            for a in sites:
                t = a.targets[0]
                nm = t.id if isinstance(t, ast.Name) else (t.attr if isinstance(t, ast.Attribute) else ast.unparse(t))
                nxt.append((nm, a, py.qualname(py.enclosing_function(a))))
                if id(node) in ORIGINS:
                    ORIGINS[id(a)] = ORIGINS[id(node)]
        out = nxt
        if not changed:
            break
    return out


def restoration_helpers(py) -> Set[str]:
    """names of functions that put the literals back into their argument and return the result"""
    out: Set[str] = set()
    for mod, fn in py.all_functions():
        if mod != "sourceform":
            continue
        for n in ast.walk(fn):
            splice = isinstance(n, ast.Assign) and isinstance(n.value, ast.BinOp) and isinstance(n.value.op, ast.Add) and \
                isinstance(n.targets[0], ast.Name) and sum(
                    1 for p_ in ast.walk(n.value) if isinstance(p_, ast.Subscript) and isinstance(p_.slice, ast.Slice)
                    and ast.unparse(p_.value) == n.targets[0].id) == 2 and any(
                        isinstance(w_, ast.While) and "QUOTES_RE" in ast.unparse(w_.test) and any(x is n for x in ast.walk(w_))
                        for w_ in ast.walk(fn))
            if isinstance(n, ast.Assign) and py.enclosing_function(n) is fn and isinstance(n.targets[0], ast.Name) and (splice or any(
                    call_name(c) == "QUOTES_RE.sub" for c in py.walk_calls(n.value))):
                name = n.targets[0].id
                if any(isinstance(r, ast.Return) and isinstance(r.value, ast.Name) and r.value.id == name for r in ast.walk(fn)) and \
                        any("strings[" in ast.unparse(x) or (isinstance(x, ast.Subscript) and isinstance(x.value, ast.Name)
                                                             and x.value.id in {a.arg for a in fn.args.args}) for x in ast.walk(fn)):
                    out.add(fn.name)
    return out


TABLE_ATTRS = {"attr_dict": "attribs", "param_dict": "initial"}      # per-scope tables and the entity attribute they end up in


def forward_aliases(fn: ast.AST, name: str, after: int) -> Set[str]:
    """names that receive the value of `name` by plain assignment after line `after` (`initial = text`, position-wise
    through tuple assignments): what an inlined helper hands back to its caller"""
    names = {name}
    for _ in range(3):
        for a in ast.walk(fn):
            if not isinstance(a, ast.Assign) or getattr(a, "lineno", 0) < after:
                continue
            for t in a.targets:
                pairs = list(zip(t.elts, a.value.elts)) if isinstance(t, ast.Tuple) and isinstance(a.value, ast.Tuple) and \
                    len(t.elts) == len(a.value.elts) else [(t, a.value)]
                for tt, vv in pairs:
                    if isinstance(vv, ast.Name) and vv.id in names and isinstance(tt, ast.Name):
                        names.add(tt.id)
    return names


def restored_into(py, name: str, node: ast.AST) -> Set[str]:
    """entity attributes that the restored text `name` (assigned at `node`) is stored in, read from the code after `node`:
    `self.<a> = name`, stores into the per-scope tables, constructor arguments (by parameter name, also through a list that
    is passed to the constructor), and the field of a returned record"""
    fn = py.enclosing_function(node)
    out: Set[str] = set()
    t = node.targets[0] if isinstance(node, ast.Assign) else None
    if isinstance(t, ast.Attribute) and isinstance(t.value, ast.Name) and t.value.id == "self":
        return {t.attr}

    names = forward_aliases(fn, name, node.lineno)

    def mentions(e) -> bool:
        return any(isinstance(x, ast.Name) and x.id in names for x in ast.walk(e))
    lists: Set[str] = set()
    for st in list(ast.walk(fn)) * 2:          # twice: the lists found in the first pass are constructor arguments in the second
        if getattr(st, "lineno", 0) < node.lineno:
            continue
        if isinstance(st, ast.Assign) and mentions(st.value):
            for tg in st.targets:
                if isinstance(tg, ast.Attribute) and isinstance(tg.value, ast.Name) and tg.value.id == "self":
                    out.add(tg.attr)
                if isinstance(tg, ast.Subscript):
                    base = ast.unparse(tg.value).split(".")[-1]
                    if base in TABLE_ATTRS:
                        out.add(TABLE_ATTRS[base])
        if isinstance(st, ast.Call) and isinstance(st.func, ast.Attribute) and st.func.attr in ("append", "extend") and \
                any(mentions(a) for a in st.args):
            recv = st.func.value
            base = ast.unparse(recv.value if isinstance(recv, ast.Subscript) else recv).split(".")[-1]
            if base in TABLE_ATTRS:
                out.add(TABLE_ATTRS[base])
            elif isinstance(recv, ast.Name):
                lists |= forward_aliases(fn, recv.id, 0)      # the list may be handed over under another name
        if isinstance(st, ast.Call) and isinstance(st.func, ast.Name) and st.func.id in py.classes:
            init = py.resolve_method(st.func.id, "__init__")
            if init is not None:
                for pn, a in astq.bind_args(st, init[1], skip_self=True).items():
                    if mentions(a) or any(isinstance(x, ast.Name) and x.id in lists for x in ast.walk(a)):
                        out.add(pn)
            else:       # dataclass-like record: keyword names are field names
                for kw in st.keywords:
                    if kw.arg and mentions(kw.value):
                        out.add(kw.arg)
    return out


def r1_sources(ctx, rep):
    py = ctx.py
    sites = restoration_sites(py)
    if len(sites) < 3:
        raise AnalysisError("fewer than 3 literal re-insertion sites found in sourceform.py")
    for name, node, q in sites:
        attrs = restored_into(py, name, node)
        if not attrs:
            raise AnalysisError(f"literal re-insertion target `{name}` in {q}: the attribute it is stored in was not recognised")
        unknown = sorted(a for a in attrs if a not in SOURCES and a not in NON_SOURCES)
        if unknown:
            raise AnalysisError(f"literal text is re-inserted into a new attribute {unknown} ({q}): review C18 SOURCES")
        attr = sorted(attrs)[0]
        ok = True
        rep.ob(f"restoration target={name} in {q}", ok,
               f"literal text is re-inserted into `{name}` -> attribute `{attr}` "
               f"({'tracked source' if attr in SOURCES else 'reviewed non-source: ' + NON_SOURCES.get(attr, '')})",
               py.nloc(node), nontrivial=False)
    # each source attribute is still stored somewhere
    src = py.sources["sourceform"]
    for a in SOURCES:
        ok = re.search(r"\.%s\b" % a, src) is not None
        if not ok:
            raise AnalysisError(f"source attribute {a} no longer exists")
    # environment without autoescape
    env_calls = [c for c in py.walk_calls(py.modules["output"]) if call_name(c) == "jinja2.Environment"]
    if not env_calls:
        raise AnalysisError("jinja2.Environment(...) not found in output.py")
    for c in env_calls:
        auto = [k for k in c.keywords if k.arg == "autoescape"]
        if auto and not (isinstance(auto[0].value, ast.Constant) and auto[0].value.value is False):
            raise AnalysisError("Jinja autoescape is configured: C18.R1 must be re-derived for that mode")
        rep.ob("jinja environment autoescape=off", True,
               "environment created without autoescape: every sink needs an explicit escape filter",
               py.nloc(c), nontrivial=False)


def r1_sinks(ctx, rep):
    j = ctx.j
    JModel.FLAG_SOURCES = {a: "lit" for a in SOURCES}
    c09.setup_types(ctx)
    seen = set()
    for tpl in c09.all_page_templates(ctx):
        outs, _ = j.expand(tpl)
        for o in outs:
            if "<in-test>" in o.macros:
                continue
            # does the expression mention a source attribute at all (escaped or not)?
            mentions = any(isinstance(g, N.Getattr) and g.attr in SOURCES for g in o.node.find_all(N.Getattr)) \
                or (isinstance(o.node, N.Getattr) and o.node.attr in SOURCES) or bool(o.flags)
            if not mentions:
                continue
            key = (o.template, o.lineno, o.src)
            if key in seen:
                continue
            seen.add(key)
            ok = "lit" not in o.flags
            if not ok and o.macros[-1:] == ["enum_entry"] and o.src == "var.initial" and enum_initial_is_int(ctx.py):
                rep.ob(f"template={o.template} macro=enum_entry expr={o.src}", True,
                       "exempt: FortranEnum._cleanup rejects any enumerator value that int() does not accept",
                       o.loc, nontrivial=False)
                continue
            rep.ob(f"template={o.template} expr={o.src}", ok,
                   ("literal-bearing value is escaped before output" if ok else
                    f"value derived from source text ({o.sym}) reaches the page without an escaping "
                    f"filter: a character literal containing <, > or & changes the page structure"),
                   o.loc)


def enum_initial_is_int(py) -> bool:
    fn = py.func("FortranEnum._cleanup")
    for t in ast.walk(fn):
        if isinstance(t, ast.Try):
            calls = [call_name(c) for st in t.body for c in py.walk_calls(st)]
            raises = any(isinstance(x, ast.Raise) for h in t.handlers for x in ast.walk(h))
            if "int" in calls and raises:
                return True
    return False


def r2_no_transform_after_restore(ctx, rep):
    """After literals were re-inserted into T, T must not be transformed again (the transformation
    would rewrite the user's literal text)."""
    py = ctx.py
    n = 0
    for name, node, q in restoration_sites(py):
        fn = py.enclosing_function(node)
        # find the enclosing while loop (the restoration loop); fall back to the statement itself
        loop = node
        p = node
        while p is not fn:
            p = py.parents[p]
            if isinstance(p, ast.While):
                loop = p
        tnames = forward_aliases(fn, name, node.lineno) if isinstance(node.targets[0], ast.Name) else {name}
        bad = []
        for sib in later_reachable(py, loop, fn):
            for st in ast.walk(sib):
                if isinstance(st, (ast.Assign, ast.AugAssign)):
                    tg = st.targets if isinstance(st, ast.Assign) else [st.target]
                    for t in tg:
                        tn = t.id if isinstance(t, ast.Name) else (t.attr if isinstance(t, ast.Attribute) else None)
                        if tn in tnames and any(re.search(r"\b%s\b" % re.escape(x), ast.unparse(st.value)) for x in tnames) and \
                                not (isinstance(st.value, ast.Name) and st.value.id in tnames):      # `initial = text`: the hand-over itself
                            bad.append(st)
        n += 1
        rep.ob(f"restored value `{name}` in {q}", not bad,
               ("no transformation is applied after literals are re-inserted" if not bad else
                f"`{ast.unparse(bad[0])[:80]}` rewrites `{name}` after the character literals were put "
                f"back: the displayed literal differs from the source"),
               py.nloc(bad[0] if bad else node))
    # the restored text handed straight to a rewriting call: `COMMA_RE.sub(", ", _restore_strings(initial, ...))`
    helpers_ = restoration_helpers(py)
    for mod_, fn_ in py.all_functions():
        if mod_ != "sourceform" or fn_.name in helpers_:
            continue
        for c in ast.walk(fn_):
            if isinstance(c, ast.Call) and call_name(c).split(".")[-1] in helpers_:
                par = py.parents.get(c)
                if isinstance(par, ast.Call) and c in par.args and isinstance(par.func, ast.Attribute) and \
                        par.func.attr in ("sub", "subn", "replace", "lower", "upper", "strip", "translate", "title", "casefold"):
                    n += 1
                    rep.ob(f"restored value in {py.qualname(fn_)} is handed to `{ast.unparse(par.func)}`", False,
                           f"`{ast.unparse(par)[:80]}` rewrites the text after the character literals were put back: the "
                           f"displayed literal differs from the source", py.nloc(par))
    # the only transformations of the literal text itself are the two documented ones: look at what reaches the
    # replacement argument of QUOTES_RE.sub at the restoration that feeds `initial` (helpers are followed)
    ltv = py.func("sourceform.line_to_variables")
    # the restoration whose result becomes the `initial` argument of the variable constructor (by flow, not by name)
    subs = [ORIGINS[id(node)] for name, node, q in restoration_sites(py)
            if id(node) in ORIGINS and q.endswith("line_to_variables") and "initial" in restored_into(py, name, node)]
    if not subs:
        raise AnalysisError("line_to_variables: the QUOTES_RE.sub restoration of `initial` was not found")
    trans: Set[str] = set()
    bad_replace = []
    seen_params: Set[Tuple[int, str]] = set()

    def visit(e: ast.AST, h, lit_names: Set[str], depth: int = 0) -> bool:
        """does `e` carry literal text?  every call applied to literal text is recorded as a transformation"""
        if depth > 8:
            return False
        if isinstance(e, ast.Subscript) and ast.unparse(e.value).split(".")[-1] == "strings":
            return True
        if isinstance(e, ast.Name):
            if e.id in lit_names:
                # a parameter that carries literal text may be re-assigned from itself (p = f(p)): further transformations
                key = (id(h), e.id)
                if key not in seen_params:
                    seen_params.add(key)
                    for _, v in astq.assignments(h, e.id):
                        if v is not None and any(isinstance(x, ast.Name) and x.id == e.id for x in ast.walk(v)):
                            visit(v, h, lit_names, depth + 1)
                return True
            vals = [v for _, v in astq.assignments(h, e.id) if v is not None]
            plain = [v for v in vals if not any(isinstance(x, ast.Name) and x.id == e.id for x in ast.walk(v))]
            selfref = [v for v in vals if v not in plain]
            lit = any(visit(v, h, lit_names, depth + 1) for v in plain)
            if lit:
                for v in selfref:      # x = f(x): a further transformation of the literal text
                    visit(v, h, lit_names | {e.id}, depth + 1)
            return lit
        if isinstance(e, ast.Call):
            parts = ([e.func.value] if isinstance(e.func, ast.Attribute) else []) + list(e.args) + [k.value for k in e.keywords]
            lits = [visit(x, h, lit_names, depth + 1) for x in parts]
            if not any(lits):
                return False
            cn = call_name(e)
            last = cn.split(".")[-1]
            if isinstance(e.func, ast.Name) and f"sourceform.{e.func.id}" in py.functions:
                hh = py.functions[f"sourceform.{e.func.id}"]
                bound = {k for k, v in astq.bind_args(e, hh).items() if visit(v, h, lit_names, depth + 1)}
                return any(visit(r, hh, bound, depth + 1) for r in astq.returns(hh))
            if last in ("int", "len", "str"):
                return last == "str"
            if cn.endswith("_RE.sub"):
                trans.add(cn)
            elif isinstance(e.func, ast.Attribute):
                trans.add("." + last)
                if last == "replace" and [ast.unparse(x) for x in e.args] != ["'\\\\'", "'\\\\\\\\'"]:
                    bad_replace.append(ast.unparse(e)[-40:])
            else:
                trans.add(cn)
            return True
        if isinstance(e, (ast.BinOp, ast.JoinedStr, ast.FormattedValue, ast.IfExp, ast.BoolOp)):
            return any(visit(c, h, lit_names, depth + 1) for c in ast.iter_child_nodes(e) if isinstance(c, ast.expr))
        return False

    for h, c in subs:
        visit(c.args[0], h, set())
    ok = trans <= {"NBSP_RE.sub", ".replace"} and not bad_replace
    rep.ob("line_to_variables literal transformations", ok,
           "restored literal text is only changed by NBSP_RE (repeated blanks -> nbsp) and backslash doubling"
           if ok else f"restored literal text is transformed by {sorted(trans)} {bad_replace}", py.nloc(ltv))


def later_reachable(py, node, fn) -> List[ast.stmt]:
    """statements that can execute after `node` in the same activation, without re-entering an
    enclosing loop: later siblings in each enclosing block, stopping at an unconditional
    return/raise/continue/break."""
    out: List[ast.stmt] = []
    cur = node
    while cur is not fn:
        par = py.parents[cur]
        stop = False
        for f in ("body", "orelse", "finalbody"):
            blk = getattr(par, f, None)
            if isinstance(blk, list) and cur in blk:
                for st in blk[blk.index(cur) + 1:]:
                    out.append(st)
                    if isinstance(st, (ast.Return, ast.Raise, ast.Continue, ast.Break)):
                        stop = True
                        break
        if stop:
            break
        cur = par
    return out


def r3_heading(ctx, rep):
    j = ctx.j
    m = j.macros.get(("macros.html", "proc_line"))
    if m is None:
        raise AnalysisError("macro proc_line not found")
    # the outputs of proc_line as they appear when a page is expanded: `{% set %}` variables of the macro are resolved to what
    # they stand for, so a hoisted `{% set proctype = proc.proctype %}` reads like the inline expression
    c09.setup_types(ctx)
    outs = []
    for tpl in c09.all_page_templates(ctx):
        eo, _ = j.expand(tpl)
        outs += [o for o in eo if o.template == "macros.html" and "proc_line" in o.macros[-1:]]
    if not outs:
        raise AnalysisError("no page expands proc_line")

    def has(suffix_pattern):
        return [o for o in outs if re.search(suffix_pattern, o.sym)]
    a = has(r"\.args\|join\(', '\)$")
    rep.ob("proc_line arguments", bool(a), "heading prints proc.args|join(', ') (declaration order)"
           if a else "proc_line no longer prints the argument list from proc.args", "ford/templates/macros.html")
    r = has(r"\.retvar\.name$")
    okr = bool(r) and any(re.search(r"([\w.\[\]*]+)\.name(?:\|\w+)? != \1\.retvar\.name(?:\|\w+)?", sym(c[2]) if not isinstance(c[0], str) else c[0]) and c[1]
                          for o in r for c in o.conds)
    rep.ob("proc_line result clause", okr,
           "result(name) printed iff the result name differs from the function name" if okr else
           "result clause missing or not guarded by name != retvar.name", r[0].loc if r else "ford/templates/macros.html")
    b = has(r"\.bindC(\||$)")
    okb = bool(b) and any(re.search(r"\.bindC\)?$", c[0] if isinstance(c[0], str) else sym(c[2])) and c[1] for o in b for c in o.conds)
    rep.ob("proc_line bind clause", okb, "bind(...) printed iff proc.bindC" if okb else
           "bind clause missing or unguarded", b[0].loc if b else "ford/templates/macros.html")
    t = has(r"\.proctype\|lower$")
    rep.ob("proc_line kind keyword", bool(t), "heading prints proc.proctype|lower",
           t[0].loc if t else "ford/templates/macros.html")
    at = has(r"\.attribs\|join")
    rep.ob("proc_line prefix attributes", bool(at), "heading prints proc.attribs (pure/elemental/...)",
           at[0].loc if at else "ford/templates/macros.html")
    # every page/macro that shows a procedure heading goes through proc_line
    callers = j.macro_callers().get(("macros.html", "proc_line"), [])
    rep.stats["proc_line_call_sites"] = len(callers)
    for tname, c in callers:
        rep.ob(f"proc_line call in {tname}:{c.lineno}", True, "procedure heading assembled by proc_line",
               f"ford/templates/{tname}:{c.lineno}", nontrivial=False)
    # no second hand-written heading: `proctype|lower` followed by args join outside proc_line
    # is allowed only in type_summary's constructor table (reviewed: compact constructor list)
    other = [o for o in j.outputs if re.search(r"\.proctype\|lower$", o.src) and (not o.macros or o.macros[-1] != "proc_line")]
    for o in other:
        ok = o.macros[-1:] in (["type_summary"], ["common_popover"])
        rep.ob(f"hand-written heading in {o.template} macro={o.macros[-1:] or ['-']}", ok,
               "reviewed secondary heading (constructor table / popover)" if ok else
               "a procedure heading is assembled by hand outside proc_line (sibling disagreement risk)", o.loc)


def r4_literals_and_argument_attributes(ctx, rep):
    """displayed text is the source text: literal masking precedes case folding (shared with C02.R4), and
    attribute statements reach dummy arguments (shared with C01.R4/C04.R3)."""
    py = ctx.py
    from . import c02
    c02.r4_masking(ctx, rep)
    from . import c01
    fp, i_super, i_take = c01.attribute_statements_order(py)
    ok = i_super < i_take
    rep.ob("attribute statements are applied before dummy arguments are matched", ok,
           "intent/optional/dimension statements naming a dummy argument are shown in the argument table" if ok else
           "FortranProcedure._cleanup removes the dummy arguments from self.variables before process_attribs runs: "
           "`intent(in) :: n`, `optional :: flag`, `dimension a(n,2)` written as statements are not displayed", py.nloc(fp))


def r5_selector_regexes(ctx, rep):
    """kind/len selectors are displayed from what KIND_RE / LEN_RE capture: the capture must span the whole
    selector expression (E2), otherwise `character(len=n+1)` is shown as `len=n`."""
    py, rx = ctx.py, ctx.rx
    ATOM = r"[a-z0-9_]+"
    SIMPLE = rf"{ATOM}(?:[-+*/]{ATOM})*"
    # blank-free expression; a function reference may carry a comma-separated argument list (one nesting level):
    # `len=max(1,n)`, `kind=selected_real_kind(6,37)`
    EXPR = rf"(?:{ATOM}\({SIMPLE}(?:,{SIMPLE})*\)|{ATOM})(?:[-+*/](?:{ATOM}\({SIMPLE}(?:,{SIMPLE})*\)|{ATOM}))*"
    for name, kw in (("sourceform.LEN_RE", "len"), ("sourceform.KIND_RE", "kind")):
        pat, flags, node, _ = ctx.regexes[name]
        # the selector text handed to the regex has blanks removed (parse_type: re.sub(r"\s", "", args))
        ref = rx.full(rf"{kw}={EXPR}", re.IGNORECASE)
        consumed = rx.prefix_lang(pat, flags)          # strings the match can consume entirely
        w = rx.subset_witness(ref, consumed)
        rep.ob(f"{name} consumes the whole `{kw}=expr` selector", w is None,
               "the captured value is the complete expression" if w is None else
               f"for `{w}` the regex stops before the end of the selector: the displayed {kw} is a prefix of the declared "
               f"expression", py.nloc(node), witness=w)
    # positional selectors: if the regex matches at all it must match the whole expression
    pat, flags, node, _ = ctx.regexes["sourceform.LEN_RE"]
    pos = rx.conj(rx.full(EXPR, re.IGNORECASE), rx.neg(rx.match_lang(r"len\s*=", re.IGNORECASE)))
    w = rx.witness(rx.conj(pos, rx.match_lang(pat, flags), rx.neg(rx.prefix_lang(pat, flags))))
    rep.ob("sourceform.LEN_RE: a positional length expression is taken whole or not at all", w is None,
           "a matching positional selector is consumed completely (others fall through to `length = arg`)" if w is None else
           f"for the positional selector `{w}` the regex matches only a prefix: `character({w})` is displayed with a "
           f"truncated length", py.nloc(node), witness=w)
    pt = py.func("sourceform.parse_type")
    # the character selector list is split at top-level commas only: a str.split(",") cuts `len=max(1,n)` in two
    splits = [c for c in py.walk_calls(pt) if isinstance(c.func, ast.Attribute) and c.func.attr == "split"
              and isinstance(c.func.value, ast.Name) and c.func.value.id == "args"
              and c.args and isinstance(c.args[0], ast.Constant) and c.args[0].value == ","]
    psplits = [c for c in py.walk_calls(pt) if call_name(c).endswith("paren_split") and len(c.args) == 2
               and isinstance(c.args[1], ast.Name) and c.args[1].id == "args"]
    ok = not splits and len(psplits) == 1
    rep.ob("parse_type splits the character selector list at top-level commas", ok,
           "paren_split(',', args)" if ok else
           "the selector list is split at every comma: `character(len=max(1,n))` is rejected or displayed with a truncated length",
           py.nloc(splits[0] if splits else pt))
    sel = psplits[0].args[1].id if psplits else "args"
    def strips_blanks(v):
        return any(isinstance(c, ast.Call) and ((call_name(c) == "re.sub" and c.args and isinstance(c.args[0], ast.Constant)
                                                  and "\\s" in str(c.args[0].value))
                                                 or (isinstance(c.func, ast.Attribute) and c.func.attr == "replace" and len(c.args) == 2
                                                     and isinstance(c.args[0], ast.Constant) and c.args[0].value == " "
                                                     and isinstance(c.args[1], ast.Constant) and c.args[1].value == "")) for c in ast.walk(v))
    ok = any(isinstance(a, ast.Assign) and any(isinstance(t, ast.Name) and t.id == sel for t in a.targets) and strips_blanks(a.value)
             for a in ast.walk(pt))
    rep.ob("parse_type removes blanks from the selector before matching", ok, "", py.nloc(pt), nontrivial=False)


def r6_relurl_plain_text(ctx, rep):
    """Declaration text goes through the `relurl` filter.  relative_url may rewrite (a) the href of an <a> element it
    found and (b) a string that is an absolute path.  Rewriting any other string as if it were a path mangles
    declarations that merely contain a slash: `real, dimension(n/2)`."""
    py = ctx.py
    fn = py.func("output.relative_url")
    parents = {}
    for n in ast.walk(fn):
        for c in ast.iter_child_nodes(n):
            parents[c] = n
    from . import c09
    fn, ev, arg, assigns = c09.relurl_replaced_sources(py)
    var = ast.unparse(arg)
    assigns = [e for e in assigns if e.kind == "assign"]
    if not assigns:
        raise AnalysisError(f"relative_url: no assignment to {var}")
    # the element found by the HTML search: what `.find("a", ...)` is bound to
    link_vars = {e.target for e in ev if e.kind == "assign" and e.value is not None and
                 any(isinstance(c, ast.Call) and isinstance(c.func, ast.Attribute) and c.func.attr in ("find", "select_one", "a")
                     for c in ast.walk(e.value))}

    def atom(x):
        if isinstance(x, ast.Compare) and len(x.ops) == 1 and isinstance(x.ops[0], (ast.Is, ast.IsNot)) and \
                isinstance(x.comparators[0], ast.Constant) and x.comparators[0].value is None and ast.unparse(x.left) in link_vars:
            return ("link", isinstance(x.ops[0], ast.IsNot))
        if isinstance(x, ast.Name) and x.id in link_vars:
            return ("link", True)
        if isinstance(x, ast.Call) and (call_name(x) == "os.path.isabs" or (isinstance(x.func, ast.Attribute) and x.func.attr == "is_absolute")):
            return ("abs", True)
        return None
    for e in assigns:
        ok = astq.path_implies(e, atom, {"link": True}) is True or astq.path_implies(e, atom, {"abs": True}) is True
        conds = e.cond_texts()
        src = ast.unparse(e.value)
        rep.ob(f"relative_url: `{var} = {src}` only for a link or an absolute path", ok,
               f"guarded by {conds}" if ok else
               f"a string without an <a> element is rewritten as a path although it need not be one (guards: {conds}): "
               f"`real, dimension(n/2)` is displayed with a mangled bound", py.nloc(e.node))



def r7_pure_properties(ctx, rep):
    """declarations are displayed through properties (full_type, full_declaration, ...) that are read once per page the
    entity appears on: they must not change the entity"""
    common.pure_properties(ctx, rep)



def r8_literal_continuation(ctx, rep):
    """a character literal continued over two lines keeps its blanks: the reader removes exactly the & characters
    (shared with C02.R5)"""
    from . import c02
    c02.r5_continuation(ctx, rep)


HTML_PROPERTIES = ("full_type", "full_declaration")      # properties whose value is HTML (they embed links) and is output raw
EXPRESSION_ATTRS = ("kind", "strlen", "dimension", "attribs", "initial", "bindC")


def _returns_unescaped_source(fn: ast.FunctionDef) -> List[ast.AST]:
    """intra-procedural taint: source-text attributes of self (and `self.proto[1]`) that reach a return value of fn without
    passing a call whose name contains `escape`"""
    def is_escape(c: ast.Call) -> bool:
        return "escape" in call_name(c).split(".")[-1].lower() or call_name(c).split(".")[-1] in ("e", "Markup.escape")
    tainted: Set[str] = set()

    def taint(e: ast.AST, extra: Set[str] = frozenset()) -> bool:
        if isinstance(e, ast.Call) and is_escape(e):
            return False
        if isinstance(e, ast.Attribute) and isinstance(e.value, ast.Name) and e.value.id == "self" and e.attr in EXPRESSION_ATTRS:
            return True
        if isinstance(e, ast.Subscript) and ast.unparse(e.value) == "self.proto" and ast.unparse(e.slice) != "0":
            return True
        if isinstance(e, ast.Name):
            return e.id in tainted or e.id in extra
        if isinstance(e, (ast.ListComp, ast.GeneratorExp, ast.SetComp)):
            ex = set(extra)
            for g in e.generators:
                rows = g.iter.elts if isinstance(g.iter, (ast.Tuple, ast.List)) else None
                if rows is not None and isinstance(g.target, ast.Tuple) and all(
                        isinstance(r, (ast.Tuple, ast.List)) and len(r.elts) == len(g.target.elts) for r in rows):
                    # a literal table of rows unpacked into several names: each name is as tainted as its column
                    for i, t in enumerate(g.target.elts):
                        if isinstance(t, ast.Name) and any(taint(r.elts[i], ex) for r in rows):
                            ex.add(t.id)
                elif taint(g.iter, ex):
                    ex |= {n.id for n in ast.walk(g.target) if isinstance(n, ast.Name)}
            return taint(e.elt, ex)
        if isinstance(e, ast.IfExp):
            return taint(e.body, extra) or taint(e.orelse, extra)
        if isinstance(e, ast.Compare):
            return False
        return any(taint(c, extra) for c in ast.iter_child_nodes(e))

    bad: List[ast.AST] = []
    for _ in range(3):
        bad = []
        for st in ast.walk(fn):
            if isinstance(st, ast.Assign) and taint(st.value):
                tainted |= {n.id for t in st.targets for n in ast.walk(t) if isinstance(n, ast.Name)}
            elif isinstance(st, ast.AugAssign) and taint(st.value) and isinstance(st.target, ast.Name):
                tainted.add(st.target.id)
            elif isinstance(st, ast.For) and taint(st.iter):
                tainted |= {n.id for n in ast.walk(st.target) if isinstance(n, ast.Name)}
            elif isinstance(st, ast.Expr) and isinstance(st.value, ast.Call) and isinstance(st.value.func, ast.Attribute) and \
                    st.value.func.attr in ("append", "extend", "insert") and isinstance(st.value.func.value, ast.Name) and \
                    any(taint(a) for a in st.value.args):
                tainted.add(st.value.func.value.id)
            elif isinstance(st, ast.Return) and st.value is not None and taint(st.value):
                bad.append(st)
    return bad


def r9_html_properties_escape(ctx, rep):
    """full_type / full_declaration embed links, so the templates output them raw; whatever expression text of the
    declaration they interpolate (kind, length, array specification, attributes) must be escaped where the string is built"""
    py, j = ctx.py, ctx.j
    n = 0
    for cname, ci in py.classes.items():
        # declarations of data objects: only these can contain expressions (a binding's attributes are keywords and names)
        if ci.module != "sourceform" or not py.is_subclass(cname, "FortranVariable"):
            continue
        for p in HTML_PROPERTIES:
            fn = ci.methods.get(p)
            if fn is None or p not in ci.properties:
                continue
            n += 1
            fn = py.ifunc(f"{cname}.{p}")      # canonical form: a local wrapper around the escape call is expanded
            bad = _returns_unescaped_source(fn)
            rep.ob(f"{cname}.{p} escapes the declaration text it embeds", not bad,
                   "kind / length / array specification / attributes pass an escape call before they are joined with the type link"
                   if not bad else
                   f"`{ast.unparse(bad[0])[:70]}` returns source text as it was written: `integer(kind=merge(4,8,n<m)) :: k` puts `<m)) ...` "
                   f"into the page as a tag and swallows the rest of the table cell", py.nloc(bad[0] if bad else fn), nontrivial=bool(bad))
    if n < 2:
        raise AnalysisError("HTML-valued declaration properties (full_type, full_declaration) not found")
    ex = ast.parse("def full_type(self):\n    parts = []\n    if self.kind:\n        parts.append(f'kind={self.kind}')\n    return self.vartype + ', '.join(parts)\n").body[0]
    ex2 = ast.parse("def full_type(self):\n    parts = []\n    if self.kind:\n        parts.append(f'kind={escape(self.kind)}')\n    return self.vartype + ', '.join(parts)\n").body[0]
    if not _returns_unescaped_source(ex) or _returns_unescaped_source(ex2):
        raise AnalysisError("r9_html_properties_escape: the taint matcher fails on its own examples")


def r10_initial_value_is_whole(ctx, rep):
    """`name = expr`: the initial value is everything after the FIRST top-level `=`.  A split at every `=` followed by taking
    element 1 cuts the expression at the next `=`, i.e. inside `==`, `/=`, `<=`, `>=` (`l = n == 3` is shown as `n`)."""
    py = ctx.py
    n = 0
    for mod, fn in py.all_functions():
        if mod != "sourceform":
            continue
        for st in ast.walk(fn):
            if not (isinstance(st, ast.Assign) and len(st.targets) == 1 and isinstance(st.targets[0], ast.Name)
                    and isinstance(st.value, ast.Call) and call_name(st.value).split(".")[-1] in ("paren_split", "split")
                    and st.value.args and isinstance(st.value.args[0], ast.Constant) and st.value.args[0].value == "="):
                continue
            if call_name(st.value).split(".")[-1] == "split" and (len(st.value.args) > 1 or st.value.keywords):
                continue      # str.split("=", 1): a single cut
            S = st.targets[0].id
            n += 1
            elems = [x for x in ast.walk(fn) if isinstance(x, ast.Subscript) and isinstance(x.value, ast.Name) and x.value.id == S
                     and isinstance(x.ctx, ast.Load)]
            single = [x for x in elems if isinstance(x.slice, ast.Constant) and isinstance(x.slice.value, int) and x.slice.value >= 1]
            tail = [x for x in elems if isinstance(x.slice, ast.Slice) and isinstance(x.slice.lower, ast.Constant) and x.slice.lower.value == 1]
            ok = not single or bool(tail)
            rep.ob(f"{py.qualname(fn)}: the value after `=` is taken whole (split `{S}`)", ok,
                   "all pieces after the first `=` are kept" if ok else
                   f"`{ast.unparse(single[0])}` is only the text up to the next `=`: `logical, parameter :: l = n == 3` is shown with the "
                   f"initial value `n`, and `n >= 3` as `n>`", py.nloc(single[0] if single else st), nontrivial=not ok)
    rep.ob("declarator / PARAMETER splits at `=` inspected", True, f"{n} multi-way split(s) at `=`", "ford/sourceform.py", nontrivial=False)


def r11_displayed_text_is_unmasked(ctx, rep):
    """Statements are parsed with their character literals replaced by index placeholders ("0", "1", ...).  Text that is cut
    out of the masked statement and kept for display - the value of a PARAMETER statement item, an attribute of a declaration -
    must have the literals put back before it is stored, like the initial value of a declaration has."""
    py = ctx.py
    sites = restoration_sites(py)
    restored: Dict[str, List[Tuple[str, int]]] = {}
    for name, node, q in sites:
        restored.setdefault(q, []).append((name, node.lineno))

    def closest_def(fn, name: str, at: int):
        """the nearest preceding binding of a local name (assignment value, or the iterable of the loop that binds it)"""
        best = None
        for st in ast.walk(fn):
            ln = getattr(st, "lineno", None)
            if ln is None or ln >= at:
                continue
            v = None
            if isinstance(st, ast.Assign) and any(isinstance(x, ast.Name) and x.id == name for t in st.targets for x in ast.walk(t)):
                v = st.value
            elif isinstance(st, ast.NamedExpr) and st.target.id == name:
                v = st.value
            elif isinstance(st, (ast.For, ast.comprehension)) and any(isinstance(x, ast.Name) and x.id == name for x in ast.walk(st.target)):
                v = st.iter
            if v is not None and (best is None or ln > best[0]):
                best = (ln, v)
        return best

    helpers = restoration_helpers(py)

    def is_restored(fn, q: str, value: ast.AST, at: int) -> bool:
        if isinstance(value, ast.Call) and call_name(value).split(".")[-1] in helpers:
            return True          # restored on the spot: f(_restore(x))
        if isinstance(value, ast.IfExp):
            # `None if x is None else restore(x)`: the constant branch has nothing to restore
            branches = [b for b in (value.body, value.orelse) if not isinstance(b, ast.Constant)]
            return bool(branches) and all(is_restored(fn, q, b, at) for b in branches)
        seen: Set[str] = set()
        todo = [(n.id, at) for n in ast.walk(value) if isinstance(n, ast.Name)]
        while todo:
            nm, ln = todo.pop()
            if nm in seen or len(seen) > 40:
                continue
            seen.add(nm)
            if any(nm == r and rl < at for r, rl in restored.get(q, [])):
                return True
            d = closest_def(fn, nm, ln)
            if d is not None:
                todo += [(n.id, d[0]) for n in ast.walk(d[1]) if isinstance(n, ast.Name)]
        return False

    n = 0
    # (a) PARAMETER statement: what is stored in param_dict
    fn = py.ifunc("FortranContainer.__init__")
    q = py.qualname(fn)
    for st in ast.walk(fn):
        if isinstance(st, ast.Assign) and any(isinstance(t, ast.Subscript) and ast.unparse(t.value) == "self.param_dict" for t in st.targets):
            n += 1
            ok = is_restored(fn, q, st.value, st.lineno)
            rep.ob("PARAMETER statement: the stored value has its literals put back", ok,
                   "restored before it is stored" if ok else
                   f"`{ast.unparse(st)[:70]}` stores the masked text: `parameter (s = 'ab,cd')` is documented with the initial value \"0\"",
                   py.nloc(st), nontrivial=not ok)
    # (b) attributes written inline in a declaration
    lv = py.ifunc("sourceform.line_to_variables")      # canonical form: the attribute classification may live in a helper
    q = py.qualname(lv)
    for c in py.walk_calls(lv):
        if isinstance(c.func, ast.Attribute) and c.func.attr == "append" and isinstance(c.func.value, ast.Name) and c.args:
            lst = c.func.value.id
            lsts = forward_aliases(lv, lst, 0)
            # is this list handed to the variable constructor (possibly under another name)?
            used = any(isinstance(k, ast.Call) and call_name(k) == "FortranVariable" and any(
                isinstance(x, ast.Name) and x.id in lsts for a in k.args + [kw.value for kw in k.keywords] for x in ast.walk(a))
                for k in py.walk_calls(lv))
            if not used:
                continue
            n += 1
            ok = is_restored(lv, q, c.args[0], c.lineno)
            rep.ob("declaration attributes have their literals put back", ok,
                   "restored before the attribute is kept" if ok else
                   f"`{ast.unparse(c)[:60]}` keeps the masked attribute text: `integer, bind(C, name=\"my_var\") :: iv` is documented as "
                   f"`bind(C, name=\"0\")`", py.nloc(c), nontrivial=not ok)
    # (c) kind and length selectors: what parse_type hands back
    pt = py.ifunc("sourceform.parse_type")
    q = py.qualname(pt)
    m = 0
    for r in ast.walk(pt):
        if isinstance(r, ast.Return) and isinstance(r.value, ast.Call) and py.enclosing_function(r) is pt:
            for kw in r.value.keywords:
                if kw.arg in ("kind", "strlen") and not isinstance(kw.value, ast.Constant):
                    m += 1
                    ok = is_restored(pt, q, kw.value, r.lineno)
                    rep.ob(f"parse_type returns `{kw.arg}` with its literals put back (`{ast.unparse(kw.value)[:30]}`)", ok,
                           "restored before it is returned" if ok else
                           f"`{ast.unparse(r)[:70]}` hands back the masked selector: `character(len=len('abc'))` is documented as "
                           f"`len=len(\"0\")`", py.nloc(r), nontrivial=True)
    if m < 3:
        raise AnalysisError(f"parse_type: only {m} returned kind/strlen selectors found")
    # (d) the declared entity itself: its array specification is cut out of the name by the constructor
    for k in py.walk_calls(lv):
        if call_name(k) == "FortranVariable" and k.args:
            n += 1
            q = py.qualname(lv)
            ok = is_restored(lv, q, k.args[0], k.lineno)
            rep.ob("the declared entity (name and array specification) has its literals put back", ok,
                   "restored before the variable is constructed" if ok else
                   f"`FortranVariable({ast.unparse(k.args[0])}, ...)` receives the masked declarator: `integer :: v(len('abc'))` is "
                   f"documented with the dimension `(len(\"0\"))`", py.nloc(k), nontrivial=not ok)
    if n < 2:
        raise AnalysisError("PARAMETER-statement store or inline attribute store not found")

def r12_sub_templates(ctx, rep):
    """see C02.R9: a literal restored through an unescaped replacement template is not shown literally"""
    from . import c02
    c02.r9_sub_templates(ctx, rep)


def r13_restoration_cursor(ctx, rep):
    """every placeholder is restored: the restoring loop's cursor lands right behind the text it inserted (shared with
    C02.R6 / C20.R4)"""
    from . import c20
    c20.r4_cursor_progress(ctx, rep)


def r14_selector_slots(ctx, rep):
    """`character(80, 4)`: positional selectors fill len, then kind; no slot is overwritten (shared with C01.R5)"""
    from . import c01
    c01.r5_character_slots(ctx, rep)


ARRAY_SPEC_KEYWORDS = {"dimension", "allocatable", "pointer", "target", "codimension", "contiguous", "volatile", "asynchronous",
                       "save", "protected", "value", "optional"}


def r15_array_spec_attributes(ctx, rep):
    """An attribute given in a statement of its own arrives as text: `allocatable(:)` (from `allocatable :: x(:)`), but also
    `bind(c,name='n')`, `intent(in)`, `codimension[*]`.  Only for the attributes that can carry an array specification may the
    parenthesised part be split off as the variable's dimension; taking every `word(...)` for one shows `bind` as an attribute
    and `(c,name='n')` as the shape.  The branch that stores `<var>.dimension` from attribute text therefore tests the keyword."""
    py = ctx.py
    fn = py.func("FortranCodeUnit.process_attribs")
    ev = astq.trace(fn)
    stores = [e for e in ev if e.kind == "assign" and e.target and e.target.endswith(".dimension") and e.value is not None]
    if not stores:
        raise AnalysisError("process_attribs: no assignment to <var>.dimension")
    for e in stores:
        words = {c.value for t, pol, _s in e.conds if pol for c in ast.walk(t)
                 if isinstance(c, ast.Constant) and isinstance(c.value, str) and c.value.strip("( ").lower() in ARRAY_SPEC_KEYWORDS}
        ok = bool(words)
        rep.ob(f"process_attribs: `{e.text()[:50]}` only for attributes that take an array specification", ok,
               f"restricted to {sorted(words)}" if ok else
               f"every attribute of the form `word(...)` is split into an attribute and a dimension ({e.cond_texts()[-2:]}): "
               f"`bind(c,name='n') :: z` documents z with the attribute `bind` and the shape `(c,name='n')`", py.nloc(e.node))


def r16_literal_rewrites_keep_length(ctx, rep):
    """Where a restored literal is prepared for display its characters may be exchanged (a blank for a no-break space, so that HTML
    does not squeeze runs of blanks) but none may be dropped: a substitution applied to the literal inside a restoration helper
    replaces matches of a fixed width by text of that same width.  `re.sub(r" {2,}", "\xa0", text)` turns any run into one
    character - `'x    y'` is shown as `'x y'`."""
    import re._parser as sre
    py = ctx.py
    helpers = restoration_helpers(py)
    if not helpers:
        raise AnalysisError("no restoration helper found")
    rxs = {k.split(".")[-1]: v for k, v in ctx.regexes.items() if v[3] == "sourceform"}
    n = 0
    for h in sorted(helpers):
        fn = py.func(f"sourceform.{h}")
        for c in py.walk_calls(fn):
            if not (isinstance(c.func, ast.Attribute) and c.func.attr == "sub" and len(c.args) >= 2 and isinstance(c.args[0], ast.Constant)
                    and isinstance(c.args[0].value, str)):
                continue
            name = ast.unparse(c.func.value).split(".")[-1]
            if name not in rxs or name == "QUOTES_RE":
                continue
            n += 1
            pat, flags = rxs[name][0], rxs[name][1]
            lo, hi = sre.parse(pat, flags).getwidth()
            k = len(c.args[0].value)
            ok = lo == hi == k
            rep.ob(f"{h}: `{ast.unparse(c)[:50]}` keeps the length of the literal", ok,
                   f"{name} matches exactly {k} character(s), replaced by {k}" if ok else
                   f"{name} (`{pat}`) matches between {lo} and {'any number of' if hi > 1000 else hi} characters and each match is replaced "
                   f"by {k}: characters of the literal are dropped from what is displayed", py.nloc(c))
    if n == 0:
        rep.ob("restoration helpers do not rewrite the literal", True, "no substitution inside the helpers", "ford/sourceform.py", nontrivial=False)


def r17_card_layout(ctx, rep):
    """trailing comments are found behind complete literals (shared with C14.R1)"""
    from . import c14
    c14.r1_columns(ctx, rep)


def r18_order_bearing_collections(ctx, rep):
    """dummy arguments keep their declared order (shared with C01.R6)"""
    from . import c01
    c01.r6_order_bearing_collections(ctx, rep)


RULES = [
    RuleSpec("C18.R5", r5_selector_regexes, "kind/len selector regexes capture the whole expression", floor=2),
    RuleSpec("C18.R4", r4_literals_and_argument_attributes, "literal case is preserved; argument attributes are complete", floor=3),
    RuleSpec("C18.R1a", r1_sources, "literal re-insertion sites are the tracked sources; no autoescape", floor=2),
    RuleSpec("C18.R1", r1_sinks, "literal-bearing text is escaped at every template sink", floor=5),
    RuleSpec("C18.R2", r2_no_transform_after_restore, "no transformation after literals are re-inserted", floor=2),
    RuleSpec("C18.R3", r3_heading, "procedure heading assembly", floor=7),
    RuleSpec("C18.R6", r6_relurl_plain_text, "relurl rewrites links and absolute paths only", floor=1),
    RuleSpec("C18.R7", r7_pure_properties, "display properties are free of side effects", floor=8),
    RuleSpec("C18.R9", r9_html_properties_escape, "HTML-valued declaration properties escape the text they embed", floor=2),
    RuleSpec("C18.R10", r10_initial_value_is_whole, "the initial value is everything after the first `=`", floor=1),
    RuleSpec("C18.R11", r11_displayed_text_is_unmasked, "text kept for display has its literals put back", floor=2),
    RuleSpec("C18.R8", r8_literal_continuation, "continued literals keep their blanks (shared with C02.R5)", floor=3),
    RuleSpec("C18.R12", r12_sub_templates, "restored literals survive the replacement template (shared with C02.R9)", floor=5),
    RuleSpec("C18.R13", r13_restoration_cursor, "the restoring loop advances past what it inserted (shared with C20.R4)", floor=2),
    RuleSpec("C18.R14", r14_selector_slots, "character selector slots are filled at most once (shared with C01.R5)", floor=2),
    RuleSpec("C18.R15", r15_array_spec_attributes, "only array-spec attributes are split into attribute and dimension", floor=1),
    RuleSpec("C18.R16", r16_literal_rewrites_keep_length, "substitutions on a restored literal keep its length", floor=1),
    RuleSpec("C18.R17", r17_card_layout, "trailing comments are found behind complete literals (shared with C14.R1)", floor=1),
    RuleSpec("C18.R18", r18_order_bearing_collections, "dummy arguments keep their declared order (shared with C01.R6)", floor=1),
]
