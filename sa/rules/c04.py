"""C04 — accessibility of every entity follows Fortran's PUBLIC/PRIVATE rules (structural clauses)."""
from __future__ import annotations

import ast
import re
from typing import Dict, List, Optional, Set, Tuple

from ..core import AnalysisError, RuleSpec
from ..pymodel import call_name

EXPLANATION = (
    "Rules on the extracted model of the statement-dispatch loop (E5) and on the attribute "
    "processing code. R1: the permission argument each arm passes to the child constructor is the "
    "one Fortran prescribes (variables/components and type-bound procedures <- the tracked child "
    "default; types, interfaces, enums, procedures, namelists, module-procedure implementations <- "
    "the unit default; common blocks <- public), the child default starts public inside a type and "
    "is reset at CONTAINS, a bare access statement inside a type does not change the type's own "
    "accessibility, submodules start private. R2: declaration attributes cover "
    "{public, private, protected} for variables and {public, private} for types and bindings. R3: "
    "access statements are order independent: the ATTRIB arm only records into attr_dict, "
    "process_attribs is reached from _cleanup of every class owning attr_dict, iterates entities (not "
    "names) over the same lists public_list uses. R4: the scope default must not be read by a "
    "constructor arm before the specification part is complete (violated today: known finding). R5: "
    "interface procedures take the interface's permission and constructors the type's. The full "
    "product space on real programs is not decided."
)
ASSUMPTIONS = ["the dispatch loop has the shape recognised by sa/cascade.py (else ANALYSIS-ERROR)"]

EXPECTED_PERM = {
    "FortranVariable": "child_permission",
    "FortranBoundProcedure": "child_permission",
    "FortranType": "self.permission",
    "FortranInterface": "self.permission",
    "FortranEnum": "self.permission",
    "FortranSubroutine": "self.permission",
    "FortranFunction": "self.permission",
    "FortranNamelist": "self.permission",
    "FortranModuleProcedureImplementation": "self.permission",
    "FortranCommon": "'public'",
    "FortranModule": None, "FortranSubmodule": None, "FortranProgram": None, "FortranBlockData": None,
    "FortranFinalProc": None,
    "FortranModuleProcedureReference": None,   # get_mod_procs passes parent.permission (checked below)
}


def r1_plumbing(ctx, rep):
    py, cs = ctx.py, ctx.cascade
    for arm in cs.arms:
        for k, c in enumerate(arm.constructs):
            if c.cls not in EXPECTED_PERM:
                raise AnalysisError(f"constructor {c.cls} in arm {arm.name} has no expected permission entry")
            want = EXPECTED_PERM[c.cls]
            ok = c.perm == want
            rep.ob(f"arm={arm.name} constructs {c.cls}#{k} permission", ok,
                   (f"{c.cls} receives {c.perm or 'the default (public)'}" if ok else
                    f"{c.cls} is constructed with permission `{c.perm}` but must receive `{want}` "
                    f"({'the tracked default for components/bindings' if want == 'child_permission' else 'the scope default'}): "
                    f"entities of this kind get the wrong accessibility when the two differ"),
                   py.nloc(c.node))
    # get_mod_procs passes the interface's permission
    g = py.func("sourceform.get_mod_procs")
    ok = "FortranModuleProcedureReference(item, parent, parent.permission)" in ast.unparse(g)
    rep.ob("get_mod_procs passes parent.permission", ok, "", py.nloc(g))
    # initial child_permission
    init = [st for st in cs.fn.body if isinstance(st, ast.Assign) and ast.unparse(st.targets[0]) == "child_permission"]
    ok = len(init) == 1 and ast.unparse(init[0].value).replace('"', "'") == \
        "'public' if isinstance(self, FortranType) else self.permission"
    rep.ob("child default starts public in a type, scope default elsewhere", ok,
           "child_permission = 'public' if isinstance(self, FortranType) else self.permission" if ok else
           f"initial child default is `{ast.unparse(init[0].value) if init else '?'}`", py.nloc(init[0]) if init else py.nloc(cs.fn))
    sub = [st for st in cs.fn.body if isinstance(st, ast.If) and "FortranSubmodule" in ast.unparse(st.test)]
    ok = bool(sub) and "self.permission = 'private'" in ast.unparse(sub[0])
    rep.ob("submodules start private", ok, "", py.nloc(sub[0]) if sub else py.nloc(cs.fn))
    # contains arm resets the child default for types
    a = cs.arm_by_literal("contains")
    t = ast.unparse(ast.Module(body=a.body, type_ignores=[]))
    ok = re.search(r"if isinstance\(self, FortranType\):\s+child_permission = 'public'", t) is not None
    rep.ob("CONTAINS resets the binding default to public in a type", ok,
           "the component default does not leak into the type-bound procedure part" if ok else
           "the child default is not reset at CONTAINS: a bare PRIVATE among the components makes bindings private",
           py.nloc(a.test))
    # bare access statement
    b = cs.arm_by_literal("private")
    t = ast.unparse(ast.Module(body=b.body, type_ignores=[]))
    ok = set(b.literals) == {"public", "private", "protected"} and "child_permission = line_lower" in t and \
        re.search(r"if not isinstance\(self, FortranType\):\s+self\.permission = line_lower", t) is not None
    rep.ob("bare access statement sets the child default (and the unit default outside types)", ok,
           "inside a type only the component/binding default changes" if ok else
           "bare access statement handling changed", py.nloc(b.test))


def r2_declaration_attributes(ctx, rep):
    py = ctx.py

    def const_sets(fn, varname_pat):
        out = []
        for n in ast.walk(fn):
            if isinstance(n, ast.Compare) and len(n.ops) == 1 and isinstance(n.ops[0], ast.In) and \
                    isinstance(n.comparators[0], (ast.List, ast.Tuple)) and re.search(varname_pat, ast.unparse(n.left)):
                vals = {e.value for e in n.comparators[0].elts if isinstance(e, ast.Constant)}
                if vals & {"public", "private"}:
                    out.append((vals, n))
        return out

    for q, pat, want in (("sourceform.line_to_variables", r"tmp_attrib_lower", {"public", "private", "protected"}),
                         ("FortranType._initialize", r"attrib_lower", {"public", "private"}),
                         ("FortranBoundProcedure._initialize", r"attribute", {"public", "private"})):
        fn = py.func(q)
        sets = const_sets(fn, pat)
        if not sets:
            raise AnalysisError(f"{q}: access attribute test not found")
        vals, node = sets[0]
        ok = vals == want
        # and the branch assigns the permission
        par = py.parents[node]
        assigns = isinstance(par, ast.If) and re.search(r"permission = ", ast.unparse(ast.Module(body=par.body, type_ignores=[])))
        rep.ob(f"{q} access attributes", ok and bool(assigns),
               f"recognises {sorted(vals)} and assigns the permission" if ok and assigns else
               f"recognises {sorted(vals)} (expected {sorted(want)})", py.nloc(node))
        # the compared text is normalised: lower-cased and free of surrounding blanks
        var = ast.unparse(node.left)
        defs = [ast.unparse(n.value) for n in ast.walk(fn) if isinstance(n, ast.Assign)
                and ast.unparse(n.targets[0]) == var]
        norm = any(".lower()" in d and (".strip()" in d or ".replace(' ', '')" in d) for d in defs)
        rep.ob(f"{q}: attribute text is stripped and lower-cased before the test", norm,
               f"{var} = {defs[0] if defs else '?'}" if norm else
               f"`{var}` is defined as {defs}: an attribute written after a comma and a blank (`type, abstract, private :: t`) "
               f"keeps the blank and no longer equals 'private'", py.nloc(node))
    # lowered + blanks removed before the test in line_to_variables
    fn = py.func("sourceform.line_to_variables")
    ok = "tmp_attrib.lower().replace(' ', '')" in ast.unparse(fn)
    rep.ob("line_to_variables lower-cases attributes before comparing", ok, "", py.nloc(fn))


ATTR_LISTS = ["functions", "subroutines", "types", "interfaces", "absinterfaces"]


def r3_access_statements(ctx, rep):
    py, cs = ctx.py, ctx.cascade
    a = cs.arm_by_regex("ATTRIB_RE")
    body = ast.Module(body=a.body, type_ignores=[])
    writes_perm = [n for n in ast.walk(body) if isinstance(n, ast.Attribute) and n.attr == "permission"
                   and isinstance(n.ctx, ast.Store)]
    records = [c for c in py.walk_calls(body) if re.fullmatch(r"self\.attr_dict\[\w+\]\.append", ast.unparse(c.func))]
    ok = not writes_perm and bool(records)
    rep.ob("ATTRIB arm only records into attr_dict", ok,
           "no permission is assigned while reading the statement; application is deferred" if ok else
           "the ATTRIB arm assigns permissions directly: an access statement before the declaration is lost",
           py.nloc(a.test))
    ok = "name.strip().lower()" in ast.unparse(body)
    rep.ob("ATTRIB arm lower-cases recorded names", ok, "", py.nloc(a.test))
    # every class owning attr_dict reaches process_attribs from _cleanup
    owners = [c for c in py.classes if not c.startswith("External") and "attr_dict" in py.init_attrs(c)]
    concrete = [c for c in owners if any(isinstance(n, ast.Call) and isinstance(n.func, ast.Name) and n.func.id == c
                                         for t in py.modules.values() for n in ast.walk(t))]
    if len(concrete) < 5:
        raise AnalysisError("classes owning attr_dict not found")
    for c in sorted(concrete):
        r = py.resolve_method(c, "_cleanup")
        reached = False
        seen = 0
        while r and seen < 6:
            owner, fn = r
            t = ast.unparse(fn)
            if "self.process_attribs()" in t:
                reached = True
                break
            r = py.resolve_method(c, "_cleanup", after=owner) if "super()._cleanup()" in t else None
            seen += 1
        rep.ob(f"{c}._cleanup reaches process_attribs", reached,
               "recorded access statements are applied when the unit ends" if reached else
               f"{c} records access statements but its _cleanup never calls process_attribs", py.nloc(py.resolve_method(c, "_cleanup")[1]))
    # FortranProcedure._cleanup: attributes are applied before dummy arguments leave `variables`
    fp = py.func("FortranProcedure._cleanup")
    first = [s for s in fp.body if not (isinstance(s, ast.Expr) and isinstance(s.value, ast.Constant))][0]
    ok = "super()._cleanup()" in ast.unparse(first)
    rep.ob("FortranProcedure._cleanup applies attribute statements before matching arguments", ok,
           "super()._cleanup() (process_attribs) runs while dummy arguments are still in self.variables" if ok else
           "dummy arguments are removed from self.variables before process_attribs runs: attribute statements "
           "naming a dummy argument (intent(in) :: n) are silently dropped", py.nloc(fp))
    # process_attribs iterates entities, same lists as public_list
    pa = py.func("FortranCodeUnit.process_attribs")
    loops = [n for n in pa.body if isinstance(n, ast.For)]
    ent_loop = [n for n in loops if "self.iterator(" in ast.unparse(n.iter)]
    ok = bool(ent_loop) and "self.attr_dict[item.name.lower()]" in ast.unparse(ent_loop[0])
    collapsed = [n for n in ast.walk(pa) if isinstance(n, ast.DictComp) and ".name.lower()" in ast.unparse(n.key)
                 and "iterator(" in ast.unparse(n)]
    rep.ob("process_attribs iterates entities and looks attributes up by their name", ok and not collapsed,
           "every entity of every list is visited, so a type and its same-named constructor interface both receive "
           "the access statement" if ok and not collapsed else
           "entities are first collapsed into a name -> entity mapping: a derived type and the generic interface "
           "of the same name share one key and only one of them receives the access statement", py.nloc(pa))
    if ent_loop:
        lists = [a.value for c in py.walk_calls(ent_loop[0].iter) for a in c.args if isinstance(a, ast.Constant)]
        ok = lists == ATTR_LISTS
        rep.ob("process_attribs entity lists (types before interfaces)", ok, f"iterates {lists}", py.nloc(ent_loop[0]))
        pl = [n for n in ast.walk(pa) if isinstance(n, ast.Assign) and ast.unparse(n.targets[0]) == "self.public_list"]
        pl_lists = [a.value for c in py.walk_calls(pl[0].value) if call_name(c) == "self.iterator"
                    for a in c.args if isinstance(a, ast.Constant)] if pl else []
        ok = set(pl_lists) == set(lists) | {"variables"}
        rep.ob("public_list iterates the same lists plus variables", ok, f"public_list from {pl_lists}", py.nloc(pa))
        t = ast.unparse(pl[0].value) if pl else ""
        ok = "item.permission == 'public'" in t and "'public' in attr" in t
        rep.ob("public_list = public entities + leftover names declared public (re-export)", ok, "", py.nloc(pa))
    var_loop = [n for n in loops if ast.unparse(n.iter) == "self.variables"]
    ok = bool(var_loop) and "self.attr_dict[var.name.lower()]" in ast.unparse(var_loop[0]) and \
        "var.permission = attr" in ast.unparse(var_loop[0])
    rep.ob("process_attribs applies access statements to variables", ok, "", py.nloc(pa))


def r4_order_sensitivity(ctx, rep):
    py, cs = ctx.py, ctx.cascade
    writer = cs.arm_by_literal("private")
    readers = []
    for a in cs.arms:
        for c in a.constructs:
            if c.perm == "self.permission":
                readers.append((a, c))
    if "self.permission" not in writer.writes:
        rep.ob("bare access statement updates self.permission after earlier declarations were constructed", True,
               "the unit default is not changed inside the loop", py.nloc(writer.test))
        return
    # is there a mechanism that re-applies the final default to already constructed children?
    reapplied = False
    for c in py.subclasses("FortranCodeUnit"):
        r = py.resolve_method(c, "_cleanup")
        if r and re.search(r"\.permission = self\.permission", ast.unparse(r[1])):
            reapplied = True
    rep.ob("bare access statement updates self.permission after earlier declarations were constructed", reapplied,
           ("children constructed earlier are updated with the final default in _cleanup" if reapplied else
            f"self.permission is written by the bare PUBLIC/PRIVATE arm and read by {len(readers)} constructor arms "
            f"({', '.join(sorted({a.name for a, _ in readers}))}) at construction time: entities declared before a "
            f"bare `private` keep the old default, although Fortran applies the statement to the whole scope"),
           py.nloc(writer.test))
    rep.stats["arms_reading_scope_default"] = len(readers)


def r5_interface_and_constructor(ctx, rep):
    py = ctx.py
    if not py.has_func("FortranProcedure.permission"):
        # the delegating property is gone: is the interface's permission propagated some other way?
        pa = ast.unparse(py.func("FortranCodeUnit.process_attribs"))
        alt = "item.procedure.permission = attr" in pa
        rep.ob("interface procedures take the interface's permission", alt,
               "process_attribs propagates access statements to the wrapped procedure" if alt else
               "FortranProcedure.permission is no longer a property delegating to the enclosing (non-generic) interface: "
               "an access statement naming an abstract interface / interface body changes the wrapper only and the "
               "procedure keeps the scope default", py.nloc(py.cls("FortranProcedure").node))
    else:
        p = py.func("FortranProcedure.permission")
        t = ast.unparse(p)
        ok = "if self.is_interface_procedure" in t and "return self.parent.permission" in t and "return self._permission" in t
        rep.ob("interface procedures take the interface's permission", ok, "", py.nloc(p))
    ip = py.func("FortranProcedure.is_interface_procedure")
    ok = "isinstance(self.parent, FortranInterface) and (not self.parent.generic)" in ast.unparse(ip)
    rep.ob("is_interface_procedure = parent is a non-generic interface", ok, "", py.nloc(ip))
    tc = py.func("FortranType.correlate")
    ok = "self.constructor.permission = self.permission" in ast.unparse(tc)
    rep.ob("structure constructor takes the type's permission", ok, "", py.nloc(tc))
    fb = py.func("FortranBase.__init__")
    ok = "self.permission = inherited_permission.lower()" in ast.unparse(fb)
    rep.ob("inherited permission stored lower-case", ok, "", py.nloc(fb))


RULES = [
    RuleSpec("C04.R1", r1_plumbing, "permission plumbing table", floor=18),
    RuleSpec("C04.R2", r2_declaration_attributes, "declaration access attributes", floor=4),
    RuleSpec("C04.R3", r3_access_statements, "access statements are order independent", floor=12),
    RuleSpec("C04.R4", r4_order_sensitivity, "scope default not read before the specification part is complete", floor=1),
    RuleSpec("C04.R5", r5_interface_and_constructor, "interface procedures and constructors", floor=4),
]
