"""C04 — accessibility of every entity follows Fortran's PUBLIC/PRIVATE rules (structural clauses)."""
from __future__ import annotations

import ast
import re
from typing import Dict, List, Optional, Set, Tuple

from ..core import AnalysisError, RuleSpec
from . import common
from ..pymodel import call_name, PyModel
from .. import astq

EXPLANATION = (
    "Rules on the extracted model of the statement-dispatch loop (E5) and on the attribute "
    "processing code. R1: the permission argument each arm passes to the child constructor is the "
    "one Fortran prescribes (variables/components and type-bound procedures <- the tracked child "
    "default; types, interfaces, enums, procedures, namelists, module-procedure implementations <- "
    "the unit default; common blocks <- public), the child default starts public inside a type and "
    "is reset at CONTAINS, a bare access statement inside a type does not change the type's own "
    "accessibility, submodules start private. R2: declaration attributes cover "
    "{public, private, protected} for variables and {public, private} for types and bindings. R3: "
    "access statements are order independent: the ATTRIB arm only records into attr_dict, "
    "process_attribs is reached from _cleanup of every class owning attr_dict, iterates entities (not "
    "names) over the same lists public_list uses. R4: the scope default must not be read by a "
    "constructor arm before the specification part is complete (violated today: known finding). R5: "
    "interface procedures take the interface's permission and constructors the type's. The full "
    "product space on real programs is not decided."
    " Added after waves 6/7 - entity names are stored spelled like the keys of the access-statement table; a constructor stores the accessibility it is given (listed finding: blanks inside generic specs)."
)
ASSUMPTIONS = ["the dispatch loop has the shape recognised by sa/cascade.py (else ANALYSIS-ERROR)"]

EXPECTED_PERM = {
    "FortranVariable": "child_permission",
    "FortranBoundProcedure": "child_permission",
    "FortranType": "self.permission",
    "FortranInterface": "self.permission",
    "FortranEnum": "self.permission",
    "FortranSubroutine": "self.permission",
    "FortranFunction": "self.permission",
    "FortranNamelist": "self.permission",
    "FortranModuleProcedureImplementation": "self.permission",
    "FortranCommon": "'public'",
    "FortranModule": None, "FortranSubmodule": None, "FortranProgram": None, "FortranBlockData": None,
    "FortranFinalProc": None,
    "FortranModuleProcedureReference": None,   # get_mod_procs passes parent.permission (checked below)
}


def _type_ctx_value(py, cs, e, is_type: bool) -> Optional[bool]:
    """truth of one path condition of `e` in the context 'self is (not) a FortranType'; None = unrelated"""
    def ev(t: ast.AST) -> Optional[bool]:
        if isinstance(t, ast.UnaryOp) and isinstance(t.op, ast.Not):
            v = ev(t.operand)
            return None if v is None else not v
        if isinstance(t, ast.Call) and call_name(t) == "isinstance" and len(t.args) == 2 and ast.unparse(t.args[0]) == "self" \
                and ast.unparse(t.args[1]) == "FortranType":
            return is_type
        if isinstance(t, ast.Name):
            for _, v in astq.assignments(cs.fn, t.id):
                if v is not None:
                    r = ev(v)
                    if r is not None:
                        return r
        if isinstance(t, ast.BoolOp):
            vals = [ev(v) for v in t.values]
            if isinstance(t.op, ast.And):
                if any(v is False for v in vals):
                    return False
                return True if all(v is True for v in vals) else None
            if any(v is True for v in vals):
                return True
            return False if all(v is False for v in vals) else None
        return None
    return ev


def _feasible(py, cs, e, is_type: bool) -> bool:
    ev = _type_ctx_value(py, cs, e, is_type)
    for test, pol, _ in e.conds:
        v = ev(test)
        if v is not None and v != pol:
            return False
    return True


def _values(py, cs, events, target: str, is_type: bool) -> List[str]:
    """source texts assigned to `target` on the paths feasible in the given context (helper calls already inlined)"""
    out = []
    for e in events:
        if e.kind == "assign" and e.target == target and e.value is not None and _feasible(py, cs, e, is_type):
            if isinstance(e.value, ast.Call) and any(x.kind == "inline" and x.node is e.value for x in events):
                continue      # the inlined helper's returns are reported separately
            v = e.value
            while isinstance(v, ast.IfExp):
                tv = _type_ctx_value(py, cs, e, is_type)(v.test)
                if tv is None:
                    break
                v = v.body if tv else v.orelse
            out.append(ast.unparse(v).replace('"', "'"))
    return out


def r1_plumbing(ctx, rep):
    py, cs = ctx.py, ctx.cascade
    res = astq.class_method_resolver(py, "FortranContainer", "sourceform")
    # the tracked child default: the local that the bare access arm assigns
    b = cs.arm_by_literal("private")
    bev = astq.trace_block(b.body, cs.fn, res)
    child_vars = sorted({e.target for e in bev if e.kind == "assign" and e.target in cs.carried})
    if len(child_vars) != 1:
        # several loop-carried names are assigned (e.g. a diagnostic flag): the child default is the one that the
        # constructor arms hand to the entities they create
        handed = {c.perm for a in cs.arms for c in a.constructs if c.perm}
        child_vars = [v for v in child_vars if v in handed]
    if len(child_vars) != 1:
        raise AnalysisError(f"bare access arm: the tracked child default was not identified ({child_vars})")
    child = child_vars[0]
    for arm in cs.arms:
        for k, c in enumerate(arm.constructs):
            if c.cls not in EXPECTED_PERM:
                raise AnalysisError(f"constructor {c.cls} in arm {arm.name} has no expected permission entry")
            want = EXPECTED_PERM[c.cls]
            want = child if want == "child_permission" else want
            ok = (c.perm.replace('"', "'") if c.perm else c.perm) == want
            rep.ob(f"arm={arm.name} constructs {c.cls}#{k} permission", ok,
                   (f"{c.cls} receives {c.perm or 'the default (public)'}" if ok else
                    f"{c.cls} is constructed with permission `{c.perm}` but must receive `{want}` "
                    f"({'the tracked default for components/bindings' if want == child else 'the scope default'}): "
                    f"entities of this kind get the wrong accessibility when the two differ"),
                   py.nloc(c.node))
    # get_mod_procs passes the interface's permission
    g = py.func("sourceform.get_mod_procs")
    ctor = [c for c in py.walk_calls(g) if call_name(c) == "FortranModuleProcedureReference"]
    init = py.func("FortranModuleProcedureReference.__init__")
    ok = False
    if ctor:
        arg = astq.bind_args(ctor[0], init, skip_self=True).get("inherited_permission", ast.Constant(value=None))
        alts = [arg] + astq.expand_locals(arg, g)
        from_parent = any(ast.unparse(a).endswith(".permission") for a in alts)
        # an optional parameter that overrides it is fine as long as no caller uses it
        params = {a.arg for a in g.args.args + g.args.kwonlyargs}
        callers = [c for _m, f2 in py.all_functions() for c in py.walk_calls(f2) if call_name(c).split(".")[-1] == g.name]
        # (a local that only carries the value - `perm = parent.permission` - is not a source of its own)
        carriers = {a.id for a in alts if isinstance(a, ast.Name) and a.id not in params and
                    any(v is not None for _t, v in astq.assignments(g, a.id))}
        others = [a for a in alts if not ast.unparse(a).endswith(".permission") and not (isinstance(a, ast.Name) and a.id in carriers)]
        unused_override = all(isinstance(a, ast.Name) and a.id in params and not any(
            astq.bind_args(c, g).get(a.id) is not None for c in callers) for a in others)
        ok = from_parent and unused_override
    rep.ob("get_mod_procs passes parent.permission", ok, "", py.nloc(g))
    # initial child default
    pre = cs.fn.body[:cs.fn.body.index(cs.loop)]
    pev = astq.trace_block(pre, cs.fn, res)
    vt, vn = _values(py, cs, pev, child, True), _values(py, cs, pev, child, False)
    ok = bool(vt) and bool(vn) and set(vt) == {"'public'"} and set(vn) == {"self.permission"}
    rep.ob("child default starts public in a type, scope default elsewhere", ok,
           f"{child} = 'public' in a type, self.permission elsewhere" if ok else
           f"initial child default is {vt} in a type and {vn} elsewhere", py.nloc(cs.loop))
    sub = [e for e in pev if e.kind == "assign" and e.target == "self.permission" and any("FortranSubmodule" in c and not c.startswith("not") for c in e.cond_texts())]
    ok = bool(sub) and ast.unparse(sub[0].value).replace('"', "'") == "'private'"
    if not sub:
        # ... or the submodule says so itself while it reads its own statement: `_initialize` runs from FortranBase.__init__,
        # after the inherited accessibility was stored and before any child is constructed
        r_ = py.resolve_method("FortranSubmodule", "_initialize")
        bi = [e for e in astq.trace(py.func("FortranBase.__init__")) if (e.kind == "assign" and e.target == "self.permission") or
              (e.kind == "call" and call_name(e.node) == "self._initialize")]
        order_ok = bool(bi) and bi[-1].kind == "call"
        if r_ is not None and r_[0] == "FortranSubmodule" and order_ok:
            own = [e for e in astq.trace(r_[1]) if e.kind == "assign" and e.target == "self.permission"]
            ok = bool(own) and not own[-1].conds and not own[-1].loops and ast.unparse(own[-1].value).replace('"', "'") == "'private'"
            sub = own
    rep.ob("submodules start private", ok, "", py.nloc(sub[0].node) if sub else py.nloc(cs.fn))
    # contains arm resets the child default for types
    a = cs.arm_by_literal("contains")
    aev = astq.trace_block(a.body, cs.fn, res)
    vt, vn = _values(py, cs, aev, child, True), _values(py, cs, aev, child, False)
    ok = bool(vt) and set(vt) == {"'public'"} and set(vn) <= {"self.permission", child}
    rep.ob("CONTAINS resets the binding default to public in a type", ok,
           "the component default does not leak into the type-bound procedure part" if ok else
           f"at CONTAINS the child default becomes {vt or 'unchanged'} in a type: a bare PRIVATE among the components makes "
           f"bindings private", py.nloc(a.test))
    # bare access statement
    vt, vn = _values(py, cs, bev, child, True), _values(py, cs, bev, child, False)
    pt, pn = _values(py, cs, bev, "self.permission", True), _values(py, cs, bev, "self.permission", False)
    lv = cs.lower_var
    ok = set(b.literals) == {"public", "private", "protected"} and set(vt) == {lv} and set(vn) == {lv} and not pt and set(pn) == {lv}
    rep.ob("bare access statement sets the child default (and the unit default outside types)", ok,
           "inside a type only the component/binding default changes" if ok else
           f"bare access statement: child default <- {vt} / {vn} (type / elsewhere), unit default <- {pt} / {pn}", py.nloc(b.test))


def r2_declaration_attributes(ctx, rep):
    py = ctx.py

    def access_tests(fn):
        """(values, compare node) of membership tests against a constant collection containing public/private"""
        out = []
        env = py.local_env(fn, "sourceform")
        for n in ast.walk(fn):
            if isinstance(n, ast.Compare) and len(n.ops) == 1 and isinstance(n.ops[0], ast.In):
                v = py.eval_const(n.comparators[0], env)
                if isinstance(v, (list, tuple, set, frozenset)) and {"public", "private"} <= set(v):
                    out.append((set(v), n))
        return out

    for q, want in (("sourceform.line_to_variables", {"public", "private", "protected"}),
                    ("FortranType._initialize", {"public", "private"}),
                    ("FortranBoundProcedure._initialize", {"public", "private"})):
        fn = py.ifunc(q)        # canonical form: a helper that classifies the attributes is part of the function
        sets = access_tests(fn)
        if not sets:
            raise AnalysisError(f"{q}: access attribute test not found")
        vals, node = sets[0]
        ok = vals == want
        # and the branch assigns the permission from the tested text
        ev = astq.trace(fn)
        tested = ast.unparse(node.left)
        assigns = [e for e in ev if e.kind == "assign" and e.target and astq.base_name(e.target.split(".")[-1]) == "permission" and e.value is not None
                   and any(ast.unparse(node) in c and not c.startswith("not") for c in e.cond_texts())]
        rep.ob(f"{q} access attributes", ok and bool(assigns),
               f"recognises {sorted(vals)} and assigns the permission" if ok and assigns else
               f"recognises {sorted(vals)} (expected {sorted(want)})", py.nloc(node))
        # the compared text is normalised: lower-cased and free of surrounding blanks
        exprs = astq.expand_locals(node.left, fn, depth=4)
        calls = {c.func.attr for e in exprs for c in ast.walk(e) if isinstance(c, ast.Call) and isinstance(c.func, ast.Attribute)}
        norm = bool(calls & {"lower", "casefold"}) and (bool(calls & {"strip"}) or any(
            isinstance(c, ast.Call) and isinstance(c.func, ast.Attribute) and c.func.attr == "replace" and [ast.unparse(a) for a in c.args] == ["' '", "''"]
            for e in exprs for c in ast.walk(e)))
        rep.ob(f"{q}: attribute text is stripped and lower-cased before the test", norm,
               f"{tested} is lower-cased and stripped" if norm else
               f"`{tested}` is defined as {[ast.unparse(e) for e in exprs[1:]]}: an attribute written after a comma and a blank "
               f"(`type, abstract, private :: t`) keeps the blank and no longer equals 'private'", py.nloc(node))


ATTR_LISTS = ["functions", "subroutines", "types", "interfaces", "absinterfaces"]


def r3_access_statements(ctx, rep):
    py, cs = ctx.py, ctx.cascade
    a = cs.arm_by_regex("ATTRIB_RE")
    body = ast.Module(body=a.body, type_ignores=[])
    writes_perm = [n for n in ast.walk(body) if isinstance(n, ast.Attribute) and n.attr == "permission"
                   and isinstance(n.ctx, ast.Store)]
    records = [c for c in py.walk_calls(body) if re.fullmatch(r"self\.attr_dict\[\w+\]\.append", ast.unparse(c.func))]
    ok = not writes_perm and bool(records)
    rep.ob("ATTRIB arm only records into attr_dict", ok,
           "no permission is assigned while reading the statement; application is deferred" if ok else
           "the ATTRIB arm assigns permissions directly: an access statement before the declaration is lost",
           py.nloc(a.test))
    fake = ast.FunctionDef(name="arm", args=cs.fn.args, body=a.body, decorator_list=[], lineno=0, col_offset=0)
    ok = bool(records) and all(any(isinstance(c, ast.Call) and isinstance(c.func, ast.Attribute) and c.func.attr in ("lower", "casefold")
                                   for e in astq.expand_locals(r.func.value.slice, fake) for c in ast.walk(e)) for r in records)
    rep.ob("ATTRIB arm lower-cases recorded names", ok, "", py.nloc(a.test))
    # every class owning attr_dict reaches process_attribs from _cleanup
    owners = [c for c in py.classes if not c.startswith("External") and "attr_dict" in py.init_attrs(c)]
    concrete = [c for c in owners if any(isinstance(n, ast.Call) and isinstance(n.func, ast.Name) and n.func.id == c
                                         for t in py.modules.values() for n in ast.walk(t))]
    if len(concrete) < 5:
        raise AnalysisError("classes owning attr_dict not found")

    def calls_super_cleanup(fn) -> bool:
        return any(isinstance(c, ast.Call) and isinstance(c.func, ast.Attribute) and c.func.attr == "_cleanup"
                   and isinstance(c.func.value, ast.Call) and call_name(c.func.value) == "super" for c in ast.walk(fn))

    for c in sorted(concrete):
        r = py.resolve_method(c, "_cleanup")
        reached = False
        seen = 0
        while r and seen < 6:
            owner, fn = r
            if any(isinstance(x, ast.Call) and call_name(x) == "self.process_attribs" for x in ast.walk(fn)):
                reached = True
                break
            r = py.resolve_method(c, "_cleanup", after=owner) if calls_super_cleanup(fn) else None
            seen += 1
        rep.ob(f"{c}._cleanup reaches process_attribs", reached,
               "recorded access statements are applied when the unit ends" if reached else
               f"{c} records access statements but its _cleanup never calls process_attribs", py.nloc(py.resolve_method(c, "_cleanup")[1]))
    # FortranProcedure._cleanup: attributes are applied before dummy arguments leave `variables`
    fp = py.func("FortranProcedure._cleanup")
    ev = astq.trace(fp)
    sup = [i for i, e in enumerate(ev) if e.kind == "call" and isinstance(e.node.func, ast.Attribute) and e.node.func.attr == "_cleanup"
           and isinstance(e.node.func.value, ast.Call) and call_name(e.node.func.value) == "super"]
    rem = [i for i, e in enumerate(ev) if (e.kind == "call" and call_name(e.node) in ("self.variables.remove", "self.variables.pop"))
           or (e.kind == "assign" and e.target == "self.variables")]
    ok = bool(sup) and (not rem or sup[0] < min(rem))
    rep.ob("FortranProcedure._cleanup applies attribute statements before matching arguments", ok,
           "super()._cleanup() (process_attribs) runs while dummy arguments are still in self.variables" if ok else
           "dummy arguments are removed from self.variables before process_attribs runs: attribute statements "
           "naming a dummy argument (intent(in) :: n) are silently dropped", py.nloc(fp))
    # process_attribs iterates entities, same lists as public_list
    pa = py.func("FortranCodeUnit.process_attribs")
    loops = [n for n in ast.walk(pa) if isinstance(n, ast.For)]
    ent_loop = [n for n in loops if isinstance(n.iter, ast.Call) and call_name(n.iter) == "self.iterator"]

    def looks_up_by_name(loop: ast.For) -> bool:
        v = ast.unparse(loop.target)

        def is_name_key(k: ast.AST) -> bool:
            # the key directly, or through a local bound to it (`key = var.name.lower()`)
            return any(f"{v}.name" in t and ".lower()" in t for t in (ast.unparse(x) for x in astq.expand_locals(k, pa)))
        for n in ast.walk(loop):
            if isinstance(n, ast.Subscript) and ast.unparse(n.value) == "self.attr_dict" and is_name_key(n.slice):
                return True
            if isinstance(n, ast.Call) and call_name(n) in ("self.attr_dict.get", "self.attr_dict.pop") and n.args \
                    and is_name_key(n.args[0]):
                return True
        return False
    ok = bool(ent_loop) and looks_up_by_name(ent_loop[0])
    collapsed = [n for n in ast.walk(pa) if isinstance(n, ast.DictComp) and ".name.lower()" in ast.unparse(n.key)
                 and "iterator(" in ast.unparse(n)]
    rep.ob("process_attribs iterates entities and looks attributes up by their name", ok and not collapsed,
           "every entity of every list is visited, so a type and its same-named constructor interface both receive "
           "the access statement" if ok and not collapsed else
           "entities are first collapsed into a name -> entity mapping: a derived type and the generic interface "
           "of the same name share one key and only one of them receives the access statement", py.nloc(pa))
    if ent_loop:
        # a derived type and the generic interface that overloads its constructor have the same name, and `public :: t` is meant
        # for both: the entry of a name must still be there when the second entity of that name is reached, i.e. it is not
        # removed (del / pop) inside the loop that walks the entities
        removed = [n for n in ast.walk(ent_loop[0])
                   if (isinstance(n, ast.Delete) and any("attr_dict" in ast.unparse(t) for t in n.targets))
                   or (isinstance(n, ast.Call) and call_name(n) in ("self.attr_dict.pop", "self.attr_dict.popitem", "self.attr_dict.clear"))]
        rep.ob("process_attribs: an access statement reaches every entity of that name", not removed,
               "entries are kept until all entities have been visited" if not removed else
               f"`{ast.unparse(removed[0])[:50]}` removes the name's entry while the entities are still being visited: after the type "
               f"`t` has taken `public :: t`, the constructor interface `t` finds nothing and keeps the default of the scope - in a "
               f"`private` module it is not exported, and `x = t(...)` in a using unit is not resolved",
               py.nloc(removed[0]) if removed else py.nloc(ent_loop[0]))
        lists = [x.value for x in ent_loop[0].iter.args if isinstance(x, ast.Constant)]
        ok = lists == ATTR_LISTS
        rep.ob("process_attribs entity lists (types before interfaces)", ok, f"iterates {lists}", py.nloc(ent_loop[0]))
        pl = [v for _, v in astq.assignments(pa, "self.public_list") if v is not None]
        pl_lists = [x.value for c in py.walk_calls(pl[0]) if call_name(c) == "self.iterator"
                    for x in c.args if isinstance(x, ast.Constant)] if pl else []
        ok = set(pl_lists) == set(lists) | {"variables"}
        rep.ob("public_list iterates the same lists plus variables", ok, f"public_list from {pl_lists}", py.nloc(pa))
        def is_public(c):
            return isinstance(c, ast.Constant) and c.value == "public"
        cmps = [c for c in ast.walk(pl[0]) if isinstance(c, ast.Compare) and len(c.ops) == 1] if pl else []
        ok = any(isinstance(c.ops[0], ast.Eq) and isinstance(c.left, ast.Attribute) and c.left.attr == "permission" and is_public(c.comparators[0])
                 for c in cmps) and any(isinstance(c.ops[0], ast.In) and is_public(c.left) for c in cmps)
        rep.ob("public_list = public entities + leftover names declared public (re-export)", ok, "", py.nloc(pa))
    var_loop = [n for n in loops if ast.unparse(n.iter) == "self.variables"]
    ok = bool(var_loop) and looks_up_by_name(var_loop[0]) and any(
        isinstance(x, ast.Assign) and ast.unparse(x.targets[0]) == f"{ast.unparse(var_loop[0].target)}.permission" for x in ast.walk(var_loop[0]))
    rep.ob("process_attribs applies access statements to variables", ok, "", py.nloc(pa))


def r4_order_sensitivity(ctx, rep):
    py, cs = ctx.py, ctx.cascade
    writer = cs.arm_by_literal("private")
    readers = []
    for a in cs.arms:
        for c in a.constructs:
            if c.perm == "self.permission":
                readers.append((a, c))
    if "self.permission" not in writer.writes:
        rep.ob("bare access statement updates self.permission after earlier declarations were constructed", True,
               "the unit default is not changed inside the loop", py.nloc(writer.test))
        return
    # is there a mechanism that re-applies the final default to already constructed children?
    reapplied = False
    for c in py.subclasses("FortranCodeUnit"):
        r = py.resolve_method(c, "_cleanup")
        if r and re.search(r"\.permission = self\.permission", ast.unparse(r[1])):
            reapplied = True
    rep.ob("bare access statement updates self.permission after earlier declarations were constructed", reapplied,
           ("children constructed earlier are updated with the final default in _cleanup" if reapplied else
            f"self.permission is written by the bare PUBLIC/PRIVATE arm and read by {len(readers)} constructor arms "
            f"({', '.join(sorted({a.name for a, _ in readers}))}) at construction time: entities declared before a "
            f"bare `private` keep the old default, although Fortran applies the statement to the whole scope"),
           py.nloc(writer.test))
    rep.stats["arms_reading_scope_default"] = len(readers)


def r5_interface_and_constructor(ctx, rep):
    py = ctx.py
    if not py.has_func("FortranProcedure.permission"):
        # the delegating property is gone: is the interface's permission propagated some other way?
        pa = ast.unparse(py.func("FortranCodeUnit.process_attribs"))
        alt = "item.procedure.permission = attr" in pa
        rep.ob("interface procedures take the interface's permission", alt,
               "process_attribs propagates access statements to the wrapped procedure" if alt else
               "FortranProcedure.permission is no longer a property delegating to the enclosing (non-generic) interface: "
               "an access statement naming an abstract interface / interface body changes the wrapper only and the "
               "procedure keeps the scope default", py.nloc(py.cls("FortranProcedure").node))
    else:
        p = py.func("FortranProcedure.permission")
        ev = astq.trace(p)
        rets = [e for e in ev if e.kind == "return" and e.value is not None]
        via_parent = [e for e in rets if ast.unparse(e.value).endswith("parent.permission")
                      and any("is_interface_procedure" in c and not c.startswith("not") for c in e.cond_texts())]
        own = [e for e in rets if ast.unparse(e.value) in ("self._permission",)]
        ok = bool(via_parent) and bool(own)
        rep.ob("interface procedures take the interface's permission", ok, "", py.nloc(p))
    ip = py.func("FortranProcedure.is_interface_procedure")
    rtxt = " ".join(ast.unparse(r) for r in astq.returns(ip))
    ok = "isinstance(self.parent, FortranInterface)" in rtxt and "not self.parent.generic" in rtxt and " and " in rtxt
    rep.ob("is_interface_procedure = parent is a non-generic interface", ok, "", py.nloc(ip))
    tc = py.func("FortranType.correlate")
    asg = [v for _, v in astq.assignments(tc, "self.constructor.permission") if v is not None]
    ok = bool(asg) and all(ast.unparse(v) == "self.permission" for v in asg)
    rep.ob("structure constructor takes the type's permission", ok, "", py.nloc(tc))
    fb = py.func("FortranBase.__init__")
    asg = [v for _, v in astq.assignments(fb, "self.permission") if v is not None]
    ok = bool(asg) and all(any(isinstance(c, ast.Call) and isinstance(c.func, ast.Attribute) and c.func.attr in ("lower", "casefold")
                               and "inherited_permission" in ast.unparse(c.func.value) for c in ast.walk(v)) for v in asg)
    rep.ob("inherited permission stored lower-case", ok, "", py.nloc(fb))



def r6_memo(ctx, rep):
    """a cache on the declaration path must not store anything that depends on the enclosing scope (e.g. the inherited
    default accessibility) unless the scope is part of the key"""
    n = common.memo_soundness(ctx, rep, modules=("sourceform", "utils", "reader"))
    if n == 0:
        rep.ob("no cache on the declaration path", True, "nothing to check", "ford/sourceform.py", nontrivial=False)


_REWRITERS = {"join", "replace", "sub", "translate", "upper", "title", "capitalize", "swapcase", "removeprefix", "removesuffix",
              "format", "expandtabs", "center", "ljust", "rjust", "zfill"}


def r7_names_and_given_permission(ctx, rep):
    """(a) An access statement reaches its entity through a table keyed by the *text of the statement* (stripped, lower-cased)
    and looked up with `entity.name.lower()`.  Both sides have to spell the name alike: a constructor that rewrites the name it
    stores (blanks removed, characters replaced) without the same rewriting on the key side makes `public :: operator (+)`
    miss `interface operator (+)`.  (b) A constructor that receives the accessibility as a parameter stores what it was given -
    the default of the enclosing scope arrives that way - and does not replace it by a constant."""
    py = ctx.py
    init = py.ifunc("FortranContainer.__init__")
    key_side: Set[str] = set()
    nkeys = 0
    for st in ast.walk(init):
        for sub in ast.walk(st) if isinstance(st, (ast.Assign, ast.AugAssign, ast.Expr)) else []:
            if isinstance(sub, ast.Subscript) and isinstance(sub.value, ast.Attribute) and sub.value.attr == "attr_dict":
                nkeys += 1
                for e in [sub.slice] + astq.expand_locals(sub.slice, init, depth=4):
                    key_side |= {c.func.attr for c in ast.walk(e) if isinstance(c, ast.Call) and isinstance(c.func, ast.Attribute)}
    if nkeys < 2:
        raise AnalysisError("FortranContainer.__init__: stores into attr_dict not found")
    n = 0
    for cname, ci in sorted(py.classes.items()):
        if ci.module != "sourceform" or not (py.is_subclass(cname, "FortranBase")):
            continue
        for mname, fn in ci.methods.items():
            for st in ast.walk(fn):
                if isinstance(st, ast.Assign) and any(ast.unparse(t) == "self.name" for t in st.targets):
                    n += 1
                    used: Set[str] = set()
                    for e in [st.value] + astq.expand_locals(st.value, fn, depth=3):
                        used |= {c.func.attr for c in ast.walk(e) if isinstance(c, ast.Call) and isinstance(c.func, ast.Attribute)}
                    extra = sorted((used & _REWRITERS) - key_side)
                    rep.ob(f"{cname}.{mname}: the stored name is spelled like the access-statement key ({ast.unparse(st.value)[:30]})",
                           not extra, "the name is kept as written" if not extra else
                           f"`{ast.unparse(st)[:80]}` rewrites the name with {extra}, the table of access statements is keyed by the "
                           f"statement text ({sorted(key_side & (_REWRITERS | {'strip', 'lower'}))} only): `public :: operator (+)` no "
                           f"longer reaches `interface operator (+)`", py.nloc(st), nontrivial=bool(used))
    if n < 15:
        raise AnalysisError(f"only {n} assignments to self.name found")
    # (c) a generic spec may be written with or without a blank before its parenthesis (`operator (+)` / `operator(+)`); the
    # statement text and the entity name are two independent spellings, so both sides have to drop the blanks
    def drops_blanks(fn_, exprs) -> bool:
        for e in exprs:
            for x in [e] + astq.expand_locals(e, fn_, depth=4):
                for c in ast.walk(x):
                    if isinstance(c, ast.Call) and isinstance(c.func, ast.Attribute):
                        if c.func.attr == "join" and isinstance(c.func.value, ast.Constant) and c.func.value.value == "" and \
                                any(isinstance(k, ast.Call) and isinstance(k.func, ast.Attribute) and k.func.attr == "split" for k in ast.walk(c)):
                            return True
                        if c.func.attr == "replace" and len(c.args) == 2 and [ast.unparse(a) for a in c.args] == ["' '", "''"]:
                            return True
                    if isinstance(c, ast.Call) and call_name(c) in ("re.sub",) and c.args and isinstance(c.args[0], ast.Constant) and \
                            "\\s" in str(c.args[0].value):
                        return True
        return False
    key_exprs = [sub.slice for st in ast.walk(init) for sub in ast.walk(st) if isinstance(sub, ast.Subscript)
                 and isinstance(sub.value, ast.Attribute) and sub.value.attr == "attr_dict" and isinstance(sub.ctx, ast.Store) is False]
    key_ok = drops_blanks(init, key_exprs)
    pa = py.func("FortranCodeUnit.process_attribs")
    look = [sub.slice for sub in ast.walk(pa) if isinstance(sub, ast.Subscript) and isinstance(sub.value, ast.Attribute)
            and sub.value.attr == "attr_dict"]
    look_ok = drops_blanks(pa, look)
    rep.ob("access statements reach `operator (+)` however the blank is written", key_ok and look_ok,
           "both the statement text and the entity name are compared without blanks" if key_ok and look_ok else
           f"statement side drops blanks: {key_ok}, lookup side drops blanks: {look_ok} - `public :: operator (+)` does not reach "
           f"`interface operator(+)` (and vice versa): the interface keeps the default accessibility of the module",
           py.nloc(pa))
    m = 0
    for cname, ci in sorted(py.classes.items()):
        if ci.module != "sourceform":
            continue
        for mname, fn in ci.methods.items():
            params = [a.arg for a in fn.args.args + fn.args.kwonlyargs]
            if "permission" not in params:
                continue
            stores = [st for st in ast.walk(fn) if isinstance(st, ast.Assign) and any(ast.unparse(t) == "self.permission" for t in st.targets)]
            if not stores:
                continue
            m += 1
            rebinds = [st for st in ast.walk(fn) if isinstance(st, ast.Assign) and any(isinstance(t, ast.Name) and t.id == "permission"
                                                                                    for t in st.targets)
                       and not any(isinstance(x, ast.Name) and x.id == "permission" for x in ast.walk(st.value))]
            from_param = all(any(isinstance(x, ast.Name) and x.id == "permission" for x in ast.walk(st.value)) for st in stores)
            ok = from_param and not rebinds
            rep.ob(f"{cname}.{mname}: the accessibility passed in is the one stored", ok,
                   "self.permission = permission" if ok else
                   f"`{ast.unparse((rebinds or stores)[0])[:70]}` replaces the accessibility the caller determined (declared attribute, "
                   f"else the default of the enclosing scope) by a constant: entities of a default-private scope come out public",
                   py.nloc((rebinds or stores)[0]))
    if m < 1:
        raise AnalysisError("no constructor with a `permission` parameter found")


def r8_statement_fragments(ctx, rep):
    """the bare `private` / `public` statement and the access statements are recognised on a statement without surrounding blanks:
    the reader strips every `;` fragment (shared with C02.R5)"""
    from . import c02
    c02.r5_continuation(ctx, rep)


def r9_attribute_split(ctx, rep):
    """`<type>, <attributes> :: <entities>`: the attribute list ends at the FIRST `::` - the entity list may contain another one
    (`names(2) = [character(len=3) :: "ab", "cde"]`).  If the attribute group can run greedily over `::`, `public` / `private` /
    `protected` end up inside a longer piece of text, are not recognised, and the declaration loses its access attribute."""
    py = ctx.py
    ltv = py.func("sourceform.line_to_variables")
    used = {ast.unparse(c.func.value).split(".")[-1] for c in py.walk_calls(ltv)
            if isinstance(c.func, ast.Attribute) and c.func.attr in ("match", "search", "fullmatch")}
    n = 0
    for key, (pat, flags, node, mod) in sorted(ctx.regexes.items()):
        nm = key.split(".")[-1]
        if mod != "sourceform" or nm not in used or "::" not in pat:
            continue
        n += 1
        bad = [(g, sep) for g, sep, _r in common.greedy_groups_before_literal(pat, flags) if sep.startswith("::")]
        rep.ob(f"{nm}: the attribute list ends at the first `::`", not bad,
               "the group in front of `::` cannot run over a `::`" if not bad else
               f"group {bad[0][0]} of `{pat}` is greedy and can match `:`: with a second `::` in the statement (an array constructor "
               f"with a type-spec) the attribute list swallows the entity name, the access attribute is no longer a piece of its own "
               f"and is lost", py.nloc(node), witness=None if not bad else "integer, parameter, private :: n(2) = [integer :: 1, 2]")
    if n == 0:
        raise AnalysisError("line_to_variables: no pattern that splits attributes from entities at `::` found")


def r10_printed_accessibility_is_the_entitys_own(ctx, rep):
    """Where a template prints an accessibility word in front of an entity (`public subroutine s(a)`), it prints that entity's
    `permission` - not that of the thing it is listed under.  An interface body inside a generic interface is as accessible as
    the scope default and access statements make *it*; the generic's name can be public while its specifics are private."""
    j = ctx.j
    n = 0
    for o in j.outputs:
        if not re.search(r"\.permission$", o.src.split("|")[0].strip()):
            continue
        n += 1
        path = o.src.split("|")[0].strip()
        via = re.search(r"\.(parent|procedure|prototype|proto\[\d\])\.permission$", path)
        # the only legitimate indirection: a component's type link guarded by the type's own permission (`var.proto[0].permission`
        # is tested, never printed)
        ok = via is None
        rep.ob(f"template={o.template} prints `{path}`", ok,
               "the entity's own accessibility" if ok else
               f"`{{{{ {path} }}}}` prints the accessibility of another entity (`.{via.group(1)}`) in the heading of this one: for an interface "
               f"body of a generic interface (default `private`, `public :: gen`) the page says `public` although the specific is "
               f"private", o.loc)
    if n < 5:
        raise AnalysisError(f"only {n} template outputs of an accessibility found")


def r11_entity_name_is_cut_at_every_suffix(ctx, rep):
    """An entity declaration is `name [ (array-spec) ] [ lbracket coarray-spec rbracket ] [ * char-length ]` (R503).  Access statements
    and attribute statements find a variable under its bare name, so the name stored for it is cut at the first of `(`, `[` and
    `*` - if one of the three is not looked for, `character :: fname*80` is stored as `fname*80` and `private :: fname` never
    reaches it."""
    py = ctx.py
    fn = py.func("FortranVariable.__init__")
    cenv = dict(py.module_env("sourceform"))
    for k in py.classes["FortranVariable"].class_attrs:
        v = py.const_value("FortranVariable", k)
        if v is not PyModel._UNKNOWN:
            cenv[k] = v
    found: Set[str] = set()

    def take(v):
        if isinstance(v, str) and 0 < len(v) <= 4 and all(not ch.isalnum() and not ch.isspace() and ch != "_" for ch in v):
            found.update(v)
        elif isinstance(v, (list, tuple, set, frozenset)):
            for x in v:
                take(x)
    for n in ast.walk(fn):
        if isinstance(n, ast.Constant):
            take(n.value)
        elif isinstance(n, ast.Name) and n.id in cenv:
            take(cenv[n.id])
        elif isinstance(n, ast.Attribute) and n.attr in cenv and ast.unparse(n.value) in ("self", "cls", "FortranVariable", "type(self)"):
            take(cenv[n.attr])
    # only what takes part in cutting the name: the function must assign both self.name and self.dimension from the name
    cuts = [a for a in ast.walk(fn) if isinstance(a, ast.Assign) and any(ast.unparse(t) == "self.dimension" for t in a.targets)
            and any("name" in ast.unparse(x) for x in astq.expand_locals(a.value, fn))]
    if not cuts:
        raise AnalysisError("FortranVariable.__init__: the split of the declared name into name and dimension was not found")
    need = {"(", "[", "*"}
    ok = need <= found
    rep.ob("FortranVariable: the declared name is cut at `(`, `[` and `*`", ok,
           f"suffix openings looked for: {sorted(found & set('([*'))}" if ok else
           f"the name is cut at {sorted(found & set('([*'))} only - `{sorted(need - found)[0]}` is not looked for: `character :: fname*80` is "
           f"stored under the name `fname*80`, and an access statement naming `fname` does not reach it", py.nloc(cuts[0]))


RULES = [
    RuleSpec("C04.R1", r1_plumbing, "permission plumbing table", floor=12),
    RuleSpec("C04.R2", r2_declaration_attributes, "declaration access attributes", floor=3),
    RuleSpec("C04.R3", r3_access_statements, "access statements are order independent", floor=7),
    RuleSpec("C04.R4", r4_order_sensitivity, "scope default not read before the specification part is complete", floor=1),
    RuleSpec("C04.R5", r5_interface_and_constructor, "interface procedures and constructors", floor=2),
    RuleSpec("C04.R6", r6_memo, "caches on the declaration path are keyed by everything the cached value depends on", floor=1),
    RuleSpec("C04.R8", r8_statement_fragments, "statements reach the parser without surrounding blanks (shared with C02.R5)", floor=3),
    RuleSpec("C04.R9", r9_attribute_split, "the attribute list of a declaration ends at the first `::`", floor=1),
    RuleSpec("C04.R7", r7_names_and_given_permission, "names are spelled like their access-statement keys; a given accessibility is stored", floor=15),
    RuleSpec("C04.R10", r10_printed_accessibility_is_the_entitys_own, "templates print the entity's own accessibility", floor=5),
    RuleSpec("C04.R11", r11_entity_name_is_cut_at_every_suffix, "a declared name is cut at every kind of suffix (R503)", floor=1),
]
