"""C17 — static pages mirror the page directory, in the documented order (structural clauses)."""
from __future__ import annotations

import ast
import re
from typing import Dict, List, Optional, Set, Tuple

from ..core import AnalysisError, RuleSpec
from ..pymodel import call_name

EXPLANATION = (
    "Necessary conditions only (the mirroring of a run-time directory tree is not decided). R1: a page "
    "without a title is contained - the sub-page constructor sits in a try whose handler covers the "
    "exception raised for a missing title and continues with the siblings; a failing index page returns "
    "None. R2: the directory listing is sorted before it is merged/iterated, hidden and backup names are "
    "skipped before use, index.md is excluded from both sources of the merged list (so it becomes exactly "
    "one page), user-ordered pages come first. R3: the four places that spell the layout use the same "
    "literals (`page`, `media`) and compose location/stem.html identically (aliases in main, writeout, "
    "BasePage.page_dir, PageNode.url/path, PagetreePage.loc/outfile). R4: every page is converted with "
    "path= its own output directory. R5: every page (index or not) copies its copy_subdir directories "
    "and its files - no early return before the copy loops."
)
ASSUMPTIONS = []


def r1_containment(ctx, rep):
    py = ctx.py
    fn = py.func("pagetree.get_page_tree")
    raised = [ast.unparse(r.exc.func) for r in ast.walk(py.func("PageNode.__init__"))
              if isinstance(r, ast.Raise) and isinstance(r.exc, ast.Call)]
    if not raised:
        raise AnalysisError("PageNode.__init__: no raise for a missing title")
    tries = [t for t in ast.walk(fn) if isinstance(t, ast.Try)]
    sub = [t for t in tries if "node.subpages.append" in ast.unparse(t)]
    if not sub:
        raise AnalysisError("get_page_tree: try around the sub-page constructor not found")
    h = sub[0].handlers[0]
    ht = ast.unparse(h.type) if h.type is not None else "BaseException"
    ok = ht in raised or ht in ("Exception", "BaseException")
    rep.ob("sub-page failure is caught", ok, f"PageNode raises {raised}; handler catches {ht}" if ok else
           f"PageNode raises {raised} for a page without title but the handler catches {ht}", py.nloc(h))
    ok = isinstance(h.body[-1], ast.Continue) and "warn(" in ast.unparse(h)
    rep.ob("a bad page is reported and its siblings are kept", ok, "handler warns and continues the loop" if ok else
           "handler does not continue with the next file", py.nloc(h))
    idx = [t for t in tries if "PageNode(md, index_file" in ast.unparse(t)]
    ok = bool(idx) and "return None" in ast.unparse(idx[0].handlers[0]) and "warn(" in ast.unparse(idx[0].handlers[0])
    rep.ob("a bad index page drops only that sub-tree", ok, "", py.nloc(idx[0]) if idx else py.nloc(fn))
    ok = "if not index_file.exists()" in ast.unparse(fn)
    rep.ob("a directory without index.md is reported, not fatal", ok, "", py.nloc(fn))
    t = ast.unparse(py.func("PageNode.__init__"))
    ok = "if self.meta.title is None" in t
    rep.ob("title is mandatory", ok, "", py.nloc(py.func("PageNode.__init__")))


def r2_order(ctx, rep):
    py = ctx.py
    fn = py.func("pagetree.get_page_tree")
    t = ast.unparse(fn)
    ok = "filelist = sorted(os.listdir(topdir))" in t
    rep.ob("directory listing is sorted", ok, "alphabetical base order independent of the file system" if ok else
           "os.listdir result is used unsorted", py.nloc(fn))
    ok = "filelist.remove('index.md')" in t
    rep.ob("index.md removed from the listing", ok, "", py.nloc(fn))
    pn = py.func("PageNode.__init__")
    asg = [n for n in ast.walk(pn) if isinstance(n, ast.Assign) and ast.unparse(n.targets[0]) == "self.ordered_subpages"]
    ok = bool(asg) and re.search(r"if x != 'index\.md'", ast.unparse(asg[0].value)) is not None
    rep.ob("index.md removed from ordered_subpage", ok,
           "the user list cannot re-introduce the index page" if ok else
           f"`self.ordered_subpages = {ast.unparse(asg[0].value) if asg else '?'}` keeps an `index.md` entry: it is merged "
           f"back in front of the listing, so the index page becomes a sub-page of itself (rendered and listed twice)",
           py.nloc(asg[0]) if asg else py.nloc(pn))
    ok = "mergedfilelist = list(OrderedDict.fromkeys(node.ordered_subpages + filelist))" in t
    rep.ob("ordered pages first, rest alphabetical, duplicates removed", ok, "", py.nloc(fn))
    loop = [n for n in ast.walk(fn) if isinstance(n, ast.For) and ast.unparse(n.iter) == "mergedfilelist"]
    if not loop:
        raise AnalysisError("get_page_tree: loop over mergedfilelist not found")
    first = loop[0].body[:2]
    ok = len(first) == 2 and all(isinstance(s, ast.If) and isinstance(s.body[0], ast.Continue) for s in first) and \
        "name[0] == '.'" in ast.unparse(first[0].test) and "name[-1] == '~'" in ast.unparse(first[1].test)
    rep.ob("hidden and backup files are skipped before any use of the name", ok, "", py.nloc(loop[0]))
    body = ast.unparse(loop[0])
    ok = "filename.suffix == '.md'" in body and "node.files.append(name)" in body and "filename.is_dir()" in body
    rep.ob("markdown -> page, directory -> sub-tree, other -> copied file", ok, "", py.nloc(loop[0]))
    ok = "if parent and name in parent.copy_subdir" in body
    rep.ob("copy_subdir directories are not searched for pages", ok, "", py.nloc(loop[0]), nontrivial=False)


def r3_layout_names(ctx, rep):
    py = ctx.py
    main = ast.unparse(py.func("__init__.main"))
    ok = "'media': str(url_path / 'media')" in main and "'page': str(url_path / 'page')" in main and "'url': str(url_path)" in main
    rep.ob("aliases |url| |media| |page| spell the layout", ok, "", "ford/__init__.py")
    wo = ast.unparse(py.func("Documentation.writeout"))
    ok = "copytree(self.data['media_dir'], out_dir / 'media')" in wo
    rep.ob("media is copied to <out>/media", ok, "", "ford/output.py")
    bp = ast.unparse(py.func("BasePage.__init__"))
    ok = "self.page_dir = self.out_dir / 'page'" in bp
    rep.ob("pages are written below <out>/page", ok, "", "ford/output.py")
    ok = "return self.base_url / 'page' / self.path" in ast.unparse(py.func("PageNode.url"))
    rep.ob("PageNode.url = base/page/path", ok, "", "ford/pagetree.py")
    ok = "return self.location / self.filename.with_suffix('.html')" in ast.unparse(py.func("PageNode.path"))
    rep.ob("PageNode.path = location/stem.html", ok, "", "ford/pagetree.py")
    ok = "return pathlib.Path('page') / self.obj.path" in ast.unparse(py.func("PagetreePage.loc")) and \
        "return self.page_dir / self.obj.path" in ast.unparse(py.func("PagetreePage.outfile"))
    rep.ob("PagetreePage.loc/outfile use the same relative path", ok,
           "the search-index location and the written file agree with the URL" if ok else "loc/outfile/url disagree", "ford/output.py")
    pn = ast.unparse(py.func("PageNode.__init__"))
    ok = "self.location = Path(os.path.relpath(path.parent, self.topdir))" in pn and "self.topdir: Path = self.parent.topdir" in pn
    rep.ob("location is the directory relative to the top page directory", ok, "", "ford/pagetree.py")
    ok = "self.filename = Path(path.stem)" in pn
    rep.ob("file stem is kept", ok, "", "ford/pagetree.py", nontrivial=False)


def r4_conversion_path(ctx, rep):
    py = ctx.py
    pn = py.func("PageNode.__init__")
    t = ast.unparse(pn)
    ok = "output_path = output_dir / 'page' / self.path.parent" in t and "path=output_path.resolve()" in t
    rep.ob("page text is converted relative to its own output directory", ok,
           "links in a nested page are made relative to <out>/page/<sub-directory>" if ok else
           "the conversion path of static pages changed", py.nloc(pn))
    gp = [c for c in py.walk_calls(py.func("__init__.main")) if call_name(c) == "get_page_tree"]
    a = [ast.unparse(x) for x in gp[0].args] if gp else []
    ok = a[:4] == ["proj_data.page_dir", "proj_data.copy_subdir", "proj_data.output_dir", "md"]
    rep.ob("main hands page_dir, copy_subdir, output_dir and the converter to get_page_tree", ok, f"{a[:4]}", "ford/__init__.py")
    rec = [c for c in py.walk_calls(py.func("pagetree.get_page_tree")) if call_name(c) == "get_page_tree"]
    a = [ast.unparse(x) for x in rec[0].args] if rec else []
    ok = a[:6] == ["filename", "proj_copy_subdir", "output_dir", "md", "progress", "node"]
    rep.ob("recursion keeps output_dir and passes the parent node", ok, f"{a}", "ford/pagetree.py")


def r5_copy_for_every_page(ctx, rep):
    py = ctx.py
    fn = py.func("PagetreePage.writeout")
    loops = [n for n in fn.body if isinstance(n, ast.For)]
    names = [ast.unparse(l.iter) for l in loops]
    ok = "self.obj.copy_subdir" in names and "self.obj.files" in names
    if not ok:
        raise AnalysisError(f"PagetreePage.writeout: copy loops not found at top level ({names})")
    first_loop = min(l.lineno for l in loops)
    early = [r for r in ast.walk(fn) if isinstance(r, ast.Return) and r.lineno < first_loop]
    rep.ob("copy_subdir and files are copied for every page", not early,
           "no return precedes the copy loops" if not early else
           "writeout returns before the copy loops for some pages: a copy_subdir named in a non-index page's "
           "metadata is silently not copied", py.nloc(early[0]) if early else py.nloc(fn))
    t = ast.unparse(fn)
    ok = "super(PagetreePage, self).writeout()" in t or "super().writeout()" in t
    rep.ob("the page itself is written", ok, "", py.nloc(fn))
    ok = re.search(r"if self\.obj\.filename\.stem == 'index':\s+\(self\.page_dir / self\.obj\.location\)\.mkdir", t) is not None
    rep.ob("an index page creates its directory first", ok, "", py.nloc(fn))
    pn = ast.unparse(py.func("PageNode.__init__"))
    ok = "self.copy_subdir = self.meta.copy_subdir or proj_copy_subdir" in pn
    rep.ob("page-level copy_subdir overrides the project setting", ok, "", "ford/pagetree.py")


def r6_links_and_empty_pages(ctx, rep):
    py = ctx.py
    fa = py.func("RelativeLinksTreeProcessor._fix_attrib")
    t = ast.unparse(fa)
    splits = "urlsplit" in t or "urlparse" in t or ".partition('#')" in t or ".split('#'" in t
    keeps = ("urlunsplit" in t or "fragment" in t or "geturl" in t) if splits else True
    rep.ob("relative-link rewriting keeps #fragment and ?query", keeps,
           "the whole attribute value is rewritten (fragment and query survive)" if keeps else
           "_fix_attrib splits the URL and rewrites the attribute from its path only: `|page|/x.html#section` links lose "
           "the section", py.nloc(fa))
    ok = "relpath(tag_path, self.md.current_path)" in t or "relpath(" in t
    rep.ob("links below the output directory are made relative to the current page", ok, "", py.nloc(fa))
    mp = py.func("utils.meta_preprocessor")
    n = 0
    for sub in ast.walk(mp):
        if isinstance(sub, ast.Subscript) and ast.unparse(sub.value) == "lines" and isinstance(sub.ctx, ast.Load) \
                and isinstance(sub.slice, ast.Constant):
            n += 1
            p = sub
            guarded = False
            while p is not mp:
                child = p
                p = py.parents[p]
                if isinstance(p, ast.BoolOp) and isinstance(p.op, ast.And) and any(
                        ast.unparse(v) == "lines" for v in p.values[:p.values.index(child)] if child in p.values):
                    guarded = True
                if isinstance(p, (ast.While, ast.If)) and ast.unparse(p.test) in ("lines", "len(lines) > 0") and child in p.body:
                    guarded = True
            rep.ob(f"meta_preprocessor: lines[{sub.slice.value}] is read only when lines is non-empty", guarded,
                   "an empty page / empty doc comment has no metadata and no error" if guarded else
                   "`lines[0]` is read without checking that the file has any line: an empty .md page raises IndexError, "
                   "which the `except ValueError` around sub-pages does not catch - the whole run aborts instead of "
                   "skipping the page", py.nloc(sub))
    if n == 0:
        raise AnalysisError("meta_preprocessor: `lines[0]` access not found")


RULES = [
    RuleSpec("C17.R6", r6_links_and_empty_pages, "link fragments survive; an empty page is harmless", floor=3),
    RuleSpec("C17.R1", r1_containment, "containment of a bad page", floor=5),
    RuleSpec("C17.R2", r2_order, "ordering and exactly-once pages", floor=7),
    RuleSpec("C17.R3", r3_layout_names, "layout names agree", floor=7),
    RuleSpec("C17.R4", r4_conversion_path, "conversion path per page", floor=3),
    RuleSpec("C17.R5", r5_copy_for_every_page, "assets copied for every page", floor=4),
]
