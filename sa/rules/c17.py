"""C17 — static pages mirror the page directory, in the documented order (structural clauses)."""
from __future__ import annotations

import ast
import re
from typing import Dict, List, Optional, Set, Tuple

from ..core import AnalysisError, RuleSpec
from . import common
from ..pymodel import call_name
from .. import astq

EXPLANATION = (
    "Necessary conditions only (the mirroring of a run-time directory tree is not decided). R1: a page "
    "without a title is contained - the sub-page constructor sits in a try whose handler covers the "
    "exception raised for a missing title and continues with the siblings; a failing index page returns "
    "None. R2: the directory listing is sorted before it is merged/iterated, hidden and backup names are "
    "skipped before use, index.md is excluded from both sources of the merged list (so it becomes exactly "
    "one page), user-ordered pages come first. R3: the four places that spell the layout use the same "
    "literals (`page`, `media`) and compose location/stem.html identically (aliases in main, writeout, "
    "BasePage.page_dir, PageNode.url/path, PagetreePage.loc/outfile). R4: every page is converted with "
    "path= its own output directory. R5: every page (index or not) copies its copy_subdir directories "
    "and its files - no early return before the copy loops."
    " R6: relative-link rewriting keeps #fragment and ?query, and an empty page is harmless. R2 uses the element-provenance analysis (page names come from the directory listing only; the merged list is user order + listing, de-duplicated), R3 compares the directory literals extracted from each site's path expression with each other."
    " Added after waves 6/7 - the alias of the output root itself is made relative; an ordered_subpage entry keeps its place iff it is in the directory listing."
)
ASSUMPTIONS = []


def _ctor_calls(root: ast.AST) -> List[ast.Call]:
    return [c for c in ast.walk(root) if isinstance(c, ast.Call) and call_name(c) == "PageNode"]


def _page_loop(py, fn) -> Tuple[ast.For, str]:
    """the loop of get_page_tree that joins `topdir / <name>`; returns (loop, name variable)"""
    for n in ast.walk(fn):
        if isinstance(n, ast.For) and isinstance(n.target, ast.Name):
            v = n.target.id
            for st in n.body:
                for b in ast.walk(st):
                    if isinstance(b, ast.BinOp) and isinstance(b.op, ast.Div) and isinstance(b.right, ast.Name) \
                            and b.right.id == v:
                        return n, v
    raise AnalysisError("get_page_tree: the loop that joins `<dir> / <name>` was not found")


def r1_containment(ctx, rep):
    py = ctx.py
    fn = py.ifunc("pagetree.get_page_tree")
    init = py.ifunc("PageNode.__init__")
    par = astq.parents_of(fn)
    # what PageNode raises for a missing title: the raise guarded by a test on `.title`
    raised = []
    ipar = astq.parents_of(init)
    for r in ast.walk(init):
        if isinstance(r, ast.Raise) and r.exc is not None:
            conds = astq.conditions_of(r, ipar)
            if any("title" in ast.unparse(t) for t, _ in conds):
                raised.append(ast.unparse(r.exc.func if isinstance(r.exc, ast.Call) else r.exc).split(".")[-1])
    if not raised:
        raise AnalysisError("PageNode.__init__: no raise guarded by a test on the title")
    rep.ob("title is mandatory", True, f"PageNode.__init__ raises {raised} when the title is missing", py.nloc(init),
           nontrivial=False)
    loop, name = _page_loop(py, fn)
    in_loop = [c for c in _ctor_calls(loop)]
    outside = [c for c in _ctor_calls(fn) if not any(c is x for x in ast.walk(loop))]
    if not in_loop or not outside:
        raise AnalysisError("get_page_tree: PageNode(...) for the index page / for sub-pages not found")
    HIER = {"ValueError": "Exception", "Exception": "BaseException"}

    def covers(types: List[str], exc: str) -> bool:
        e = exc
        while e:
            if e in types:
                return True
            e = HIER.get(e)
        return False

    for c in in_loop:
        t = astq.enclosing(c, par, ast.Try)
        if t is None or not any(c is x for st in t.body for x in ast.walk(st)):
            rep.ob("sub-page failure is caught", False, "the sub-page constructor is not inside a try: a page without title "
                   "aborts the walk and its siblings are lost", py.nloc(c))
            continue
        hs = [h for h in t.handlers if all(covers(astq.handler_types(h), e) for e in raised)]
        ok = bool(hs)
        rep.ob("sub-page failure is caught", ok,
               f"PageNode raises {raised}; handler catches {astq.handler_types(hs[0])}" if ok else
               f"PageNode raises {raised} for a page without title but the handlers catch "
               f"{[astq.handler_types(h) for h in t.handlers]}", py.nloc(t))
        if hs:
            h = hs[0]
            leaves = [x for x in ast.walk(h) if isinstance(x, (ast.Return, ast.Raise, ast.Break))]
            warns = astq.calls(h, "warn", "print", "warning")
            ok = not leaves and bool(warns)
            rep.ob("a bad page is reported and its siblings are kept", ok,
                   "handler reports and goes on with the next file" if ok else
                   ("handler leaves the loop (return/raise/break): the remaining siblings are lost" if leaves else
                    "handler does not report the page"), py.nloc(h))
    for c in outside:
        t = astq.enclosing(c, par, ast.Try)
        ok = t is not None and any(
            all(covers(astq.handler_types(h), e) for e in raised) and astq.calls(h, "warn", "print", "warning")
            and any(isinstance(x, ast.Return) for x in ast.walk(h)) for h in t.handlers)
        rep.ob("a bad index page drops only that sub-tree", ok,
               "the index constructor is guarded; the handler reports and returns" if ok else
               "a directory whose index.md has no title is not contained (no guarded constructor that reports and returns)",
               py.nloc(c))
    # a directory without index.md is reported, not fatal: an `exists()` test on the index file with an early return
    ex = [n for n in ast.walk(fn) if isinstance(n, ast.If) and "exists()" in ast.unparse(n.test)
          and any(isinstance(x, ast.Return) for x in ast.walk(n))]
    rep.ob("a directory without index.md is reported, not fatal", bool(ex), "", py.nloc(ex[0]) if ex else py.nloc(fn))


def r2_order(ctx, rep):
    py = ctx.py
    fn = py.ifunc("pagetree.get_page_tree")
    loop, name = _page_loop(py, fn)
    # the directory listing
    listdirs = [c for c in ast.walk(fn) if isinstance(c, ast.Call) and call_name(c) in ("os.listdir", "listdir", "os.scandir")]
    iterdirs = [c for c in ast.walk(fn) if isinstance(c, ast.Call) and call_name(c).endswith(".iterdir")]
    if not listdirs and not iterdirs:
        raise AnalysisError("get_page_tree: directory listing call not found")
    par = astq.parents_of(fn)
    listing_vars: Set[str] = set()
    for c in listdirs + iterdirs:
        st = astq.enclosing(c, par, (ast.Assign, ast.AnnAssign))
        sorted_here = any(isinstance(x, ast.Call) and call_name(x) == "sorted" and any(c is y for y in ast.walk(x))
                          for x in ast.walk(st if st is not None else fn))
        vars_ = [t for t in (astq.target_names(st.targets[0]) if isinstance(st, ast.Assign) else
                             astq.target_names(st.target) if st is not None else [])]
        sorted_later = any(isinstance(x, ast.Call) and call_name(x) in [f"{v}.sort" for v in vars_] for x in ast.walk(fn))
        ok = sorted_here or sorted_later
        listing_vars |= set(vars_)
        rep.ob("directory listing is sorted", ok, "alphabetical base order independent of the file system" if ok else
               "the directory listing is used in file-system order", py.nloc(c))
    # which of the user's `ordered_subpage` entries keep their place: exactly those that are in the directory listing - files
    # *and folders* (the user guide: a subpage "can be another markdown file or a folder"); any further restriction sends
    # the entry back to its alphabetical position without a word
    def user_list(e: ast.AST) -> bool:
        """the user's list itself (or a plain alias of it), not something merged from it"""
        if isinstance(e, ast.Attribute):
            return e.attr == "ordered_subpages"
        if isinstance(e, ast.Name):
            vals = [v for _s, v in astq.assignments(fn, e.id) if v is not None]
            return bool(vals) and all(isinstance(v, ast.Attribute) and v.attr == "ordered_subpages" for v in vals)
        return False

    def listed_atom(var: str):
        def atom(t):
            if isinstance(t, ast.Compare) and len(t.ops) == 1 and isinstance(t.ops[0], (ast.In, ast.NotIn)) and \
                    ast.unparse(t.left) == var and ast.unparse(t.comparators[0]) in listing_vars:
                return ("listed", isinstance(t.ops[0], ast.In))
            return None
        return atom
    keeps = []
    for n_ in ast.walk(fn):
        if isinstance(n_, (ast.ListComp, ast.GeneratorExp)) and len(n_.generators) == 1 and isinstance(n_.generators[0].target, ast.Name) \
                and user_list(n_.generators[0].iter) and isinstance(n_.elt, ast.Name) and n_.elt.id == n_.generators[0].target.id:
            g = n_.generators[0]
            test = g.ifs[0] if len(g.ifs) == 1 else (ast.BoolOp(op=ast.And(), values=list(g.ifs)) if g.ifs else ast.Constant(value=True))
            keeps.append((g.target.id, [(test, True, {})], n_))
        if isinstance(n_, ast.For) and isinstance(n_.target, ast.Name) and user_list(n_.iter):
            for e_ in astq.trace_block(n_.body, fn):
                if e_.kind == "call" and isinstance(e_.node.func, ast.Attribute) and e_.node.func.attr == "append" and e_.node.args \
                        and ast.unparse(e_.node.args[0]) == n_.target.id:
                    keeps.append((n_.target.id, list(e_.conds), e_.node))
    for var, conds, node_ in keeps:
        import types as _types
        ev_ = _types.SimpleNamespace(conds=conds)
        only_if = astq.path_implies(ev_, listed_atom(var), {"listed": True}) is True
        # and nothing else: with `listed` true the entry is kept whatever the other tests say
        free_ok = all(astq.eval_cond(t, listed_atom(var), {"listed": True}) == p for t, p, _ in conds)
        ok = only_if and free_ok
        rep.ob("an ordered_subpage entry keeps its place iff it is in the directory listing", ok,
               "kept exactly when it names an entry of the directory" if ok else
               f"the entry is kept under `{' and '.join(ast.unparse(t) if p else 'not (' + ast.unparse(t) + ')' for t, p, _ in conds)}`: "
               f"more than membership in the listing is asked, so e.g. a sub-directory named in `ordered_subpage` is treated as "
               f"unknown and sorted alphabetically", py.nloc(node_))
    # index.md taken out of the listing
    removed = [c for c in ast.walk(fn) if isinstance(c, ast.Call) and isinstance(c.func, ast.Attribute)
               and c.func.attr in ("remove", "discard") and ast.unparse(c.func.value) in listing_vars and c.args
               and isinstance(c.args[0], ast.Constant) and c.args[0].value == "index.md"]
    filtered = [n for v in listing_vars for _, val in astq.assignments(fn, v) if val is not None
                for n in ast.walk(val) if isinstance(n, ast.comprehension) and any(astq.compares_to_const(i, "index.md", (ast.NotEq,)) for i in n.ifs)]
    skipped = [g for g in astq.preceding_guards(loop.body, loop.body[-1]) if astq.compares_to_const(g.test, "index.md", (ast.Eq,))]
    ok = bool(removed or filtered or skipped)
    rep.ob("index.md removed from the listing", ok, "" if ok else
           "index.md stays in the directory listing: the index page is also created as a sub-page of itself", py.nloc(fn))
    # index.md taken out of the user's list
    pn = py.ifunc("PageNode.__init__")
    asg = astq.assignments(pn, "self.ordered_subpages")
    if not asg:
        raise AnalysisError("PageNode.__init__: self.ordered_subpages is not assigned")
    ok = any(isinstance(n, ast.comprehension) and any(astq.compares_to_const(i, "index.md", (ast.NotEq,)) for i in n.ifs)
             for _, v in asg for n in ast.walk(v)) or bool(skipped)
    # a later filter by membership in the (index-free) listing is just as good
    by_listing = any(isinstance(n, ast.comprehension) and any(
        isinstance(i, ast.Compare) and isinstance(i.ops[0], ast.In) and ast.unparse(i.comparators[0]) in listing_vars for i in n.ifs)
        for n in ast.walk(fn)) and bool(removed or filtered) and not any(
            ast.unparse(b) == "node.ordered_subpages" for b in ast.walk(fn) if isinstance(b, ast.Attribute)
            and isinstance(par.get(b), ast.BinOp))
    ok = ok or by_listing
    rep.ob("index.md removed from ordered_subpage", ok,
           "the user list cannot re-introduce the index page" if ok else
           f"`self.ordered_subpages = {ast.unparse(asg[0][1])}` keeps an `index.md` entry: it is merged "
           f"back in front of the listing, so the index page becomes a sub-page of itself (rendered and listed twice)",
           py.nloc(asg[0][0]))
    # the merged list: user order first, then the listing, duplicates removed.  The merge expression `A + B` is looked
    # for in get_page_tree and in the module-level helpers it calls.
    es = astq.ElemSources(py, "pagetree")
    hosts = [fn] + [py.functions[f"pagetree.{c.func.id}"] for c in ast.walk(fn) if isinstance(c, ast.Call)
                    and isinstance(c.func, ast.Name) and f"pagetree.{c.func.id}" in py.functions and c.func.id != fn.name]
    merged = None
    for h in hosts:
        binds = {}
        if h is not fn:
            call = next(c for c in ast.walk(fn) if isinstance(c, ast.Call) and isinstance(c.func, ast.Name) and c.func.id == h.name)
            binds = {k: (v, fn, {}) for k, v in astq.bind_args(call, h).items()}
        hpar = astq.parents_of(h)
        for n in ast.walk(h):
            # a concatenation of two sequences, however spelled: a + b, [*a, *b], chain(a, b)
            parts = None
            if isinstance(n, ast.BinOp) and isinstance(n.op, ast.Add):
                parts = [n.left, n.right]
            elif isinstance(n, (ast.List, ast.Tuple)) and len(n.elts) >= 2 and all(isinstance(x, ast.Starred) for x in n.elts):
                parts = [x.value for x in n.elts]
            elif isinstance(n, ast.Call) and call_name(n).split(".")[-1] == "chain" and len(n.args) >= 2:
                parts = list(n.args)
            if parts:
                l, r = es.sources(parts[0], h, binds), es.sources(parts[-1], h, binds)
                if r == {"LISTING"} and l and "?" not in l and not any(x.startswith("param:") for x in l):
                    merged = (h, n, l, r, hpar)
                    merged_left = parts[0]
    all_src = es.sources(loop.iter, fn)
    if merged is None:
        rep.ob("ordered pages first, rest alphabetical, duplicates removed", False,
               f"the page list (sources {sorted(all_src)}) is never built as the user's ordered_subpage list followed by the "
               f"directory listing", py.nloc(loop))
    else:
        h, add, l, r, hpar = merged
        # the user's order is the left operand (possibly narrowed to names that exist: then its sources are the listing)
        left_txt = " ".join(ast.unparse(x) for x in astq.expand_locals(merged_left, h))
        # a list that is filled in a loop takes its order from what the loop iterates
        if isinstance(merged_left, ast.Name):
            for lp in ast.walk(h):
                if isinstance(lp, ast.For) and any(
                        isinstance(c, ast.Call) and isinstance(c.func, ast.Attribute) and c.func.attr in ("append", "extend", "insert")
                        and isinstance(c.func.value, ast.Name) and c.func.value.id == merged_left.id for c in ast.walk(lp)):
                    left_txt += " " + " ".join(ast.unparse(x) for x in astq.expand_locals(lp.iter, h))
        first_user = "ordered_subpages" in left_txt or any(
            "ordered_subpages" in ast.unparse(v) for k, (v, _, _) in ({} if h is fn else binds).items()
            if any(isinstance(x, ast.Name) and x.id == k for e2 in astq.expand_locals(merged_left, h) for x in ast.walk(e2))) or \
            any(isinstance(x, ast.Name) and any("ordered_subpages" in ast.unparse(v) for k, (v, _, _) in binds.items() if k == x.id)
                for st in ast.walk(h) if isinstance(st, (ast.For, ast.comprehension)) for x in ast.walk(st.iter)) if h is not fn else \
            "ordered_subpages" in left_txt
        p2 = hpar.get(add)
        dedup = False
        while p2 is not None and not isinstance(p2, ast.stmt):
            if isinstance(p2, ast.Call) and call_name(p2).split(".")[-1] in ("fromkeys", "unique", "unique_everseen"):
                dedup = True
            p2 = hpar.get(p2)
        ok = first_user and dedup
        rep.ob("ordered pages first, rest alphabetical, duplicates removed", ok,
               "user order + sorted listing, de-duplicated keeping first occurrences" if ok else
               f"`{ast.unparse(add)[:100]}`: " + ("the user's list does not come first; " if not first_user else "") +
               ("duplicates are not removed (a page named in ordered_subpage appears twice)" if not dedup else ""),
               py.nloc(add))
    # hidden and backup names are skipped before the name is used
    first_use = None
    for st in loop.body:
        for b in ast.walk(st):
            if isinstance(b, ast.BinOp) and isinstance(b.op, ast.Div) and isinstance(b.right, ast.Name) and b.right.id == name:
                first_use = first_use or b
    guards = astq.preceding_guards(loop.body, first_use)
    ok = any(astq.tests_first_char(g.test, name, ".") for g in guards) and any(astq.tests_last_char(g.test, name, "~") for g in guards)
    rep.ob("hidden and backup files are skipped before any use of the name", ok, "" if ok else
           "names starting with '.' or ending in '~' are not skipped before the file is looked at", py.nloc(loop))
    md = any(astq.compares_to_const(n, ".md", (ast.Eq,)) for n in ast.walk(loop) if isinstance(n, ast.If)) or \
        any(isinstance(c, ast.Call) and isinstance(c.func, ast.Attribute) and c.func.attr == "endswith" and c.args
            and isinstance(c.args[0], ast.Constant) and c.args[0].value == ".md" for c in ast.walk(loop))
    isdir = bool(astq.calls(loop, "is_dir", "isdir"))
    files = any(isinstance(c, ast.Call) and isinstance(c.func, ast.Attribute) and c.func.attr == "append"
                and ast.unparse(c.func.value).endswith(".files") for c in ast.walk(loop))
    ok = md and isdir and files
    rep.ob("markdown -> page, directory -> sub-tree, other -> copied file", ok, "", py.nloc(loop))
    ok = any(isinstance(n, ast.If) and any(isinstance(a, ast.Attribute) and a.attr == "copy_subdir" for a in ast.walk(n.test))
             and n.body and isinstance(n.body[-1], ast.Continue) for n in ast.walk(loop))
    rep.ob("copy_subdir directories are not searched for pages", ok, "", py.nloc(loop), nontrivial=False)


def _one_literal(py, what: str, lits: List[str], node) -> str:
    lits = [l for l in lits if l and not l.startswith(".")]
    if len(lits) != 1:
        raise AnalysisError(f"{what}: expected exactly one directory literal, found {lits} ({py.nloc(node)})")
    return lits[0]


def page_dir_name(py) -> str:
    """the directory below the output directory that static pages are written to: symbolic value of BasePage.page_dir"""
    vals = py.path_values("BasePage", "page_dir", {"self.out_dir": "{out}"})
    if len(vals) != 1 or not next(iter(vals)).startswith("{out}/") or "{" in next(iter(vals))[len("{out}/"):]:
        raise AnalysisError(f"BasePage.page_dir: expected <output dir>/<one literal directory>, found {sorted(vals)}")
    return next(iter(vals))[len("{out}/"):]


def r3_layout_names(ctx, rep):
    """The layout is spelled at several sites; each site's directory literal is extracted from its path expression and the
    sites are compared with each other (not with a fixed text)."""
    py = ctx.py
    main = py.func("__init__.main")
    # aliases: dict literal with keys url/media/page
    alias = None
    for d in ast.walk(main):
        if isinstance(d, ast.Dict) and {"media", "page"} <= {k.value for k in d.keys if isinstance(k, ast.Constant)}:
            alias = {k.value: v for k, v in zip(d.keys, d.values) if isinstance(k, ast.Constant)}
    if alias is None:
        raise AnalysisError("main: alias dictionary with 'media' and 'page' not found")
    a_page = _one_literal(py, "alias |page|", astq.path_literals(alias["page"], main), alias["page"])
    a_media = _one_literal(py, "alias |media|", astq.path_literals(alias["media"], main), alias["media"])
    base_page = [e for e in astq.expand_locals(alias["page"], main)]
    ok = "url" in alias and not astq.path_literals(alias["url"], main) and any("project_url" in ast.unparse(e) for e in base_page)
    rep.ob("aliases |url| |media| |page| are rooted at project_url", ok, f"|page| -> <project_url>/{a_page}, |media| -> <project_url>/{a_media}",
           py.nloc(alias["page"]))
    # where the media directory is copied to
    wo = py.func("Documentation.writeout")
    cp = [c for c in astq.calls(wo, "copytree") if c.args and "media_dir" in ast.unparse(c.args[0])]
    if not cp:
        raise AnalysisError("Documentation.writeout: copytree(<media_dir>, ...) not found")
    lits = [l for l in astq.path_literals(cp[0].args[1], wo) if l and not l.startswith(".")]
    d_media = lits[0] if len(lits) == 1 else f"<{ast.unparse(cp[0].args[1])}>"       # not a fixed directory at all
    rep.ob("media is copied to the directory the |media| alias names", d_media == a_media,
           f"<out>/{d_media}" if d_media == a_media else f"media_dir is copied to <out>/{d_media} but |media| expands to "
           f"<project_url>/{a_media}: every |media| link is dead", py.nloc(cp[0]))
    # where pages are written
    bp = py.func("BasePage.__init__")
    pd = astq.assignments(bp, "self.page_dir")
    if not pd:
        raise AnalysisError("BasePage.__init__: self.page_dir not assigned")
    d_page = page_dir_name(py)
    rep.ob("pages are written below the directory the |page| alias names", d_page == a_page,
           f"<out>/{d_page}" if d_page == a_page else f"pages are written to <out>/{d_page} but |page| expands to "
           f"<project_url>/{a_page}", py.nloc(pd[0][0]))
    url = py.func("PageNode.url")
    r = astq.returns(url)
    u_page = _one_literal(py, "PageNode.url", [l for e in r for l in astq.path_literals(e, url)], url)
    ok = u_page == d_page and any(astq.mentions(e, "self.path", url) for e in r) and any(astq.mentions(e, "self.base_url", url) for e in r)
    rep.ob("PageNode.url = base/page/path", ok, "" if ok else
           f"PageNode.url is built from {[ast.unparse(e) for e in r]}: pages are written below '{d_page}' relative to path", py.nloc(url))
    pth = py.func("PageNode.path")
    r = astq.returns(pth)
    # location / <file name with .html>: however the suffix is attached (with_suffix, f-string, concatenation)
    def html_name(x: ast.AST) -> bool:
        return any(isinstance(k, ast.Constant) and isinstance(k.value, str) and k.value.endswith(".html") for k in ast.walk(x)) and \
            any(isinstance(a, ast.Attribute) and a.attr == "filename" for a in ast.walk(x))
    ok = any(astq.mentions(e, "self.location", pth) for e in r) and any(html_name(x) for e in r for x in astq.expand_locals(e, pth))
    rep.ob("PageNode.path = location/stem.html", ok, "", py.nloc(pth))
    # symbolic values of the two properties, resolved through the class hierarchy (an `outfile` inherited from the base class
    # and built from `loc` is the same thing as two separate expressions)
    penv = {"self.out_dir": "{out}", "self.obj.path": "{path}"}
    loc_v, out_v = py.path_values("PagetreePage", "loc", penv), py.path_values("PagetreePage", "outfile", penv)
    loc = py.resolve_method("PagetreePage", "loc")[1]
    ok = loc_v == {f"{d_page}/{{path}}"} and out_v == {"{out}/" + v for v in loc_v}
    rep.ob("PagetreePage.loc/outfile use the same relative path", ok,
           "the search-index location and the written file agree with the URL" if ok else
           f"loc = {sorted(loc_v)}, outfile = {sorted(out_v)}: they no longer name the same file below '{d_page}'", py.nloc(loc))
    pn = py.ifunc("PageNode.__init__")
    locs = astq.assignments(pn, "self.location")
    rel = [v for _, v in locs if any(call_name(c).endswith("relpath") or call_name(c).endswith("relative_to") for c in ast.walk(v) if isinstance(c, ast.Call))]
    ok = bool(rel) and all("topdir" in ast.unparse(v) and "parent" in ast.unparse(v) for v in rel)
    tops = astq.assignments(pn, "self.topdir")
    ok = ok and any("self.parent.topdir" in ast.unparse(v) for _, v in tops)
    rep.ob("location is the directory relative to the top page directory", ok, "", py.nloc(pn))
    fnm = astq.assignments(pn, "self.filename")
    ok = bool(fnm) and all("stem" in ast.unparse(v) for _, v in fnm)
    rep.ob("file stem is kept", ok, "", py.nloc(pn), nontrivial=False)
    rep.stats["layout_literals"] = {"page": a_page, "media": a_media}


def r4_conversion_path(ctx, rep):
    py = ctx.py
    pn = py.ifunc("PageNode.__init__")
    conv = [c for c in astq.calls(pn, "convert")]
    if not conv:
        raise AnalysisError("PageNode.__init__: md.convert call not found")
    bp = py.func("BasePage.__init__")
    d_page = page_dir_name(py)
    for c in conv:
        kw = {k.arg: k.value for k in c.keywords}
        if "path" not in kw:
            rep.ob("page text is converted relative to its own output directory", False,
                   "md.convert is called without path=: relative links of static pages are not rewritten", py.nloc(c))
            continue
        lits = [l for l in astq.path_literals(kw["path"], pn) if l]
        ok = lits == [d_page] and astq.mentions(kw["path"], "output_dir", pn) and (
            astq.mentions_whole(kw["path"], "self.path.parent", pn) or astq.mentions_whole(kw["path"], "self.location", pn))
        rep.ob("page text is converted relative to its own output directory", ok,
               f"links in a nested page are made relative to <out>/{d_page}/<sub-directory>" if ok else
               f"path= is built from {[ast.unparse(e) for e in astq.expand_locals(kw['path'], pn)]}: not <output_dir>/{d_page}/<directory of the page>",
               py.nloc(c))
    # ... and the converter uses that directory as it is given: every caller passes the *directory* the page is written to, so
    # nothing may step up from it - least of all on the evidence of `.suffix`, which a directory named `v1.2` has as well
    cv = py.ifunc("MetaMarkdown.convert")
    pname = "path"
    if pname not in [a.arg for a in cv.args.args + cv.args.kwonlyargs]:
        raise AnalysisError("MetaMarkdown.convert has no `path` parameter")

    def given(x):
        if isinstance(x, ast.Compare) and len(x.ops) == 1 and isinstance(x.left, ast.Name) and x.left.id == pname and \
                isinstance(x.comparators[0], ast.Constant) and x.comparators[0].value is None:
            return ("given", isinstance(x.ops[0], ast.IsNot))
        if isinstance(x, ast.Name) and x.id == pname:
            return ("given", True)
        return None
    cev = [e for e in astq.trace(cv) if e.kind == "assign" and e.target == "self.current_path" and e.value is not None]
    if not cev:
        raise AnalysisError("MetaMarkdown.convert: no assignment to self.current_path")
    seen_given = 0
    for e in cev:
        if astq.event_fires(e, given, {"given": True}) is False:
            continue
        seen_given += 1
        made = astq.expand_locals(e.value, cv)
        moved = [x for m in made for x in ast.walk(m)
                 if (isinstance(x, ast.Attribute) and x.attr in ("parent", "parents", "suffix", "stem") and
                     any(isinstance(y, ast.Name) and y.id == pname for y in ast.walk(x.value)))
                 or (isinstance(x, ast.Call) and call_name(x).split(".")[-1] in ("dirname", "split", "splitext", "with_suffix", "with_name") and
                     any(isinstance(y, ast.Name) and y.id == pname for y in ast.walk(x)))]
        rep.ob("an explicit path= is the base of the page's relative links as it stands", not moved,
               "self.current_path is the directory the caller names" if not moved else
               f"`{ast.unparse(moved[0])}`: the directory handed in by the page tree is taken for a file (a directory called `v1.2` has a "
               f"suffix too) and every relative link, |page|/|media| address and [[entity]] link on its pages is computed one level too high",
               py.nloc(e.node))
    if not seen_given:
        raise AnalysisError("MetaMarkdown.convert: current_path is never set from an explicit path")
    gdef = py.ifunc("pagetree.get_page_tree")
    gp = [c for c in py.walk_calls(py.func("__init__.main")) if call_name(c).split(".")[-1] == "get_page_tree"]
    if not gp:
        raise AnalysisError("main: get_page_tree call not found")
    b = astq.bind_args(gp[0], gdef)
    want = {"topdir": "page_dir", "proj_copy_subdir": "copy_subdir", "output_dir": "output_dir"}
    ok = all(k in b and ast.unparse(b[k]).endswith("." + v) for k, v in want.items()) and "md" in b
    rep.ob("main hands page_dir, copy_subdir, output_dir and the converter to get_page_tree", ok,
           f"{ {k: ast.unparse(v) for k, v in b.items()} }", "ford/__init__.py")
    rec = [c for c in py.walk_calls(gdef) if call_name(c) == "get_page_tree"]
    if not rec:
        raise AnalysisError("get_page_tree: recursive call not found")
    b = astq.bind_args(rec[0], gdef)
    ok = all(k in b and ast.unparse(b[k]) == k for k in ("proj_copy_subdir", "output_dir", "md")) and \
        "parent" in b and ast.unparse(b["parent"]) != "parent" and "topdir" in b and ast.unparse(b["topdir"]) != "topdir"
    rep.ob("recursion keeps output_dir and passes the parent node", ok, f"{ {k: ast.unparse(v) for k, v in b.items()} }", "ford/pagetree.py")
    idef = py.ifunc("PageNode.__init__")
    for c in _ctor_calls(gdef):
        b = astq.bind_args(c, idef, skip_self=True)
        ok = all(k in b for k in ("md", "path", "output_dir", "proj_copy_subdir", "parent")) and ast.unparse(b["output_dir"]) == "output_dir"
        rep.ob(f"PageNode({ast.unparse(b.get('path', c))[:20]}...) receives output_dir", ok, "", py.nloc(c), nontrivial=False)


def r5_copy_for_every_page(ctx, rep):
    py = ctx.py
    fn = py.ifunc("PagetreePage.writeout")
    loops = [n for n in ast.walk(fn) if isinstance(n, ast.For)]
    cs = [l for l in loops if ast.unparse(l.iter).endswith(".copy_subdir")]
    fl = [l for l in loops if ast.unparse(l.iter).endswith(".files")]
    if not cs or not fl:
        raise AnalysisError(f"PagetreePage.writeout: copy loops not found ({[ast.unparse(l.iter) for l in loops]})")
    par = astq.parents_of(fn)
    for l, what in ((cs[0], "copy_subdir"), (fl[0], "files")):
        conds = astq.conditions_of(l, par, stop=fn)
        # early returns that precede the loop at function level
        early = [r for r in ast.walk(fn) if isinstance(r, ast.Return) and r.lineno < l.lineno]
        ok = not conds and not early
        rep.ob(f"{what} are copied for every page", ok,
               "the copy loop runs unconditionally" if ok else
               (f"writeout returns before the {what} loop for some pages" if early else
                f"the {what} loop only runs under `{ast.unparse(conds[0][0])}`") +
               ": assets named by a non-index page are silently not copied", py.nloc(early[0]) if early else py.nloc(l))
    sup = [c for c in ast.walk(fn) if isinstance(c, ast.Call) and isinstance(c.func, ast.Attribute) and c.func.attr == "writeout"
           and isinstance(c.func.value, ast.Call) and call_name(c.func.value) == "super"]
    rep.ob("the page itself is written", bool(sup) and not astq.conditions_of(sup[0], par, stop=fn) if sup else False, "", py.nloc(fn))
    mk = [c for c in astq.calls(fn, "mkdir", "makedirs")
          if any("location" in ast.unparse(x) for a in [c.func.value if isinstance(c.func, ast.Attribute) else c] + list(c.args)
                 for x in astq.expand_locals(a, fn))]
    ok = bool(mk) and bool(sup) and mk[0].lineno < sup[0].lineno
    rep.ob("an index page creates its directory first", ok, "", py.nloc(fn))
    ct = py.func("output.copytree")
    uses_lib = any(call_name(c) in ("shutil.copytree",) for c in py.walk_calls(ct))
    mk = [c for c in py.walk_calls(ct) if isinstance(c.func, ast.Attribute) and c.func.attr == "mkdir"]
    mk_ok = all(any(k.arg == "parents" and isinstance(k.value, ast.Constant) and k.value.value is True for k in c.keywords) for c in mk)
    ok = uses_lib or (bool(mk) and mk_ok) or any(call_name(c) in ("os.makedirs",) for c in py.walk_calls(ct))
    rep.ob("copy helper creates missing parent directories", ok,
           "shutil.copytree / makedirs semantics" if ok else
           "copytree() creates the destination with a plain mkdir(): a nested `copy_subdir: assets/img` whose parent does not "
           "exist in the output fails and the directory is silently not copied", py.nloc(ct))
    pn = py.ifunc("PageNode.__init__")
    asg = astq.assignments(pn, "self.copy_subdir")
    ok = bool(asg) and any(isinstance(v, (ast.BoolOp, ast.IfExp)) and "meta.copy_subdir" in ast.unparse(v)
                           and "proj_copy_subdir" in ast.unparse(v) and
                           ast.unparse(v).index("meta.copy_subdir") < ast.unparse(v).index("proj_copy_subdir") for _, v in asg)
    rep.ob("page-level copy_subdir overrides the project setting", ok, "", "ford/pagetree.py")
    # the project-wide copy_subdir names sub-directories of *each page directory*: it must reach the copy loop as a relative
    # name.  The copy loop rejects absolute entries, so the option must not be made absolute with the other path options
    rejects_abs = any(isinstance(c, ast.Call) and call_name(c).split(".")[-1] in ("isabs", "is_absolute") for c in ast.walk(cs[0]))
    np_ = py.func("ProjectSettings.normalise_paths")
    ftype = ""
    for st in py.cls("ProjectSettings").node.body:
        if isinstance(st, ast.AnnAssign) and isinstance(st.target, ast.Name) and st.target.id == "copy_subdir":
            ftype = ast.unparse(st.annotation)
    if not ftype:
        raise AnalysisError("ProjectSettings.copy_subdir not found")
    generic = any(isinstance(c, ast.Call) and call_name(c).split(".")[-1] == "is_same_type" and len(c.args) == 2
                  and ast.unparse(c.args[1]) == ftype for c in ast.walk(np_))
    exempt = any(isinstance(k, ast.Constant) and k.value == "copy_subdir" for k in ast.walk(np_))
    ok = not (rejects_abs and generic and not exempt)
    rep.ob("the project-wide copy_subdir stays a relative name", ok,
           "not rooted at the project directory with the other path options" if ok else
           f"copy_subdir is declared {ftype} and normalise_paths makes every {ftype} option absolute, while the copy loop skips "
           f"absolute entries: `copy_subdir: media` in the project file is never copied for any page", py.nloc(np_), nontrivial=not ok)
    # directories named by the index page of a directory are copied verbatim, not rendered: the recursion of get_page_tree
    # skips them - by the copy_subdir of the node built from THIS directory's index file, compared as names
    gpt = py.ifunc("pagetree.get_page_tree")
    node_var = next((t.id for st in ast.walk(gpt) if isinstance(st, ast.Assign) and isinstance(st.value, ast.Call)
                     and call_name(st.value) == "PageNode" and any("index" in ast.unparse(a) for a in st.value.args)
                     for t in st.targets if isinstance(t, ast.Name)), None)
    if node_var is None:
        raise AnalysisError("get_page_tree: the node of the directory's index page was not found")
    skips = [c for c in ast.walk(gpt) if any(isinstance(a, ast.Attribute) and a.attr == "copy_subdir" for a in ast.walk(c))
             and isinstance(c, (ast.Compare, ast.Call)) and not any(c is not p and c in list(ast.walk(p)) for p in ast.walk(gpt)
                                                                    if isinstance(p, (ast.Compare, ast.Call)) and any(
                                                                        isinstance(a, ast.Attribute) and a.attr == "copy_subdir" for a in ast.walk(p)))]
    for c in skips:
        owners = {ast.unparse(a.value) for a in ast.walk(c) if isinstance(a, ast.Attribute) and a.attr == "copy_subdir"}
        own_ok = owners == {node_var}
        # element type: a bare `name in <list of Path>` compares str with Path and is never true
        is_in = isinstance(c, ast.Compare) and isinstance(c.ops[0], (ast.In, ast.NotIn))
        # (`name in map(str, xs)` / `name in [str(x) for x in xs]` compare strings with strings)
        bare = is_in and isinstance(c.comparators[0], ast.Attribute) and c.comparators[0].attr == "copy_subdir"
        typed_ok = not (bare and isinstance(c.left, ast.Name) and "Path" in ftype)
        ok = own_ok and typed_ok
        rep.ob("copied sub-directories are not rendered as pages", ok,
               f"skipped by the copy_subdir of `{node_var}`, compared as names" if ok else
               (f"`{ast.unparse(c)[:60]}` consults {sorted(owners)} instead of `{node_var}` (the page of the directory being listed)"
                if not own_ok else
                f"`{ast.unparse(c)[:60]}` compares a file name (str) with {ftype} entries: never equal") +
               ": a copy_subdir directory is also walked as a page directory (spurious 'index.md does not exist' warning, or rendered "
               "and copied at once), and a same-named directory two levels down is silently dropped", py.nloc(c), nontrivial=not ok)
    if not skips:
        raise AnalysisError("get_page_tree: no test involving copy_subdir found")


def r6_links_and_empty_pages(ctx, rep):
    py = ctx.py
    fa = py.func("RelativeLinksTreeProcessor._fix_attrib")
    t = ast.unparse(fa)
    splits = "urlsplit" in t or "urlparse" in t or ".partition('#')" in t or ".split('#'" in t
    keeps = ("urlunsplit" in t or "fragment" in t or "geturl" in t) if splits else True
    rep.ob("relative-link rewriting keeps #fragment and ?query", keeps,
           "the whole attribute value is rewritten (fragment and query survive)" if keeps else
           "_fix_attrib splits the URL and rewrites the attribute from its path only: `|page|/x.html#section` links lose "
           "the section", py.nloc(fa))
    ok = "relpath(tag_path, self.md.current_path)" in t or "relpath(" in t
    rep.ob("links below the output directory are made relative to the current page", ok, "", py.nloc(fa))
    mp = py.func("utils.meta_preprocessor")
    n = 0
    for sub in ast.walk(mp):
        if isinstance(sub, ast.Subscript) and ast.unparse(sub.value) == "lines" and isinstance(sub.ctx, ast.Load) \
                and isinstance(sub.slice, ast.Constant):
            n += 1
            p = sub
            guarded = False
            while p is not mp:
                child = p
                p = py.parents[p]
                if isinstance(p, ast.BoolOp) and isinstance(p.op, ast.And) and any(
                        ast.unparse(v) == "lines" for v in p.values[:p.values.index(child)] if child in p.values):
                    guarded = True
                if isinstance(p, (ast.While, ast.If)) and ast.unparse(p.test) in ("lines", "len(lines) > 0") and child in p.body:
                    guarded = True
            rep.ob(f"meta_preprocessor: lines[{sub.slice.value}] is read only when lines is non-empty", guarded,
                   "an empty page / empty doc comment has no metadata and no error" if guarded else
                   "`lines[0]` is read without checking that the file has any line: an empty .md page raises IndexError, "
                   "which the `except ValueError` around sub-pages does not catch - the whole run aborts instead of "
                   "skipping the page", py.nloc(sub))
    if n == 0:
        raise AnalysisError("meta_preprocessor: `lines[0]` access not found")



def r7_memo(ctx, rep):
    """a cache in the Markdown layer must be keyed by everything the cached element depends on - in particular the
    location of the page being converted (links are made relative to it)"""
    n = common.memo_soundness(ctx, rep, modules=("_markdown", "pagetree"))
    if n == 0:
        rep.ob("no cache in the Markdown layer", True, "links are computed per conversion", "ford/_markdown.py", nontrivial=False)



def r8_one_page_per_file(ctx, rep):
    """a Markdown file becomes a page of the same name: the output name is the file name with `.md` replaced once.
    (generic rule `double_suffix_strip`; shared with C10, two pages must not share an output file)"""
    from . import common
    common.double_suffix_strip(ctx, rep)

def r9_root_alias_is_relative(ctx, rep):
    """`|url|` expands to the output directory itself.  The tree processor that turns absolute targets below the output
    directory into relative ones decides "below" with a containment test; `base in path.parents` is false for `path == base`,
    so `[home](|url|)` keeps the absolute build path.  The test has to include the directory itself (`==`, `(p, *p.parents)` or
    `is_relative_to`)."""
    py = ctx.py
    cls = py.cls("RelativeLinksTreeProcessor")
    n = 0
    for mname, fn in cls.methods.items():
        for c in ast.walk(fn):
            if isinstance(c, ast.Call) and isinstance(c.func, ast.Attribute) and c.func.attr == "is_relative_to":
                n += 1
                rep.ob(f"RelativeLinksTreeProcessor.{mname}: containment test includes the directory itself", True,
                       "is_relative_to", py.nloc(c))
            if not (isinstance(c, ast.Compare) and len(c.ops) == 1 and isinstance(c.ops[0], (ast.In, ast.NotIn))):
                continue
            right = c.comparators[0]
            if isinstance(right, ast.Attribute) and right.attr == "parents":
                n += 1
                path = ast.unparse(right.value)
                # an accompanying equality test of the same operands in the same boolean expression
                par = py.parents.get(c)
                eq = isinstance(par, ast.BoolOp) and any(
                    isinstance(v, ast.Compare) and isinstance(v.ops[0], (ast.Eq, ast.NotEq)) and
                    {ast.unparse(v.left), ast.unparse(v.comparators[0])} == {ast.unparse(c.left), path} for v in par.values)
                rep.ob(f"RelativeLinksTreeProcessor.{mname}: containment test includes the directory itself", eq,
                       "equality is tested alongside" if eq else
                       f"`{ast.unparse(c)}` is false when `{path}` *is* `{ast.unparse(c.left)}`: a link whose target is the alias "
                       f"`|url|` alone stays the absolute path of the build directory", py.nloc(c))
            elif isinstance(right, (ast.Tuple, ast.List)) and any(
                    isinstance(e, ast.Starred) and isinstance(e.value, ast.Attribute) and e.value.attr == "parents" for e in right.elts):
                n += 1
                star = next(e for e in right.elts if isinstance(e, ast.Starred))
                ok = any(not isinstance(e, ast.Starred) and ast.unparse(e) == ast.unparse(star.value.value) for e in right.elts)
                rep.ob(f"RelativeLinksTreeProcessor.{mname}: containment test includes the directory itself", ok,
                       f"`{ast.unparse(right)[:50]}`", py.nloc(c))
    if n < 1:
        raise AnalysisError("RelativeLinksTreeProcessor: the containment test of the base URL was not found")


def r10_navigation_reaches_every_depth(ctx, rep):
    """The page tree is a tree of any depth (`subpages` of `subpages` ...).  The navigation lists every page only if whatever
    renders the `subpages` of a node renders the `subpages` of each of these in turn: a `{% for ... recursive %}` loop that calls
    `loop(<item>.subpages)`, or a macro that calls itself.  A fixed number of nested loops stops at that depth - deeper pages are
    still written, but nothing in the navigation leads to them."""
    from jinja2 import nodes as N
    from ..jmodel import sym
    py, j = ctx.py, ctx.j
    tpls = sorted({py.eval_str(py.classes[c].class_attrs["template_path"]) for c in py.subclasses("BasePage")
                   if c == "PagetreePage" and "template_path" in py.classes[c].class_attrs} - {None})
    if not tpls:
        raise AnalysisError("PagetreePage.template_path not found")
    n = 0
    for tpl in tpls:
        t = j.templates[tpl]
        macros = {m.name: m for m in t.find_all(N.Macro)}

        def is_subpages(e) -> bool:
            return isinstance(e, N.Getattr) and e.attr == "subpages"
        loops = [f for f in t.find_all(N.For) if is_subpages(f.iter)]
        # outermost loops only (a loop nested in another loop over subpages is part of that one's rendering)
        inner = {id(g) for f in loops for g in f.find_all(N.For) if g is not f}
        for f in loops:
            if id(f) in inner:
                continue
            n += 1
            tgt = f.target.name if isinstance(f.target, N.Name) else None
            recurses = bool(f.recursive) and any(isinstance(c.node, N.Name) and c.node.name == "loop" and c.args and is_subpages(c.args[0])
                                                 and isinstance(c.args[0].node, N.Name) and c.args[0].node.name == tgt
                                                 for c in f.find_all(N.Call))
            enclosing = [m for m in macros.values() if any(x is f for x in m.find_all(N.For))]
            self_call = any(isinstance(c.node, N.Name) and c.node.name == m.name for m in enclosing for c in m.find_all(N.Call))
            ok = recurses or self_call
            rep.ob(f"template={tpl} loop over {sym(f.iter)} (line {f.lineno})", ok,
                   "renders the sub-pages of every sub-page in turn (recursive loop)" if ok else
                   f"the loop over `{sym(f.iter)}` renders a fixed number of levels: pages further down the tree appear in no "
                   f"navigation, not even on their own page", f"ford/templates/{tpl}:{f.lineno}")
    if n == 0:
        raise AnalysisError("no loop over `subpages` in the static-page template")


# priorities with which third-party Markdown extensions register their preprocessors (python-markdown runs preprocessors in
# descending priority); read from the installed package when it is there, else the reviewed value
THIRD_PARTY_PREPROCESSORS = {"markdown_include.include": ("include", 101)}


def _third_party_priority(modname: str, default: int) -> int:
    import importlib.util
    try:
        spec = importlib.util.find_spec(modname)
        src = open(spec.origin, encoding="utf-8").read() if spec and spec.origin else ""
        for c in ast.walk(ast.parse(src)):
            if isinstance(c, ast.Call) and isinstance(c.func, ast.Attribute) and c.func.attr == "register" and len(c.args) == 3 \
                    and "preprocessors" in ast.unparse(c.func.value) and isinstance(c.args[2], ast.Constant):
                return int(c.args[2].value)
    except Exception:
        pass
    return default


def r11_aliases_in_included_text(ctx, rep):
    """`|page|`, `|media|`, `|url|` are substituted by a Markdown preprocessor; text pulled in with `{!file!}` is inserted by
    another preprocessor (markdown_include).  Preprocessors run in descending priority: the alias pass has to come *after* the
    include pass, otherwise aliases in included snippets are written to the page as they stand."""
    py = ctx.py
    if not any(isinstance(c, ast.Constant) and c.value == "markdown_include.include" for c in ast.walk(py.modules["_markdown"])):
        rep.ob("alias substitution runs after file inclusion", True, "markdown_include is not among the default extensions",
               "ford/_markdown.py", nontrivial=False)
        return
    name, dflt = THIRD_PARTY_PREPROCESSORS["markdown_include.include"]
    inc = _third_party_priority("markdown_include.include", dflt)
    regs = [c for c in ast.walk(py.modules["_markdown"]) if isinstance(c, ast.Call) and isinstance(c.func, ast.Attribute)
            and c.func.attr == "register" and "preprocessors" in ast.unparse(c.func.value) and len(c.args) == 3
            and any(isinstance(x, ast.Call) and "Alias" in call_name(x) for x in ast.walk(c.args[0]))]
    if not regs:
        raise AnalysisError("_markdown: registration of the alias preprocessor not found")
    for c in regs:
        pr = py.eval_const(c.args[2], py.module_env("_markdown"))
        ok = isinstance(pr, (int, float)) and pr < inc
        rep.ob("alias substitution runs after file inclusion", ok,
               f"alias preprocessor priority {pr} < include preprocessor priority {inc}" if ok else
               f"the alias preprocessor is registered with priority {pr}, the include preprocessor with {inc}: aliases are replaced "
               f"before `{{!file!}}` is expanded, so `|page|` / `|media|` / `|url|` inside an included file stay in the output as text",
               py.nloc(c))


def r12_page_iteration_reaches_every_depth(ctx, rep):
    """`for page in page_tree` decides which static pages are written and indexed (Documentation.__init__).  The navigation walks
    `subpages` recursively on its own, so both must reach the same pages: iterating a node yields the node and, for each sub-page,
    everything that iterating *that sub-page* yields.  `yield from self.subpages` yields the children only - grandchildren are
    linked from every sidebar but never written."""
    py = ctx.py
    fn = py.func("PageNode.__iter__")
    sub_vars = set()
    for n in ast.walk(fn):
        if isinstance(n, (ast.For, ast.comprehension)) and isinstance(n.target, ast.Name) and ast.unparse(n.iter) == "self.subpages":
            sub_vars.add(n.target.id)
    recursion = False
    for n in ast.walk(fn):
        if isinstance(n, ast.Call):
            cn = call_name(n)
            # chain.from_iterable(self.subpages) / chain(*self.subpages) iterate every element
            if cn.endswith("from_iterable") and n.args and "self.subpages" in ast.unparse(n.args[0]):
                recursion = True
            if cn.split(".")[-1] == "chain" and any(isinstance(a, ast.Starred) and "self.subpages" in ast.unparse(a.value) for a in n.args):
                recursion = True
            if isinstance(n.func, ast.Attribute) and n.func.attr == "__iter__" and isinstance(n.func.value, ast.Name) and n.func.value.id in sub_vars:
                recursion = True
            if cn in ("iter", "list", "tuple") and n.args and isinstance(n.args[0], ast.Name) and n.args[0].id in sub_vars:
                recursion = True
        if isinstance(n, ast.YieldFrom) and isinstance(n.value, ast.Name) and n.value.id in sub_vars:
            recursion = True
        if isinstance(n, (ast.For, ast.comprehension)) and isinstance(n.iter, ast.Name) and n.iter.id in sub_vars:
            recursion = True
        if isinstance(n, ast.Starred) and isinstance(n.value, ast.Name) and n.value.id in sub_vars:
            recursion = True
    rep.ob("PageNode.__iter__ yields the pages of every depth", recursion,
           "each sub-page is iterated in turn" if recursion else
           "iterating a page yields the page and its direct sub-pages only: pages further down are linked in the navigation but are never "
           "written or indexed", py.nloc(fn))


def r13_line_patterns_stay_in_their_line(ctx, rep):
    """A Markdown preprocessor receives the page as a list of lines.  A pattern written for one line (`\\|([^ ].*?[^ ]?)\\|` - an
    alias) can be applied to the joined text only if no match of it can contain a line break; a negated class such as `[^ ]` does
    match `\\n`, so on the joined text the closing pipe of one table row and the opening pipe of the next become an "alias", and
    the real alias behind it (`|page|/x.html` at the start of a row) is not substituted.  Decided per application: the subject
    is one line (an element of the line list), or the language of the pattern's matches contains no line break."""
    py, rx = ctx.py, ctx.rx
    n = 0
    for cname, cls in py.classes.items():
        if not any(b.endswith("Preprocessor") for b in py.mro(cname)[1:] + [ast.unparse(b) for b in cls.node.bases]):
            continue
        if "run" not in cls.methods:
            continue
        fn = py.ifunc(f"{cname}.run")
        params = [a.arg for a in fn.args.args]
        if len(params) < 2:
            continue
        lines = params[1]
        line_vars = set()
        for x in ast.walk(fn):
            if isinstance(x, (ast.For, ast.comprehension)):
                it = x.iter
                if isinstance(it, ast.Call) and call_name(it) == "enumerate" and it.args:
                    it, tg = it.args[0], (x.target.elts[1] if isinstance(x.target, ast.Tuple) and len(x.target.elts) == 2 else None)
                else:
                    tg = x.target
                if isinstance(tg, ast.Name) and any(isinstance(y, ast.Name) and y.id == lines for y in ast.walk(it)):
                    line_vars.add(tg.id)
        for c in ast.walk(fn):
            if not (isinstance(c, ast.Call) and isinstance(c.func, ast.Attribute) and c.func.attr in ("sub", "subn", "search", "match", "finditer", "findall")):
                continue
            owner = c.func.value
            if isinstance(owner, ast.Name) and owner.id == "re":
                pat_e, subj = (c.args[0] if c.args else None), (c.args[2] if c.func.attr in ("sub", "subn") and len(c.args) > 2 else c.args[1] if len(c.args) > 1 else None)
            else:
                pat_e, subj = owner, (c.args[1] if c.func.attr in ("sub", "subn") and len(c.args) > 1 else c.args[0] if c.args else None)
            if pat_e is None or subj is None:
                continue
            key = None
            if isinstance(pat_e, ast.Attribute):
                key = next((k for k in ctx.regexes if k.endswith(f"{cname}.{pat_e.attr}") or k.split(".")[-1] == pat_e.attr), None)
            elif isinstance(pat_e, ast.Name):
                key = next((k for k in ctx.regexes if k.split(".")[-1] == pat_e.id), None)
            if key is not None:
                pat, flags = ctx.regexes[key][0], ctx.regexes[key][1]
            elif isinstance(pat_e, ast.Constant) and isinstance(pat_e.value, str):
                pat, flags, key = pat_e.value, 0, repr(pat_e.value)
            else:
                continue
            made = astq.expand_locals(subj, fn)
            joined = any(isinstance(y, ast.Call) and isinstance(y.func, ast.Attribute) and y.func.attr == "join" and
                         any(isinstance(z, ast.Name) and z.id == lines for a in y.args for z in ast.walk(a))
                         for m in made for y in ast.walk(m))
            one_line = not joined and any(isinstance(y, ast.Name) and y.id in line_vars for m in made for y in ast.walk(m))
            n += 1
            if one_line:
                rep.ob(f"{cname}.run: {key} is applied to one line at a time", True, "the subject is an element of the line list", py.nloc(c))
                continue
            if not joined:
                rep.ob(f"{cname}.run: subject of {key}", True, "neither a line nor the joined text - not decided", py.nloc(c), nontrivial=False)
                continue
            try:
                w = rx.atoms_consuming(pat, "\n", flags)
            except rx.Unsupported as e:
                raise AnalysisError(f"{cname}.run: {key}: {e}")
            rep.ob(f"{cname}.run: {key} on the joined text cannot match across a line break", not w,
                   "no item of the pattern accepts a line break" if not w else
                   f"{w} accept(s) a line break: text of two neighbouring lines is taken for one item, and what really starts on the second "
                   f"line (an alias at the start of a table row) is passed over", py.nloc(c))
    if n == 0:
        raise AnalysisError("no pattern application found in any preprocessor")


RULES = [
    RuleSpec("C17.R6", r6_links_and_empty_pages, "link fragments survive; an empty page is harmless", floor=1),
    RuleSpec("C17.R1", r1_containment, "containment of a bad page", floor=2),
    RuleSpec("C17.R2", r2_order, "ordering and exactly-once pages", floor=3),
    RuleSpec("C17.R3", r3_layout_names, "layout names agree", floor=4),
    RuleSpec("C17.R4", r4_conversion_path, "conversion path per page", floor=2),
    RuleSpec("C17.R5", r5_copy_for_every_page, "assets copied for every page", floor=2),
    RuleSpec("C17.R8", r8_one_page_per_file, "the page name keeps every dot of the file name but the last suffix", floor=1),
    RuleSpec("C17.R7", r7_memo, "no cached link element outlives the page it was made for", floor=1),
    RuleSpec("C17.R9", r9_root_alias_is_relative, "the alias of the output root itself is made relative", floor=1),
    RuleSpec("C17.R10", r10_navigation_reaches_every_depth, "the page navigation is rendered to every depth of the page tree", floor=1),
    RuleSpec("C17.R11", r11_aliases_in_included_text, "aliases are substituted after included files were inserted", floor=1),
    RuleSpec("C17.R12", r12_page_iteration_reaches_every_depth, "iterating the page tree reaches every depth", floor=1),
    RuleSpec("C17.R13", r13_line_patterns_stay_in_their_line, "line patterns are applied per line or cannot span a line break", floor=2),
]
