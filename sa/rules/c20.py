"""C20 — an unparseable file is skipped without disturbing the rest (structural clauses)."""
from __future__ import annotations

import ast
import re
from typing import Dict, List, Optional, Set, Tuple

from ..core import AnalysisError, RuleSpec
from . import common
from ..pymodel import call_name
from .. import astq
from . import c19

EXPLANATION = (
    "Containment rules. R1: in Project.__init__ the try body contains both parse branches; the handler "
    "catches Exception, re-raises only when dbg is off, otherwise warns with a message interpolating "
    "the file's path and continues; dbg defaults to True and --debug to None. R2 (no partial "
    "registration, no cross-file state): FortranSourceFile(...) dominates every mutation of a Project "
    "list in _fortran_file; no class attribute holding a mutable container is mutated through self "
    "and no mutable default argument is mutated (state that would survive a rejected file); the page "
    "numbering registry is not reachable from the parsing constructors. R3: every malformed-nesting "
    "condition raises: the statement after the dispatch loop is an unconditional raise for every "
    "non-file container, END at file level and misplaced constructs go through print_error with the "
    "offending line, and print_error raises unless dbg/force. R4: cursor progress in the three "
    "QUOTES_RE masking loops - search_from grows by a match end that the regex-language engine "
    "proves non-empty. Termination of FORD on every input is not decided."
    " Added after waves 6/7 - diagnostics escape the text they report before it reaches rich's markup parser; parse-time code never turns an entity into text (which would take a page name); regex repeats are free of iteration-boundary ambiguity (exponential backtracking)."
)
ASSUMPTIONS = ["regex backtracking time and recursion depth are run-time quantities outside this analysis"]


def r1_containment(ctx, rep):
    """Decided on the event trace of Project.__init__ with its own helper methods inlined: both parse calls run inside
    a per-file try whose handler catches Exception, reports the file, re-raises only without dbg and goes on."""
    py = ctx.py
    fn = py.func("Project.__init__")
    res0 = astq.class_method_resolver(py, "Project", "fortran_project")

    def res(c):
        # the parse itself is the boundary: do not look inside _fortran_file
        if call_name(c).endswith("_fortran_file"):
            return None
        return res0(c)
    ev = astq.trace(fn, res, max_depth=2)
    parses = [e for e in ev if e.kind == "call" and (call_name(e.node).endswith("_fortran_file") or call_name(e.node) == "GenericSource")]
    if len(parses) < 2:
        raise AnalysisError("Project.__init__: the two parse calls (_fortran_file, GenericSource) were not found")
    guarded = [[p for p in e.protected if p[0] == "try" and "Exception" in p[1]] for e in parses]
    ok = all(guarded)
    rep.ob("per-file try covers both parse branches", ok,
           "Fortran and extra-filetype parsing are both inside the try" if ok else
           "a parse branch is outside the per-file try", py.nloc(parses[0].node))
    tries = {id(g[-1][2]): g[-1][2] for g in guarded if g}
    if not tries:
        rep.ob("try is inside the per-file loop", False, "", py.nloc(fn))
        return
    t = list(tries.values())[0]
    inloop = all(e.loops for e in parses)
    rep.ob("try is inside the per-file loop", inloop, "", py.nloc(t))
    hs = [h for h in t.handlers if "Exception" in astq.handler_types(h) or "BaseException" in astq.handler_types(h)]
    ok = len(hs) == 1
    rep.ob("handler catches Exception", ok, "any parsing error is contained" if ok else
           f"handler types are {[astq.handler_types(h) for h in t.handlers]}", py.nloc(t))
    if not hs:
        return
    h = hs[0]
    # events of the handler body (helpers inlined)
    hev = astq.trace_block(h.body, fn, res0)
    raises = [e for e in hev if e.kind == "raise"]
    ok = bool(raises) and all(any(re.fullmatch(r"not (\w+\.)*dbg", c) for c in e.cond_texts()) for e in raises)
    rep.ob("re-raise only when dbg is off", ok, "", py.nloc(h))
    warns = [e for e in hev if e.kind == "call" and call_name(e.node).split(".")[-1] in ("warn", "warning", "print")]
    names_file = False
    for w in warns:
        txt = w.text()
        names_file = names_file or "relative_path" in txt or "filename" in txt
        # or through an inlined message helper
    if not names_file:
        names_file = any(e.kind in ("assign", "return") and e.value is not None and ("relative_path" in e.text(e.value) or "filename" in e.text(e.value))
                         for e in hev if e.depth > 0)
    ok = bool(warns) and names_file
    rep.ob("diagnostic names the file", ok, "the warning interpolates the file's path" if ok else
           "the warning no longer names the rejected file", py.nloc(warns[0].node) if warns else py.nloc(h))
    # after the handler the loop goes on: no unconditional return/break/raise on the dbg path
    leaves = [e for e in hev if (e.kind == "return" and e.depth == 0) or (e.kind == "jump" and isinstance(e.node, ast.Break))
              or (e.kind == "raise" and not any("dbg" in c for c in e.cond_texts()))]
    rep.ob("handler continues with the next file", not leaves,
           "" if not leaves else "the handler leaves the per-file loop: files after the rejected one are not parsed", py.nloc(h))
    # the handler itself must not raise: e.args[k] only under a length/truthiness test of args
    for hostfn, root in [(fn, h)] + [(x.fn, x.fn) for x in hev if x.kind == "inline" for x in [x]][:0]:
        pass
    hosts = [h] + list({id(e.fn): e.fn for e in hev if e.depth > 0}.values())
    for host in hosts:
        hpar = astq.parents_of(host)
        for sub in ast.walk(host):
            if isinstance(sub, ast.Subscript) and ast.unparse(sub.value).endswith(".args") and isinstance(sub.slice, ast.Constant):
                p = sub
                guarded2 = False
                while p in hpar:
                    p = hpar[p]
                    if isinstance(p, (ast.IfExp, ast.If)) and ".args" in ast.unparse(p.test):
                        guarded2 = True
                rep.ob(f"handler reads {ast.unparse(sub)} only when it exists", guarded2,
                       "guarded by a test of args" if guarded2 else
                       f"`{ast.unparse(sub)}` is evaluated unconditionally inside the handler: an exception raised without "
                       f"arguments (NotImplementedError(), StopIteration()) makes the handler itself fail with IndexError and the "
                       f"whole run aborts", py.nloc(sub))
    # defaults
    ps = py.cls("ProjectSettings")
    dbg = ps.class_attrs.get("dbg")
    ok = isinstance(dbg, ast.Constant) and dbg.value is True
    rep.ob("ProjectSettings.dbg defaults to True", ok, "", py.nloc(ps.node))
    from . import c15
    d = c15.cli_dests(py).get("dbg")
    dflt = [k.value for k in d.keywords if k.arg == "default"] if d is not None else []
    ok = bool(dflt) and isinstance(dflt[0], ast.Constant) and dflt[0].value is None
    rep.ob("--debug defaults to None (does not override)", ok, "", py.nloc(d) if d is not None else "ford/__init__.py")


MUTATORS = ("append", "extend", "insert", "pop", "remove", "clear", "update", "add", "discard", "setdefault", "popitem")


def mutable_literal(v: ast.AST) -> bool:
    if isinstance(v, (ast.List, ast.Dict, ast.Set, ast.ListComp, ast.DictComp, ast.SetComp)):
        return True
    if isinstance(v, ast.Call) and call_name(v) in ("list", "dict", "set", "defaultdict", "collections.defaultdict",
                                                    "OrderedDict", "deque"):
        return True
    return False


_PARSE_TIME = ("__init__", "_initialize", "_cleanup", "_common_initialize", "_procedure_initialize")
_ENTITY_TEXT = re.compile(r"self(\.parent)*")

_STR_OF_ENTITY_EXAMPLE = """
class FortranThing(FortranBase):
    def _cleanup(self):
        if bad:
            raise ValueError(f"Non-integer in {self.parent.obj} '{self.parent}'.")
        raise ValueError(f"fine: '{self.parent.name}' {self.name!r}")
"""


def _str_of_entity_sites(fn: ast.AST):
    """expressions that turn an entity (`self`, `self.parent`, ...) into text: `f"{self.parent}"`, `str(self)`, `"%s" % self`"""
    out = []
    for x in ast.walk(fn):
        if isinstance(x, ast.FormattedValue) and _ENTITY_TEXT.fullmatch(ast.unparse(x.value)):
            out.append(x)
        elif isinstance(x, ast.Call) and call_name(x) in ("str", "format") and len(x.args) == 1 and _ENTITY_TEXT.fullmatch(ast.unparse(x.args[0])):
            out.append(x)
        elif isinstance(x, ast.Call) and isinstance(x.func, ast.Attribute) and x.func.attr == "format" and any(
                _ENTITY_TEXT.fullmatch(ast.unparse(a)) for a in list(x.args) + [k.value for k in x.keywords]):
            out.append(x)
        elif isinstance(x, ast.BinOp) and isinstance(x.op, ast.Mod) and any(
                _ENTITY_TEXT.fullmatch(ast.unparse(a)) for a in (x.right.elts if isinstance(x.right, ast.Tuple) else [x.right])):
            out.append(x)
    return out


def _no_entity_text_while_parsing(ctx, rep):
    """`str(entity)` is not a pure operation: `FortranBase.__str__` builds a link, the link needs the URL, the URL needs `ident`,
    and `ident` takes the next free page name from the process-wide NameSelector.  While a file is being parsed (constructors,
    `_initialize`, `_cleanup`) nothing may do that - in particular no error message: the file is rejected, but the name of the
    enclosing unit is gone, and a valid unit of the same name in another file becomes `name~2` (its page moves)."""
    py = ctx.py
    ex = [n for n in ast.walk(ast.parse(_STR_OF_ENTITY_EXAMPLE)) if isinstance(n, ast.FunctionDef)]
    if [len(_str_of_entity_sites(f)) for f in ex] != [1]:
        raise AnalysisError("str-of-entity matcher fails on its own example")
    st = py.func("FortranBase.__str__")
    consumes = any(isinstance(a, ast.Attribute) and a.attr in ("full_url", "ident") or
                   (isinstance(a, ast.Call) and call_name(a).endswith("get_url")) for a in ast.walk(st))
    if not consumes:
        rep.ob("str(entity) does not hand out page names", True, "FortranBase.__str__ no longer reads the URL", py.nloc(st))
        return
    n = 0
    for cname, ci in sorted(py.classes.items()):
        if ci.module != "sourceform" or not py.is_subclass(cname, "FortranBase"):
            continue
        for mname, fn in ci.methods.items():
            if mname not in _PARSE_TIME:
                continue
            n += 1
            for x in _str_of_entity_sites(fn):
                rep.ob(f"{cname}.{mname}: no text is made of an entity while its file is parsed", False,
                       f"`{ast.unparse(x)[:50]}` calls FortranBase.__str__, which asks for the entity's URL and thereby takes a page "
                       f"name out of the shared NameSelector - also when the statement is an error message for a file that is then "
                       f"rejected: a valid entity of the same name in another file is renamed `~2` and its page moves", py.nloc(x))
    rep.ob("parse-time code never turns an entity into text", True, f"{n} constructors / _initialize / _cleanup methods inspected",
           "ford/sourceform.py", nontrivial=False)
    if n < 20:
        raise AnalysisError(f"only {n} parse-time methods found")


def r2_no_cross_file_state(ctx, rep):
    py = ctx.py
    _no_entity_text_while_parsing(ctx, rep)
    ff = py.func("Project._fortran_file")
    ctor_line = None
    for c in py.walk_calls(ff):
        if call_name(c) == "FortranSourceFile":
            ctor_line = c.lineno
    if ctor_line is None:
        raise AnalysisError("_fortran_file: FortranSourceFile(...) not found")
    muts = [c for c in py.walk_calls(ff) if re.fullmatch(r"self\.\w+\.(append|extend)", call_name(c) or "")]
    early = [c for c in muts if c.lineno < ctor_line]
    rep.ob("_fortran_file: construction dominates registration", not early and len(muts) >= 6,
           f"FortranSourceFile(...) precedes all {len(muts)} registrations into project lists" if not early else
           "a project list is mutated before the file has been parsed successfully", py.nloc(ff))
    # class-level mutable attributes mutated through self (shared by all instances, survive a rejected file)
    for mod in ("sourceform", "reader", "fixed2free2", "fortran_project"):
        for cname, ci in py.classes.items():
            if ci.module != mod:
                continue
            for attr, v in ci.class_attrs.items():
                if v is None or not mutable_literal(v):
                    continue
                assigned_in_init = any(
                    isinstance(n, (ast.Assign, ast.AnnAssign)) and any(
                        isinstance(t, ast.Attribute) and t.attr == attr and isinstance(t.value, ast.Name)
                        and t.value.id == "self" for t in (n.targets if isinstance(n, ast.Assign) else [n.target]))
                    for c2 in py.mro(cname) if c2 in py.classes
                    for n in ast.walk(py.classes[c2].methods.get("__init__", ast.Pass())))
                mutated = []
                for sub in py.subclasses(cname):
                    for m in py.classes[sub].methods.values():
                        for c in py.walk_calls(m):
                            if isinstance(c.func, ast.Attribute) and c.func.attr in MUTATORS and \
                                    ast.unparse(c.func.value) == f"self.{attr}":
                                mutated.append(c)
                        for n in ast.walk(m):
                            if isinstance(n, ast.Subscript) and isinstance(n.ctx, (ast.Store, ast.Del)) and \
                                    ast.unparse(n.value) == f"self.{attr}":
                                mutated.append(n)
                ok = not mutated or assigned_in_init
                rep.ob(f"class attribute {cname}.{attr}", ok,
                       ("mutable class-level container is never mutated through self" if not mutated else
                        "re-bound per instance in __init__") if ok else
                       f"`{cname}.{attr}` is a class-level {type(v).__name__.lower()} that is mutated through "
                       f"self.{attr} and never re-bound in __init__: all instances - in every file - share it, so "
                       f"what a rejected file leaves behind changes how later files are parsed",
                       py.nloc(mutated[0]) if mutated else py.nloc(ci.node))
    # mutable default arguments that are mutated
    n_def = 0
    for mod, fn in py.all_functions():
        if mod not in ("sourceform", "reader", "fortran_project", "utils"):
            continue
        a = fn.args
        params = a.posonlyargs + a.args
        for p, d in zip(params[len(params) - len(a.defaults):], a.defaults):
            if not (mutable_literal(d) or (isinstance(d, ast.Call) and call_name(d) in py.classes)):
                continue
            n_def += 1
            mutated = [c for c in py.walk_calls(fn) if isinstance(c.func, ast.Attribute) and c.func.attr in
                       MUTATORS + ("add_batch", "remove_last_batch") and ast.unparse(c.func.value) == p.arg]
            stored = [n for n in ast.walk(fn) if isinstance(n, ast.Assign) and isinstance(n.value, ast.Name)
                      and n.value.id == p.arg and any(isinstance(t, ast.Attribute) for t in n.targets)]
            # stored reference is harmless if it is copied/`or []`-ed by the callee (FortranBase: strings or [])
            ok = not mutated
            rep.ob(f"default argument {py.qualname(fn)}({p.arg}={ast.unparse(d)})", ok,
                   "shared default object is not mutated inside the function" if ok else
                   f"the shared default `{ast.unparse(d)}` is mutated: state leaks between calls/files", py.nloc(fn))
    # module-level registries written during parsing
    g = c19.simple_call_graph(py)
    by: Dict[str, List[str]] = {}
    props: Dict[str, List[str]] = {}
    for q in g:
        parts = q.split(".")
        is_method = len(parts) >= 3 and parts[-2] in py.classes
        by.setdefault(("m:" if is_method else "f:") + parts[-1], []).append(q)
    for cname, ci in py.classes.items():
        for p in ci.properties:
            props.setdefault(p, []).append(f"{ci.module}.{cname}.{p}")
        if "__init__" in ci.methods:
            by.setdefault("f:" + cname, []).append(f"{ci.module}.{cname}.__init__")
    seen: Set[str] = set()
    todo = ["sourceform.FortranSourceFile.__init__", "sourceform.FortranContainer.__init__",
            "sourceform.FortranBase.__init__", "sourceform.line_to_variables", "sourceform.GenericSource.__init__"]
    while todo:
        q = todo.pop()
        if q in seen or q not in g:
            continue
        seen.add(q)
        for n in g[q]:
            if n.startswith("@"):
                todo.extend(props.get(n[1:], []))
            elif n.startswith("q:"):
                todo.append(n[2:])
            else:
                todo.extend(by.get(n, []))
    hit = "sourceform.NameSelector.get_name" in seen
    rep.ob("page-name registry not reachable while parsing", not hit,
           f"{len(seen)} functions reachable from the parsing constructors (over-approximation); "
           "NameSelector.get_name is not among them, so a rejected file cannot shift another file's ~N suffix"
           if not hit else "NameSelector.get_name (global ~N numbering) is reachable from the parsing constructors: "
           "a file that is later rejected can consume a number", py.nloc(py.func("NameSelector.get_name")))


def r3_nesting_errors_raise(ctx, rep):
    py, cs = ctx.py, ctx.cascade
    aev = astq.trace_block(cs.after_loop, cs.fn) if cs.after_loop else []
    raises = [e for e in aev if e.kind == "raise"]

    def file_atom(x):
        # "this container is the file itself" / "the block level is zero", in any spelling
        if isinstance(x, ast.Call) and call_name(x) == "isinstance" and len(x.args) == 2 and ast.unparse(x.args[0]) == "self" and \
                "FortranSourceFile" in ast.unparse(x.args[1]):
            return ("file", True)
        if isinstance(x, ast.Name) and x.id == "blocklevel":
            return ("lvl0", False)
        if isinstance(x, ast.Compare) and len(x.ops) == 1:
            l, r, op = x.left, x.comparators[0], x.ops[0]
            for a, b, swapped in ((l, r, False), (r, l, True)):
                if isinstance(a, ast.Name) and a.id == "blocklevel" and isinstance(b, ast.Constant) and b.value in (0, 1):
                    kind = type(op)
                    if swapped:
                        kind = {ast.Lt: ast.Gt, ast.Gt: ast.Lt, ast.LtE: ast.GtE, ast.GtE: ast.LtE}.get(kind, kind)
                    if b.value == 0:
                        table = {ast.Eq: True, ast.NotEq: False, ast.Gt: False, ast.LtE: True}
                    else:
                        table = {ast.Lt: True, ast.GtE: False}
                    if kind in table:
                        return ("lvl0", table[kind])
        return None
    ok = bool(raises) and any(astq.event_fires(e, file_atom, {"file": False}) is True and
                              astq.event_fires(e, file_atom, {"file": True}) is False for e in raises)
    rep.ob("end of input inside a container raises", ok,
           "`if not isinstance(self, FortranSourceFile): raise ...` follows the dispatch loop" if ok else
           "reaching the end of the file while still nested no longer raises unconditionally (e.g. it goes "
           "through print_error, which only prints under the default dbg=True): a truncated file is reported "
           "but not rejected and its half-built entities enter the project", py.nloc(raises[0].node) if raises else py.nloc(cs.fn))
    pe = py.func("FortranContainer.print_error")
    pev = astq.trace(pe)
    line_p = pe.args.args[1].arg
    praise = [e for e in pev if e.kind == "raise" and e.value is not None and "ValueError" in ast.unparse(e.value)]
    ok = False
    for e in praise:
        negs = [c for c in e.cond_texts() if c.startswith("not ")]
        cond_ok = any("dbg" in c for c in negs) and not any("dbg" in c and not c.startswith("not ") for c in e.cond_texts())
        msg = e.value.args[0] if isinstance(e.value, ast.Call) and e.value.args else None
        names = msg is not None and astq.mentions(msg, "self.filename", pe) and any(
            isinstance(n, ast.Name) and n.id == line_p for x in astq.expand_locals(msg, pe) for n in ast.walk(x))
        ok = ok or (cond_ok and bool(names))
    rep.ob("print_error names the file and the line, raises unless dbg/force", ok, "", py.nloc(pe))
    # every print_error call passes `line`
    n = 0
    for a in cs.arms:
        for c in py.walk_calls(ast.Module(body=a.body, type_ignores=[])):
            if call_name(c) == "self.print_error":
                n += 1
                ok = bool(c.args) and ast.unparse(c.args[0]) == cs.line_var
                rep.ob(f"print_error in arm {a.name}: {ast.unparse(c.args[1])[:40] if len(c.args) > 1 else ''}", ok,
                       "passes the offending line", py.nloc(c), nontrivial=False)
    e = cs.arm_by_regex("END_RE")
    eev = astq.trace_block(e.body, cs.fn)
    errs = [x for x in eev if x.kind == "call" and call_name(x.node) == "self.print_error"
            and astq.path_implies(x, file_atom, {"file": True}) is True]
    rep.ob("END at file level is an error", bool(errs), "", py.nloc(e.test))
    rets = [x for x in eev if x.kind == "return"]
    cl = [x for x in eev if x.kind == "call" and call_name(x.node) == "self._cleanup"]
    ok = bool(rets) and bool(cl) and all(astq.path_implies(x, file_atom, {"lvl0": True}) is True for x in rets + cl)
    rep.ob("END closes the container only at block level 0", ok, "", py.nloc(e.test))
    # ... and one that rejects the file: print_error only prints under the default `dbg`, so the rejection is either a `raise` on
    # that path or the closing call `self._cleanup()` itself - the file object has nothing to close and inherits the base
    # method, which raises.  A source file that grows a working `_cleanup` turns the dangling END into a normal end of the parse:
    # what precedes it is documented, the rest of the file is silently dropped, nothing is reported as rejected
    file_raises = [x for x in eev if x.kind == "raise" and astq.event_fires(x, file_atom, {"file": True, "lvl0": True}) is not False
                   and not [c_ for c_ in x.conds if file_atom(c_[0]) is None and not (isinstance(c_[0], ast.UnaryOp) and file_atom(c_[0].operand))]]
    closing = [x for x in cl if astq.event_fires(x, file_atom, {"file": True, "lvl0": True}) is not False]
    res = py.resolve_method("FortranSourceFile", "_cleanup")
    cleanup_raises = False
    if res is not None:
        cev_ = astq.trace(res[1])
        first = next((x for x in cev_ if x.kind in ("raise", "call", "assign", "return")), None)
        cleanup_raises = first is not None and first.kind == "raise" and not first.conds
    ok = bool(file_raises) or (bool(closing) and cleanup_raises)
    rep.ob("END at file level rejects the file", ok,
           (f"the closing call resolves to {res[0]}._cleanup, which raises" if not file_raises else "a raise follows the diagnostic") if ok else
           f"for the file object `self._cleanup()` resolves to {res[0] if res else '?'}._cleanup, which returns normally, and no raise is on "
           f"that path: a file with an unbalanced END is not skipped - it is cut off at that statement without a rejection",
           py.nloc(res[1]) if res else py.nloc(e.test))
    # any statement may carry a label; the one that matters here is END (`99 end`, the target of a `goto 99` in older code): if
    # the pattern that recognises END does not accept a label in front of it the unit is never closed, and everything after it in
    # the file is nested into it or rejected
    key = next((k for k in ctx.regexes if k.split(".")[-1] == "END_RE" and ctx.regexes[k][3] == "sourceform"), None)
    if key is None:
        raise AnalysisError("END_RE not found")
    pat, flags, node, _m = ctx.regexes[key]
    rx = ctx.rx
    try:
        w = rx.subset_witness(rx.full(r"[0-9]+ +[Ee][Nn][Dd]( *([Ss][Uu][Bb][Rr][Oo][Uu][Tt][Ii][Nn][Ee]|[Ff][Uu][Nn][Cc][Tt][Ii][Oo][Nn])( +[a-z][a-z0-9_]*)?)?", 0),
                              rx.match_lang(pat, flags))
    except rx.Unsupported as e_:
        raise AnalysisError(f"END_RE not understood: {e_}")
    rep.ob("END_RE accepts a statement label in front of END", w is None,
           "`<label> end [subroutine|function [name]]` is matched" if w is None else
           f"`{w}` is an END statement with a label, which the pattern does not match: the procedure is not closed, the next program "
           f"unit in the file is reported as unexpected and lost", py.nloc(node), witness=w)
    c = cs.arm_by_literal("contains")
    ok = len(c.errors) == 2
    rep.ob("misplaced / repeated CONTAINS are errors", ok, "", py.nloc(c.test))


def r4_cursor_progress(ctx, rep):
    py = ctx.py
    rx = ctx.rx
    if "sourceform.QUOTES_RE" not in ctx.regexes:
        raise AnalysisError("sourceform.QUOTES_RE is not a constant regular expression any more")
    pat, flags, node, mod = ctx.regexes["sourceform.QUOTES_RE"]
    L = rx.full(pat, flags)
    ok = not rx.nullable(L)
    rep.ob("QUOTES_RE cannot match the empty string", ok,
           "nullable(QUOTES_RE) is false: every match consumes at least the two delimiters" if ok else
           "QUOTES_RE can match the empty string: the masking loops would not advance", py.nloc(node))
    # loops: while ... QUOTES_RE.search(X[search_from:]) ... search_from += <match>.end(0)
    n = 0
    def quote_search(c) -> bool:
        return isinstance(c, ast.Call) and call_name(c).split(".")[-2:] == ["QUOTES_RE", "search"]
    for mod_, fn in py.all_functions():
        if mod_ != "sourceform":
            continue
        for w in ast.walk(fn):
            if not isinstance(w, ast.While):
                continue
            # cursor: the name used as lower bound of the slice that the loop test searches, or as its `pos` argument
            # (the search may be the loop test or, in a `while True:` loop with an early exit, the first thing in the body)
            searches = [c for c in ast.walk(w.test) if quote_search(c)] or [c for c in ast.walk(w) if quote_search(c)]
            cursors = {sl.slice.lower.id for c in searches for sl in ast.walk(c)
                       if isinstance(sl, ast.Subscript) and isinstance(sl.slice, ast.Slice) and isinstance(sl.slice.lower, ast.Name)}
            cursors |= {c.args[1].id for c in searches if len(c.args) >= 2 and isinstance(c.args[1], ast.Name)}
            if len(cursors) != 1:
                continue
            cur = cursors.pop()
            n += 1
            incs = [s_ for s_ in ast.walk(w) if (isinstance(s_, ast.AugAssign) and isinstance(s_.op, ast.Add)
                                                  and isinstance(s_.target, ast.Name) and s_.target.id == cur) or
                    (isinstance(s_, ast.Assign) and len(s_.targets) == 1 and isinstance(s_.targets[0], ast.Name) and s_.targets[0].id == cur)]
            ends = [c for i in incs for c in ast.walk(i.value) if isinstance(c, ast.Call) and isinstance(c.func, ast.Attribute)
                    and c.func.attr == "end"]
            lens = [c for i in incs for c in ast.walk(i.value) if isinstance(c, ast.Call) and call_name(c) == "len" and c.args]
            once = len(incs) == 1 and incs[0] in w.body
            # the increment must be computed on the text *after* substitution (the placeholder), i.e. from a fresh search,
            # not from the match object taken before the replacement
            subs = [a_ for a_ in ast.walk(w) if isinstance(a_, ast.Assign) and any(
                isinstance(c, ast.Call) and isinstance(c.func, ast.Attribute) and c.func.attr == "sub" for c in ast.walk(a_.value))]
            # the replacement done by splicing: `text = text[:a] + new + text[b:]`
            subs += [a_ for a_ in ast.walk(w) if isinstance(a_, ast.Assign) and len(a_.targets) == 1 and isinstance(a_.value, ast.BinOp)
                     and sum(1 for p_ in ast.walk(a_.value) if isinstance(p_, ast.Subscript) and isinstance(p_.slice, ast.Slice)
                             and ast.unparse(p_.value) == ast.unparse(a_.targets[0])) == 2]
            def is_fresh(recv) -> bool:
                if quote_search(recv):
                    return True
                if isinstance(recv, ast.Name):
                    defs = [d for d in ast.walk(w) if (isinstance(d, ast.NamedExpr) and d.target.id == recv.id)
                            or (isinstance(d, ast.Assign) and any(isinstance(t, ast.Name) and t.id == recv.id for t in d.targets))]
                    defs = [d for d in defs if not any(d is x for x in ast.walk(w.test))]
                    # in a `while True:` loop the first search of the iteration is an ordinary statement: only searches made
                    # after the replacement count
                    if subs and any(d.lineno < min(s_.lineno for s_ in subs) for d in defs) and not any(quote_search(c) for c in ast.walk(w.test)):
                        defs = [d for d in defs if d.lineno > max(s_.lineno for s_ in subs)] or defs
                    return bool(defs) and bool(subs) and all(d.lineno > max(s_.lineno for s_ in subs) and
                                                              any(quote_search(c) for c in ast.walk(d.value)) for d in defs)
                return False
            label = f"masking loop in {py.qualname(fn)}@{['pre', 'attr', 'bind', 'init'][min(n - 1, 3)]}{n}"
            if once and ends and not lens:
                fresh = all(is_fresh(c.func.value) for c in ends)
                rep.ob(label, fresh,
                       "the cursor advances by the end of a fresh match on the rewritten text, unconditionally in the loop body"
                       if fresh else
                       "the cursor advances by the end of the match taken *before* the literal was replaced by its "
                       "shorter placeholder: the cursor overshoots and a following literal is skipped (left unmasked)", py.nloc(w))
            elif once and lens:
                # `cursor = start + len(inserted)`: right only if the length is measured on the text as it was inserted - not on
                # a replacement *template* whose backslashes were doubled for `sub()`
                from . import common
                escaped = []
                for c in lens:
                    x = c.args[0]
                    d = common._closest_def(fn, x.id, incs[0]) if isinstance(x, ast.Name) else x
                    if d is not None and common._doubles_backslashes(d):
                        escaped.append(x)
                rep.ob(label, not escaped,
                       "the cursor advances by the length of the inserted text" if not escaped else
                       f"the cursor advances by `len({ast.unparse(escaped[0])})`, the length of the replacement *template* (backslashes "
                       f"doubled for sub()), which is longer than the text that was inserted: after a literal with backslashes the "
                       f"cursor overshoots and the next placeholder is never restored", py.nloc(incs[0]))
            else:
                rep.ob(label, False, "the cursor is not advanced exactly once per iteration", py.nloc(w))
    if n < 2:
        raise AnalysisError(f"only {n} QUOTES_RE masking loops found")



def r5_regex_termination(ctx, rep):
    """no repeated group of a parse-path regex can consume the same text in two ways while something after it may still
    fail (the shape of exponential backtracking): decided with the regular-language engine as B.B & B = empty for the
    body B of every unbounded repeat that has a continuation"""
    rx = ctx.rx
    n = 0
    for name, (pat, flags, node, mod) in sorted(ctx.regexes.items()):
        if mod not in ("sourceform", "reader", "utils"):
            continue
        try:
            w = common.ambiguous_star(rx, pat, flags)
        except rx.Unsupported:
            continue
        n += 1
        rep.ob(f"{name}: repeats are unambiguous", w is None,
               "no unbounded repeat with a continuation can split the same text in two ways" if w is None else
               f"an unbounded repeat in {name} can consume `{w}` in more than one way and is followed by something that can fail: "
               f"on a non-matching line (e.g. an unterminated literal) the matcher tries exponentially many splits and FORD "
               f"does not terminate in practice", ctx.py.nloc(node), witness=w)
    if n < 20:
        raise AnalysisError(f"only {n} parse-path regexes examined")


def r6_memo(ctx, rep):
    """state that survives a rejected file: caches must be functions of their key (shared with C04.R6)"""
    common.memo_soundness(ctx, rep, modules=("sourceform", "reader", "utils", "fortran_project"))


def r7_diagnostics_printed_literally(ctx, rep):
    """The diagnostic for a rejected file is printed through a rich `Console`, which interprets `[...]` in its arguments as
    markup.  Text that comes from the input (file names, offending source lines, exception messages) therefore has to be
    escaped (`rich.markup.escape`) or printed with `markup=False`; otherwise a `[/x]` in it raises MarkupError *inside the error
    handler* and the run ends instead of continuing with the next file."""
    py = ctx.py
    consoles = set()
    for mod, tree in py.modules.items():
        for st in ast.walk(tree):
            if isinstance(st, ast.Assign) and isinstance(st.value, ast.Call) and call_name(st.value).split(".")[-1] == "Console":
                consoles |= {t.id for t in st.targets if isinstance(t, ast.Name)}
    n = 0

    def literal_or_escaped(e: ast.AST, fn) -> bool:
        if isinstance(e, ast.Constant):
            return True
        if isinstance(e, ast.Call) and call_name(e).split(".")[-1] == "escape":
            return True
        if isinstance(e, ast.JoinedStr):
            return all(literal_or_escaped(v.value, fn) for v in e.values if isinstance(v, ast.FormattedValue))
        if isinstance(e, ast.BinOp) and isinstance(e.op, (ast.Add, ast.Mod)):
            return literal_or_escaped(e.left, fn) and literal_or_escaped(e.right, fn)
        if isinstance(e, ast.Name):
            a_ = fn.args
            params = {x.arg: d for x, d in zip(reversed(a_.posonlyargs + a_.args), reversed(a_.defaults))}
            params.update({x.arg: d for x, d in zip(a_.kwonlyargs, a_.kw_defaults) if d is not None})
            allp = {x.arg for x in a_.posonlyargs + a_.args + a_.kwonlyargs}
            if e.id in allp and not any(isinstance(st, ast.Assign) and any(isinstance(t, ast.Name) and t.id == e.id for t in st.targets)
                                        for st in ast.walk(fn)):
                # a parameter: literal iff every call site passes a literal (or leaves a literal default in place)
                sites = 0
                for _m, f2 in py.all_functions():
                    for c2 in ast.walk(f2):
                        if isinstance(c2, ast.Call) and call_name(c2).split(".")[-1] == fn.name and f2 is not fn:
                            sites += 1
                            try:
                                given = astq.bind_args(c2, fn).get(e.id)
                            except Exception:
                                return False
                            if given is None:
                                if not isinstance(params.get(e.id), ast.Constant):
                                    return False
                            elif not literal_or_escaped(given, f2):
                                return False
                return sites > 0
            alts = astq.expand_locals(e, fn)
            return bool(alts) and all(not (isinstance(a, ast.Name) and a.id == e.id) and literal_or_escaped(a, fn) for a in alts)
        return False
    for mod, fn in py.all_functions():
        for c in ast.walk(fn):
            if not (isinstance(c, ast.Call) and isinstance(c.func, ast.Attribute) and c.func.attr in ("print", "log")
                    and isinstance(c.func.value, ast.Name) and c.func.value.id in consoles):
                continue
            n += 1
            plain = any(k.arg == "markup" and isinstance(k.value, ast.Constant) and k.value.value is False for k in c.keywords)
            bad = [a for a in c.args if not literal_or_escaped(a, fn)]
            ok = plain or not bad
            rep.ob(f"{py.qualname(fn)}: `{ast.unparse(c.func)}` prints input text literally", ok,
                   "markup disabled" if plain else "every interpolated text is escaped" if ok else
                   f"`{ast.unparse(bad[0])[:50]}` reaches rich's markup parser unescaped: a message that contains `[/...]` (a file "
                   f"name, a quoted source line) raises MarkupError while the parse error of that file is being reported, and the "
                   f"whole run ends", py.nloc(c))
    if n < 1:
        raise AnalysisError("no rich Console output found (anchor vanished)")


_INDEX_LOOP_EXAMPLE = """
def bad(s):
    i = 0
    while i < len(s):
        if s[i] == "'":
            i = s.find("'", i + 1)
        i += 1
def good(s):
    i = 0
    while i < len(s):
        if s[i] == "'":
            j = s.find("'", i + 1)
            if j == -1:
                break
            i = j
        i += 1
def good2(s):
    i = 0
    while i < len(s):
        i += 2 if s[i] == "x" else 1
"""


def _backward_index_assignments(fn: ast.AST):
    """(loop, assignment) for index loops `while i < len(x)` in which `i` is assigned the result of a search (`find`, `rfind`,
    `index`) and nothing in the loop compares that result with -1 / tests it for being negative"""
    out = []
    for lp in ast.walk(fn):
        if not (isinstance(lp, ast.While) and isinstance(lp.test, (ast.Compare, ast.BoolOp))):
            continue
        idx = None
        for c in ast.walk(lp.test):
            if isinstance(c, ast.Compare) and len(c.ops) == 1 and isinstance(c.ops[0], (ast.Lt, ast.LtE)) and isinstance(c.left, ast.Name) \
                    and isinstance(c.comparators[0], ast.Call) and call_name(c.comparators[0]) == "len":
                idx = c.left.id
        if idx is None:
            continue
        for a in ast.walk(lp):
            val = None
            if isinstance(a, ast.Assign) and any(isinstance(t, ast.Name) and t.id == idx for t in a.targets):
                val = a.value
            elif isinstance(a, ast.NamedExpr) and a.target.id == idx:
                val = a.value
            if val is None:
                continue
            searches = [c for c in ast.walk(val) if isinstance(c, ast.Call) and isinstance(c.func, ast.Attribute)
                        and c.func.attr in ("find", "rfind")]
            if not searches:
                continue
            checked = any(isinstance(c, ast.Compare) and len(c.ops) == 1 and
                          ((isinstance(c.comparators[0], ast.Constant) and c.comparators[0].value in (-1, 0)
                            and any(isinstance(n, ast.Name) and n.id == idx for n in ast.walk(c.left)))
                           or (isinstance(c.comparators[0], ast.UnaryOp) and isinstance(c.comparators[0].op, ast.USub)
                               and any(isinstance(n, ast.Name) and n.id == idx for n in ast.walk(c.left))))
                          for c in ast.walk(lp) if c is not lp.test and not any(c is x for x in ast.walk(lp.test)))
            if not checked:
                out.append((lp, a))
    return out


def r8_scanners_advance(ctx, rep):
    """Termination: a loop that walks a line by index (`while i < len(line)`) ends because the index grows.  When the index is set
    from a search (`i = line.find(quote, i + 1)`) it becomes -1 for text without a match - an unterminated literal - and the scan
    starts over from the beginning, for ever.  Every such assignment needs the "not found" case handled."""
    py = ctx.py
    ex = ast.parse(_INDEX_LOOP_EXAMPLE)
    got = {f.name: len(_backward_index_assignments(f)) for f in ex.body if isinstance(f, ast.FunctionDef)}
    if got != {"bad": 1, "good": 0, "good2": 0}:
        raise AnalysisError(f"index-loop matcher fails on its own example: {got}")
    n_loops = 0
    bad = 0
    for mod, fn in py.all_functions():
        if mod not in ("reader", "utils", "sourceform", "fixed2free2", "_markdown"):
            continue
        n_loops += sum(1 for lp in ast.walk(fn) if isinstance(lp, ast.While) and py.enclosing_function(lp) is fn)
        for lp, a in _backward_index_assignments(fn):
            if py.enclosing_function(lp) is not fn:
                continue
            bad += 1
            rep.ob(f"{py.qualname(fn)}: `{ast.unparse(a)[:50]}` inside `while {ast.unparse(lp.test)[:30]}`", False,
                   f"the loop index is set from a search that returns -1 when nothing is found, and the loop does not test for that: on "
                   f"text without the searched character (an unterminated character literal) the index goes back to the start and the "
                   f"scan never ends", py.nloc(a))
    rep.ob("index loops over source text cannot be sent backwards", bad == 0, f"{n_loops} while loops inspected", "ford/utils.py")
    if n_loops < 5:
        raise AnalysisError("scanner loops not found")


RULES = [
    RuleSpec("C20.R1", r1_containment, "per-file containment structure", floor=4),
    RuleSpec("C20.R2", r2_no_cross_file_state, "no partial registration, no cross-file mutable state", floor=3),
    RuleSpec("C20.R3", r3_nesting_errors_raise, "malformed nesting raises", floor=14),
    RuleSpec("C20.R4", r4_cursor_progress, "cursor progress in the literal masking loops", floor=2),
    RuleSpec("C20.R5", r5_regex_termination, "parse-path regexes cannot backtrack exponentially", floor=20),
    RuleSpec("C20.R6", r6_memo, "caches are functions of their key", floor=1),
    RuleSpec("C20.R7", r7_diagnostics_printed_literally, "diagnostics cannot fail on the text they report", floor=1),
    RuleSpec("C20.R8", r8_scanners_advance, "index loops over source text cannot be sent backwards by a failed search", floor=1),
]
