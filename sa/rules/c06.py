"""C06 — USE association imports exactly the accessible names (structural clauses)."""
from __future__ import annotations

import ast
import re
from typing import Dict, List, Optional, Set, Tuple

from ..core import AnalysisError, RuleSpec
from ..pymodel import call_name
from .. import astq
from ..specs import use_stmt

EXPLANATION = (
    "Dataflow and ordering rules on FortranModule._cleanup/get_used_entities, FortranCodeUnit.correlate "
    "and Project.correlate, plus exact regular-language checks of the USE regexes. R1: every store into the "
    "imported-names table has a key that depends on the rename map whenever the USE statement has a "
    "rename/only list, and both sides of the map are lower-cased. R2: only public things cross a module "
    "boundary - every write to pub_* has a value produced by a public filter whose predicate tests the "
    "right thing (permission in {public, protected} at definition; unit default public or *local* name in "
    "public_list on re-export), and used_objects reads only pub_* tables. R3: modules are correlated in "
    "an order data-dependent on toposort of a dependency map that covers module-level USE, USE in contained "
    "procedures and in interface bodies, and the submodule parent edge; name resolution precedes it. R4 "
    "(E2): every USE statement form (nature, ::, only, rename, operator items; all blank/case spellings, "
    "unbounded names and lists) is matched by USE_RE, and ONLY_RE accepts exactly the ONLY tails. Agreement "
    "with the standard on module graphs is not decided."
    " Added after waves 6/7 - scope tables are read by key, never searched by entity name; USE statements inside abstract interface bodies are followed like those in interface bodies; interface bodies keep their own accessibility."
)
ASSUMPTIONS = ["names are [A-Za-z][A-Za-z0-9_]*"]


def _group_index(py, e: ast.AST, fn: ast.AST, match_vars: Set[str]) -> Optional[int]:
    """which capturing group of the rename match an expression carries (through .lower()/.strip(), local names and
    tuple-unpacking of <match>.groups())"""
    while isinstance(e, ast.Call) and isinstance(e.func, ast.Attribute) and e.func.attr in ("lower", "strip", "casefold") and not e.args:
        e = e.func.value
    if isinstance(e, ast.Call) and isinstance(e.func, ast.Attribute) and e.func.attr == "group" and \
            isinstance(e.func.value, ast.Name) and e.func.value.id in match_vars and e.args and isinstance(e.args[0], ast.Constant):
        return e.args[0].value
    if isinstance(e, ast.Subscript) and isinstance(e.value, ast.Name) and e.value.id in match_vars and isinstance(e.slice, ast.Constant):
        return e.slice.value
    if isinstance(e, ast.Name):
        for n in ast.walk(fn):
            if isinstance(n, ast.Assign):
                for t in n.targets:
                    if isinstance(t, ast.Name) and t.id == e.id:
                        g = _group_index(py, n.value, fn, match_vars)
                        if g is not None:
                            return g
                    if isinstance(t, (ast.Tuple, ast.List)):
                        names = [x.id if isinstance(x, ast.Name) else None for x in t.elts]
                        if e.id in names:
                            v = n.value
                            # (f(x) for x in m.groups()) / map(f, m.groups()) / m.groups()
                            src = " ".join(ast.unparse(x) for x in ast.walk(v) if isinstance(x, ast.Call))
                            if any(f"{mv}.groups()" in src for mv in match_vars):
                                return names.index(e.id) + 1
                            if isinstance(v, (ast.Tuple, ast.List)) and len(v.elts) == len(names):
                                return _group_index(py, v.elts[names.index(e.id)], fn, match_vars)
    return None


def r1_rename_map(ctx, rep):
    py = ctx.py
    fn = py.func("FortranModule.get_used_entities")
    inner = [n for n in ast.walk(fn) if isinstance(n, ast.FunctionDef) and n is not fn]
    # the helper that builds one filtered table: the nested function whose result is keyed per entity
    helpers = [h for h in inner if any(isinstance(x, ast.DictComp) for x in ast.walk(h)) or any(
        isinstance(x, ast.Assign) and isinstance(x.targets[0], ast.Subscript) for x in ast.walk(h))]
    if not helpers:
        raise AnalysisError("get_used_entities: no nested helper builds the imported-name table")
    uo = helpers[0]
    # the rename map: the dict that is filled from RENAME_RE matches
    match_vars = {t for n in ast.walk(fn) for t in ([n.target.id] if isinstance(n, ast.NamedExpr) else
                                                   [x.id for x in n.targets if isinstance(x, ast.Name)] if isinstance(n, ast.Assign) else [])
                  if "RENAME_RE" in ast.unparse(n.value)}
    if not match_vars:
        raise AnalysisError("get_used_entities: RENAME_RE match variable not found")
    outer_nodes = [n for n in ast.walk(fn) if not any(n is x for x in ast.walk(uo))]
    maps = [n for n in outer_nodes if isinstance(n, ast.Assign) and isinstance(n.targets[0], ast.Subscript)
            and isinstance(n.targets[0].value, ast.Name)]
    map_names = {ast.unparse(m.targets[0].value) for m in maps}
    if len(map_names) != 1:
        raise AnalysisError(f"get_used_entities: rename map stores not recognised ({sorted(map_names)})")
    V = map_names.pop()
    # every key under which an imported entity is stored goes through the map
    keys: List[Tuple[ast.AST, ast.AST, str]] = []
    par = astq.parents_of(uo)
    for n in ast.walk(uo):
        if isinstance(n, ast.DictComp):
            conds = [ast.unparse(t) if pol else f"not {ast.unparse(t)}" for t, pol in astq.conditions_of(n, par, stop=uo)]
            guards = astq.preceding_guards(uo.body, n)
            conds += [f"not ({ast.unparse(g.test)})" for g in guards]
            keys.append((n.key, n, " & ".join(conds)))
        if isinstance(n, ast.Assign) and isinstance(n.targets[0], ast.Subscript) and isinstance(n.targets[0].value, ast.Name) \
                and n.targets[0].value.id != V:
            conds = [ast.unparse(t) if pol else f"not {ast.unparse(t)}" for t, pol in astq.conditions_of(n, par, stop=uo)]
            keys.append((n.targets[0].slice, n, " & ".join(reversed(conds))))
    if not keys:
        raise AnalysisError(f"{uo.name}: no keyed store of an imported entity found")
    for k, (key, node, conds) in enumerate(keys):
        ok = any(isinstance(x, ast.Name) and x.id == V for x in ast.walk(key))
        rep.ob(f"used_objects store #{k} [{conds}]", ok,
               (f"key `{ast.unparse(key)}` goes through the rename map" if ok else
                f"the key `{ast.unparse(key)}` ignores the rename map on the path [{conds}]: "
                f"`use m, local => remote` (without ONLY) keeps the entity under its remote name and never "
                f"defines the local one"), py.nloc(node))
    # the map is shared by the four filter passes (procs, absints, types, vars): read-only in the helper
    muts = [c for c in py.walk_calls(uo) if isinstance(c.func, ast.Attribute) and ast.unparse(c.func.value) == V
            and c.func.attr in ("pop", "popitem", "clear", "update", "setdefault")]
    muts += [n for n in ast.walk(uo) if isinstance(n, (ast.Delete,)) and V in ast.unparse(n)]
    muts += [n for n in ast.walk(uo) if isinstance(n, ast.Subscript) and isinstance(n.ctx, ast.Store)
             and ast.unparse(n.value) == V]
    rep.ob("the rename map is not consumed while filtering one entity kind", not muts,
           f"{V} is only read inside {uo.name}" if not muts else
           f"`{ast.unparse(muts[0])[:50]}` removes names from the map shared by the four kind passes: a name that denotes "
           f"both a type and its same-named constructor interface is imported for the first kind only", py.nloc(muts[0]) if muts else py.nloc(uo))
    # early return only for an empty tail: the four public tables
    ev = astq.trace(fn)
    first = next((e for e in ev if e.kind == "return"), None)
    spec = fn.args.args[1].arg if len(fn.args.args) > 1 else "use_specs"
    ok = first is not None and first.value is not None and \
        [ast.unparse(x) for x in getattr(first.value, "elts", [])] == ["self.pub_procs", "self.pub_absints", "self.pub_types", "self.pub_vars"] \
        and any(spec in c for c in first.cond_texts()) and not any(e.kind == "assign" and e.target == V for e in ev[:ev.index(first)])
    rep.ob("plain USE imports the four public tables", ok, "", py.nloc(first.node) if first else py.nloc(fn))
    # the map: both sides lower-cased; direction local => remote
    if len(maps) < 1:
        raise AnalysisError("get_used_entities: rename map construction not found")
    for m in maps:
        kx = astq.expand_locals(m.targets[0].slice, fn)
        vx = astq.expand_locals(m.value, fn)
        lower = lambda xs: any(isinstance(c, ast.Call) and isinstance(c.func, ast.Attribute) and c.func.attr in ("lower", "casefold")  # noqa: E731
                               for x in xs for c in ast.walk(x))
        ok = lower(kx) and lower(vx)
        rep.ob(f"used_names[{ast.unparse(m.targets[0].slice)}] = {ast.unparse(m.value)}", ok,
               "remote and local name are both lower-cased (lookups are case-insensitive)" if ok else
               f"`{ast.unparse(m)}`: one side keeps the source spelling, so `use m, only: Local => remote` "
               f"stores the entity under a key no (lower-cased) lookup can reach", py.nloc(m))
    dirs = [(_group_index(py, m.targets[0].slice, fn, match_vars), _group_index(py, m.value, fn, match_vars)) for m in maps]
    dirs = [d for d in dirs if d[0] is not None or d[1] is not None]
    if not dirs:
        raise AnalysisError("get_used_entities: could not relate the rename map to the groups of RENAME_RE")
    # which group of RENAME_RE is the local name: the one in front of `=>` (groups may be numbered or named)
    import re._parser as _sre
    rp_, rf_, _rn, _ro = ctx.regexes["FortranModule.RENAME_RE"]
    tree = _sre.parse(rp_, rf_)
    gnames = {v: k for k, v in tree.state.groupdict.items()}
    order = []
    def scan(seq):
        for op, av in seq:
            o = str(op)
            if o == "SUBPATTERN":
                if av[0] is not None:
                    order.append(("g", av[0]))
                scan(av[3])
            elif o == "LITERAL":
                order.append(("c", chr(av)))
            elif o == "BRANCH":
                for a_ in av[1]:
                    scan(a_)
            elif o in ("MAX_REPEAT", "MIN_REPEAT"):
                scan(av[2])
    scan(tree)
    arrow = next((i for i, x in enumerate(order) if x == ("c", "=") and i + 1 < len(order) and order[i + 1] == ("c", ">")), None)
    before = [g for k, g in order[:arrow or 0] if k == "g"]
    after = [g for k, g in order[(arrow or 0):] if k == "g"]
    if arrow is None or not before or not after:
        raise AnalysisError("RENAME_RE: groups around `=>` not identified")
    L, R = before[-1], after[0]
    def gid(x):
        return tree.state.groupdict.get(x, x) if isinstance(x, str) else x
    dirs = [(gid(a_), gid(b_)) for a_, b_ in dirs]
    ok = all(d == (R, L) for d in dirs)
    rep.ob("rename direction local => remote", ok, f"map[remote] = local (RENAME_RE groups {gnames.get(R, R)} -> {gnames.get(L, L)})" if ok else
           f"the rename map is filled as map[group {dirs[0][0]}] = group {dirs[0][1]}: local and remote name are swapped", py.nloc(maps[0]))
    only_asg = [e for e in ev if e.kind == "assign" and e.value is not None and "ONLY_RE" in e.text(e.value)]
    flag = [e for e in only_asg if "match" in e.text(e.value) or "search" in e.text(e.value)]
    strip = [e for e in only_asg if ".sub(" in e.text(e.value)]
    ok = bool(flag) and bool(strip)
    rep.ob("ONLY detection", ok, "", py.nloc(fn))
    # exported names are compared lower-case: every test of a table name against the map lower-cases it
    tests = [n for n in ast.walk(uo) if isinstance(n, ast.Compare) and isinstance(n.ops[0], (ast.In, ast.NotIn))
             and ast.unparse(n.comparators[0]) == V]
    tests_ok = all(any(isinstance(c, ast.Call) and isinstance(c.func, ast.Attribute) and c.func.attr in ("lower", "casefold")
                       for x in astq.expand_locals(t.left, uo) for c in ast.walk(x)) for t in tests)
    rep.ob("exported names compared lower-case", bool(tests) and tests_ok, "", py.nloc(uo))


def _kept_entries(py, host, value: ast.AST):
    """How `value` (what is written into a pub_* table) selects entries of the collection it is built from, as a list of
    alternatives [(conditions [(test, polarity)], predicate tests on one entry, key variable, source collection)]:
    a dict comprehension with `if`s, a plain copy, or a call of a closure of `host` whose returns are such values."""
    def of_expr(v: ast.AST, conds):
        if isinstance(v, ast.DictComp) and len(v.generators) == 1:
            g = v.generators[0]
            keyvar = g.target.elts[0].id if isinstance(g.target, ast.Tuple) and isinstance(g.target.elts[0], ast.Name) else None
            keyed = isinstance(v.key, ast.Name) and v.key.id == keyvar
            return [(conds, list(g.ifs), keyvar if keyed else None, g.iter)]
        if isinstance(v, ast.Call) and call_name(v) == "dict" and len(v.args) == 1:
            return [(conds, [], "*", v.args[0])]
        if isinstance(v, ast.Call) and isinstance(v.func, ast.Attribute) and v.func.attr == "copy":
            return [(conds, [], "*", v.func.value)]
        if isinstance(v, ast.Name):
            return [(conds, [], "*", v)]
        return None
    if isinstance(value, ast.Call) and isinstance(value.func, ast.Name):
        local = [n for n in ast.walk(host) if isinstance(n, ast.FunctionDef) and n is not host and n.name == value.func.id]
        if len(local) == 1:
            out = []
            for e in astq.trace(local[0]):
                if e.kind == "return" and e.node.value is not None:
                    alt = of_expr(e.node.value, [(t, p) for t, p, _s in e.conds])
                    if alt is None:
                        return None
                    out += alt
            return out or None
    return of_expr(value, [])


def r2_public_only(ctx, rep):
    """What a module exports: at the definition site the entities whose permission is public or protected; of what it
    imports by USE, the entries whose (local) name is public - by the unit default or by an explicit PUBLIC statement.
    Decided on the canonical form: every write to a pub_* table is a selection of entries, and the selection predicate is
    evaluated on all truth assignments of (unit default is public, name is in public_list)."""
    py = ctx.py
    n = 0
    writes = {}
    for q in ("FortranModule._cleanup", "FortranCodeUnit.correlate"):
        fn = py.ifunc(q)
        for st in ast.walk(fn):
            val = None
            tgt = None
            if isinstance(st, ast.Assign) and isinstance(st.targets[0], ast.Attribute) and \
                    st.targets[0].attr.startswith("pub_") and ast.unparse(st.targets[0].value) == "self":
                tgt, val = st.targets[0].attr, st.value
            elif isinstance(st, ast.Call) and isinstance(st.func, ast.Attribute) and st.func.attr == "update" and \
                    isinstance(st.func.value, ast.Attribute) and st.func.value.attr.startswith("pub_") and st.args:
                tgt, val = st.func.value.attr, st.args[0]
            if tgt is None:
                continue
            n += 1
            sel = _kept_entries(py, fn, val)
            filtered = sel is not None and any(tests for _c, tests, _k, _s in sel)
            writes.setdefault(q, []).append((tgt, val, sel, st))
            rep.ob(f"{q}: write to {tgt} is a filtered selection", filtered,
                   "only the entries that pass the public filter are written" if filtered else
                   f"self.{tgt} receives `{ast.unparse(val)[:50]}` unfiltered: private entities are exported", py.nloc(st))
    if n < 8:
        raise AnalysisError(f"only {n} writes to pub_* found")
    # definition site: permission in {public, protected}
    cl = py.ifunc("FortranModule._cleanup")
    perm_sets = []
    for _tgt, _val, sel, _st in writes.get("FortranModule._cleanup", []):
        for _c, tests, _k, _s in (sel or []):
            for t in tests:
                for c in ast.walk(t):
                    if isinstance(c, ast.Compare) and isinstance(c.ops[0], ast.In) and ast.unparse(c.left).endswith(".permission"):
                        v = py.eval_at(c.comparators[0], cl)
                        if isinstance(v, (list, tuple, set, frozenset)):
                            perm_sets.append(set(v))
    ok = perm_sets and all(p == {"public", "protected"} for p in perm_sets)
    rep.ob("definition-site filter: permission in {public, protected}", bool(ok), "" if ok else f"permission sets {perm_sets}", py.nloc(cl))
    # re-export of USE-associated entities
    co = py.ifunc("FortranCodeUnit.correlate")
    def resolve(e: ast.AST, depth=0):
        """a bare name that is bound once in correlate (a hoisted condition) stands for its value"""
        if isinstance(e, ast.Name) and depth < 4:
            vals = [v for _t, v in astq.assignments(co, e.id) if v is not None]
            if len(vals) == 1:
                return resolve(vals[0], depth + 1)
        return e
    def ev(e: ast.AST, env, keyvar):
        e = resolve(e)
        if isinstance(e, ast.Compare) and len(e.ops) == 1:
            l, r = ast.unparse(e.left), ast.unparse(e.comparators[0])
            if isinstance(e.ops[0], (ast.Eq, ast.NotEq)) and {l, r} == {"self.permission", "'public'"}:
                return env["dp"] == isinstance(e.ops[0], ast.Eq)
            if isinstance(e.ops[0], (ast.In, ast.NotIn)) and r.endswith("public_list"):
                if keyvar not in ("*", None) and l != keyvar:
                    return "not-the-key"
                return env["il"] == isinstance(e.ops[0], ast.In)
            return None
        if isinstance(e, ast.UnaryOp) and isinstance(e.op, ast.Not):
            v = ev(e.operand, env, keyvar)
            return (not v) if isinstance(v, bool) else v
        if isinstance(e, ast.BoolOp):
            vals = [ev(x, env, keyvar) for x in e.values]
            if "not-the-key" in vals:
                return "not-the-key"
            if isinstance(e.op, ast.And):
                return False if False in vals else (True if all(v is True for v in vals) else None)
            return True if True in vals else (False if all(v is False for v in vals) else None)
        return None
    wrong, undecided, key_ok = [], [], True
    sels = [w for w in writes.get("FortranCodeUnit.correlate", [])]
    for tgt, val, sel, st in sels:
        if sel is None:
            continue
        for dp in (True, False):
            for il in (True, False):
                env = {"dp": dp, "il": il}
                kept = None
                for conds, tests, keyvar, _src in sel:
                    cv = [ev(t, env, "*") for t, _p in conds]
                    fires = all((c == p) for c, (_t, p) in zip(cv, conds) if isinstance(c, bool))
                    if not fires:
                        continue
                    if keyvar is None and tests:
                        key_ok = False
                    tv = [ev(t, env, keyvar) for t in tests]
                    if "not-the-key" in tv:
                        key_ok = False
                        tv = [v for v in tv if v != "not-the-key"]
                    kept = all(v is True for v in tv) if all(isinstance(v, bool) for v in tv) else None
                    break
                if kept is None:
                    undecided.append((tgt, env))
                elif kept != (dp or il):
                    wrong.append(f"{tgt}: default public={dp}, name in public_list={il} -> {'kept' if kept else 'dropped'}")
    if undecided and not wrong:
        raise AnalysisError(f"correlate: the re-export filter could not be evaluated for {undecided[:2]}")
    ok_pred = bool(sels) and not wrong
    rep.ob("re-export filter: unit default public or name in public_list", ok_pred,
           "kept iff the unit is public by default or the name is listed public" if ok_pred else f"{wrong[:2]}", py.nloc(co))
    rep.ob("re-export filter is keyed by the local (possibly renamed) name", key_ok and bool(sels),
           "the predicate receives the table key, i.e. the name under which this module knows the entity" if key_ok else
           "the re-export predicate no longer tests the local name (the table key): an entity imported as "
           "`local => remote` and listed `public :: local` is not re-exported", py.nloc(co))
    # the table helper reads only pub_* attributes
    gu = py.func("FortranModule.get_used_entities")
    args = sorted({c.value for n in ast.walk(gu) if isinstance(n, ast.Call) for c in n.args
                   if isinstance(c, ast.Constant) and isinstance(c.value, str) and c.value.startswith(("pub_", "all_"))})
    ok = args == ["pub_absints", "pub_procs", "pub_types", "pub_vars"]
    rep.ob("used_objects reads exactly the four pub_* tables", ok, f"tables read: {args}", py.nloc(gu))
    # pub_* updates happen only for modules
    cev = astq.trace(co)
    ups = [e for e in cev if e.kind == "call" and re.fullmatch(r"self\.pub_\w+\.update", call_name(e.node))]
    ok = bool(ups) and all(any("isinstance(self, FortranModule)" in c and not c.startswith("not") for c in e.cond_texts()) for e in ups)
    rep.ob("only modules re-export", ok, "", py.nloc(co))
    # all_* tables receive the unfiltered imports (visible inside the unit)
    alls = {call_name(e.node).split(".")[1]: e for e in cev if e.kind == "call" and re.fullmatch(r"self\.all_\w+\.update", call_name(e.node))
            and e.node.args and isinstance(e.node.args[0], (ast.Name, ast.Subscript))}
    ok = {"all_procs", "all_absinterfaces", "all_types", "all_vars"} <= set(alls)
    rep.ob("imports are visible inside the importing unit", ok, "", py.nloc(co))


def r3_dependency_order(ctx, rep):
    py = ctx.py
    fn = py.func("Project.correlate")
    loops = [n for n in ast.walk(fn) if isinstance(n, ast.For) and any(
        isinstance(c, ast.Call) and isinstance(c.func, ast.Attribute) and c.func.attr == "correlate"
        and isinstance(c.func.value, ast.Name) and c.func.value.id == getattr(n.target, "id", None) for c in ast.walk(n))]
    if not loops:
        raise AnalysisError("Project.correlate: the loop calling <container>.correlate(self) was not found")
    loop = loops[0]
    es = astq.ElemSources(py, "fortran_project")
    src_exprs = astq.expand_locals(loop.iter, fn, depth=6)
    # also what is appended/extended to the iterated list
    names = {n.id for e in src_exprs for n in ast.walk(e) if isinstance(n, ast.Name)}
    topo = [c for e in src_exprs for c in ast.walk(e) if isinstance(c, ast.Call) and call_name(c).split(".")[-1] in ("toposort_flatten", "toposort")]
    ok = bool(topo)
    rep.ob("rank list comes from toposort_flatten(deplist)", ok, "", py.nloc(topo[0]) if topo else py.nloc(fn))
    # order: the toposorted modules come first in the iterated sequence
    first_ok = ok
    if ok:
        t0 = topo[0]
        par = py.parents.get(t0)
        if isinstance(par, ast.Call) and call_name(par) in ("chain", "itertools.chain"):
            first_ok = par.args and par.args[0] is t0
    rep.ob("correlate loop iterates the rank list", ok and bool(first_ok),
           "modules are correlated in dependency order" if ok and first_ok else
           "container.correlate is not driven by the toposorted list: results depend on file order", py.nloc(loop))
    if topo and topo[0].args:
        dm = astq.expand_locals(topo[0].args[0], fn, depth=5)
        txt = " ".join(ast.unparse(e) for e in dm)
        ok = "self.modules" in txt and "self.submodules" in txt and ".deplist" in txt
    else:
        ok = False
    rep.ob("dependency map covers modules and submodules", ok, "", py.nloc(fn))
    sub = [v for n in ast.walk(fn) if isinstance(n, ast.Assign) and any(isinstance(t, ast.Attribute) and t.attr == "deplist" for t in n.targets)
           for v in [n.value] if "parent_submodule" in ast.unparse(v)]
    ok = bool(sub) and "ancestor_module" in ast.unparse(sub[0])
    rep.ob("submodule depends on its parent", ok, "", py.nloc(fn))
    # the recursive collector of USE targets
    gd = [n for n in ast.walk(fn) if isinstance(n, ast.FunctionDef) and n is not fn and any(
        isinstance(c, ast.Call) and isinstance(c.func, ast.Name) and c.func.id == n.name for c in ast.walk(n))
        and ".uses" in ast.unparse(n)]
    if not gd:
        # a collector that reads `.uses` but does not call itself: it stops at the first level of contained procedures
        flat = [n for n in ast.walk(fn) if isinstance(n, ast.FunctionDef) and n is not fn and ".uses" in ast.unparse(n)]
        if not flat:
            raise AnalysisError("Project.correlate: the collector of USE targets (get_deps) was not found")
        rep.ob("get_deps collects USE targets recursively", False,
               f"`{flat[0].name}` gathers the USE statements of the unit and of its directly contained procedures only (it does not "
               f"call itself): a module used from an internal procedure of a module procedure does not order the modules",
               py.nloc(flat[0]))
        return
    g = gd[0]
    rec_calls = [c for c in ast.walk(g) if isinstance(c, ast.Call) and isinstance(c.func, ast.Name) and c.func.id == g.name]
    gtxt = ast.unparse(g)
    # what the recursion ranges over
    rec_src = set()
    ges = astq.ElemSources(py, "fortran_project")
    for c in rec_calls:
        if c.args:
            rec_src |= ges.scalar(c.args[0], g, {}, 0, set(), at=c)
    covers_routines = "attr:routines" in rec_src
    covers_intr = "attr:procedure" in rec_src
    rep.ob("get_deps recurses into contained procedures", covers_routines, "", py.nloc(g))
    rep.ob("get_deps recurses into interface bodies", covers_intr,
           "USE statements inside interface bodies order the modules too" if covers_intr else
           "get_deps no longer follows interface bodies although find_used_modules resolves their USE statements: "
           "a module that references another only from an interface body is correlated before it", py.nloc(g))
    ok = ".uses" in gtxt and bool(rec_calls) and any(isinstance(c, ast.Call) and isinstance(c.func, ast.Attribute) and
                                                     c.func.attr in ("extend", "update", "append") for c in ast.walk(g)) or \
        any(isinstance(x, ast.BinOp) and isinstance(x.op, ast.Add) for x in ast.walk(g))
    rep.ob("get_deps collects USE targets recursively", ok, "", py.nloc(g))
    filt = [c for c in ast.walk(fn) if isinstance(c, ast.Compare) and "FortranModule" in ast.unparse(c) and "type(" in ast.unparse(c)]
    filt += [c for c in ast.walk(fn) if isinstance(c, ast.Call) and call_name(c) == "isinstance" and "FortranModule" in ast.unparse(c)
             and not ast.unparse(c).startswith("isinstance(mod.")]
    rep.ob("only resolved project modules become edges", bool(filt), "", py.nloc(filt[0]) if filt else py.nloc(fn))
    # find_used_modules precedes deplist computation
    fu_line = min([c.lineno for c in py.walk_calls(fn) if call_name(c) == "find_used_modules"] or [0])
    dl_line = min([n.lineno for n in ast.walk(fn) if isinstance(n, ast.Assign) and "deplist" in ast.unparse(n.targets[0])] or [0])
    ok = 0 < fu_line < dl_line
    rep.ob("names are resolved to module objects before dependencies are computed", ok, "", py.nloc(fn))
    fum = py.func("fortran_project.find_used_modules")
    fes = astq.ElemSources(py, "fortran_project")
    rsrc = set()
    for c in ast.walk(fum):
        if isinstance(c, ast.Call) and isinstance(c.func, ast.Name) and c.func.id == fum.name and c.args:
            a0 = c.args[0]
            rsrc |= fes.scalar(a0, fum, {}, 0, set(), at=c) if isinstance(a0, ast.Name) else {f"attr:{a0.attr}"} if isinstance(a0, ast.Attribute) else {"?"}
    routines_of = [ast.unparse(n.iter) for n in ast.walk(fum) if isinstance(n, ast.For) and ast.unparse(n.iter).endswith(".routines")]
    ok = "attr:routines" in rsrc and "attr:procedure" in rsrc and any(x != f"{fum.args.args[0].arg}.routines" for x in routines_of)
    if not ok and rsrc:
        # the same walk written with generators / chain(): what is read is what counts - the routines of the entity itself, the
        # single procedure of an explicit interface and the routines of a generic one
        p0 = fum.args.args[0].arg
        bases = {ast.unparse(a.value) for a in ast.walk(fum) if isinstance(a, ast.Attribute) and a.attr == "routines"}
        reads_proc = any(isinstance(a, ast.Attribute) and a.attr == "procedure" and ast.unparse(a.value) != p0 for a in ast.walk(fum))
        ok = p0 in bases and len(bases - {p0}) >= 1 and reads_proc
        routines_of = sorted(bases)
    rep.ob("find_used_modules visits procedures and interface bodies", ok,
           "" if ok else f"recursion covers {sorted(rsrc)}; routine loops over {routines_of}: USE statements of some interface bodies are "
           f"never resolved", py.nloc(fum))
    ent = [n for n in ast.walk(fn) if isinstance(n, ast.For) and any(
        isinstance(c, ast.Call) and call_name(c) == "find_used_modules" for c in ast.walk(n))]
    ok = bool(ent) and all(x in ast.unparse(ent[0].iter) for x in ("self.modules", "self.procedures", "self.programs", "self.submodules", "self.blockdata"))
    rep.ob("every kind of program unit has its USE statements resolved", ok, "", py.nloc(ent[0]) if ent else py.nloc(fn))


def r4_use_syntax(ctx, rep):
    py, rx = ctx.py, ctx.rx
    up, uf, unode, _ = ctx.regexes["FortranContainer.USE_RE"]
    U = rx.match_lang(up, uf)
    for hname, head in use_stmt.HEADS.items():
        for tname, tail in use_stmt.TAILS.items():
            L = rx.full(head + tail, re.IGNORECASE)
            w = rx.subset_witness(L, U)
            rep.ob(f"USE form `{hname}{tname}`", w is None,
                   f"every spelling is matched by USE_RE ({rx.witness.last_states} states)" if w is None else
                   f"`{w}` is a legal USE statement that USE_RE does not match", py.nloc(unode), witness=w)
    # the tail captured by group 2 starts with ',' or is empty: ONLY_RE classification
    op, of, onode, _ = ctx.regexes["FortranModule.ONLY_RE"]
    O = rx.match_lang(op, of)
    only_tail = rx.full(use_stmt.TAILS[", only: list"], re.IGNORECASE)
    w = rx.subset_witness(only_tail, O)
    rep.ob("ONLY_RE accepts every `, only: list` tail", w is None, "" if w is None else f"`{w}` not recognised as ONLY", py.nloc(onode), witness=w)
    w = rx.subset_witness(rx.full(r"\s*,\s*only\s*:", re.IGNORECASE), O)
    rep.ob("ONLY_RE accepts the empty `, only:` tail", w is None,
           "`use m, only:` imports nothing" if w is None else
           f"`{w}` is not recognised as ONLY: `use m{w}` is treated as a plain USE and imports every public entity", py.nloc(onode), witness=w)
    ren_tail = rx.full(use_stmt.TAILS[", rename-list"], re.IGNORECASE)
    w = rx.disjoint_witness(ren_tail, O)
    rep.ob("ONLY_RE rejects every rename-only tail", w is None, "" if w is None else f"`{w}` is a rename list taken for ONLY", py.nloc(onode), witness=w)
    rp, rf, rnode, _ = ctx.regexes["FortranModule.RENAME_RE"]
    R = rx.search_lang(rp, rf)
    item = rx.full(rf"{use_stmt.NAME}\s*=>\s*{use_stmt.NAME}", re.IGNORECASE)
    w = rx.subset_witness(item, R)
    rep.ob("RENAME_RE finds every `local => remote` item", w is None, "" if w is None else f"`{w}`", py.nloc(rnode), witness=w)
    plain = rx.full(use_stmt.NAME, re.IGNORECASE)
    w = rx.disjoint_witness(plain, R)
    rep.ob("RENAME_RE does not fire on a plain name", w is None, "" if w is None else f"`{w}`", py.nloc(rnode), witness=w)
    # USE arm records both groups
    a = ctx.cascade.arm_by_regex("USE_RE")
    def both_groups(x: ast.AST) -> bool:
        alts = astq.expand_locals(x, ctx.cascade.fn)
        return any(any(isinstance(c, ast.Call) and isinstance(c.func, ast.Attribute) and c.func.attr == "groups" for c in ast.walk(e))
                   or len({ast.unparse(c) for c in ast.walk(e) if isinstance(c, ast.Call) and isinstance(c.func, ast.Attribute)
                           and c.func.attr == "group"}) >= 2 for e in alts)
    ok = any(isinstance(c, ast.Call) and isinstance(c.func, ast.Attribute) and c.func.attr == "append" and
             ast.unparse(c.func.value) == "self.uses" and c.args and both_groups(c.args[0])
             for st in a.body for c in ast.walk(st))
    rep.ob("USE arm records (module name, tail)", ok, "", py.nloc(a.test))
    # one record per USE statement: the record is appended on every path on which the container accepts USE at all
    # (several USE statements of one module are combined later, by get_used_entities, not by editing earlier records)
    apps = [e for e in astq.trace_block(a.body, ctx.cascade.fn) if e.kind == "call" and isinstance(e.node.func, ast.Attribute)
            and e.node.func.attr == "append" and ast.unparse(e.node.func.value) == "self.uses"]
    if not apps:
        raise AnalysisError("USE arm: no append to self.uses")
    extra = [c for e in apps for c in e.cond_texts() if "hasattr(" not in c] + ["inside a loop" for e in apps if e.loops]
    rep.ob("every USE statement gets a record of its own", not extra,
           "appended unconditionally (given the container has a `uses` list)" if not extra else
           f"the record is only appended under {extra[:2]}: a later USE of the same module is folded into an earlier one, so "
           f"`use m, only: a` followed by `use m` imports only `a`", py.nloc(apps[0].node))



def r5_externalised_tables(ctx, rep):
    """renames survive externalisation (shared with C16.R2): the pub_* tables are written to and read from
    modules.json under the keys (local names) they have in the exporting module"""
    from . import c16
    c16.table_keys_kept(ctx, rep)

def r6_tables_read_by_key(ctx, rep):
    """an entity imported under a local name is found under that name: see C07.R10"""
    from . import c07
    c07.r10_tables_read_by_key(ctx, rep)


def r7_abstract_interface_bodies(ctx, rep):
    """An interface body is a scope of its own with its own USE statements, whether the block is `interface` or
    `abstract interface`.  FORD keeps the two kinds in two lists (`interfaces`, `absinterfaces`); every walk that follows the USE
    statements of a unit's procedures down into the bodies of `interfaces` has to cover `absinterfaces` as well, otherwise names
    imported inside an abstract interface body are never associated (sibling agreement between the two lists)."""
    py = ctx.py
    n = 0

    def mentions(iter_: ast.AST, what: str) -> bool:
        return any((isinstance(x, ast.Attribute) and x.attr == what) or (isinstance(x, ast.Constant) and x.value == what)
                   for x in ast.walk(iter_))
    for mod, fn in py.all_functions():
        if mod not in ("fortran_project",):
            continue
        uses = any(isinstance(x, ast.Attribute) and x.attr == "uses" for x in ast.walk(fn))
        # a walk that follows USE statements downwards: reads `.uses`, iterates the `routines` of its argument and calls itself
        recursive = any(isinstance(c, ast.Call) and call_name(c).split(".")[-1] == fn.name for c in ast.walk(fn))
        over_routines = [lp for lp in ast.walk(fn) if isinstance(lp, (ast.For, ast.comprehension)) and mentions(lp.iter, "routines")]
        if not (uses and recursive and over_routines):
            continue
        n += 1
        walks = {what: any(isinstance(lp, (ast.For, ast.comprehension)) and mentions(lp.iter, what) for lp in ast.walk(fn))
                 for what in ("interfaces", "absinterfaces")}
        also = all(walks.values())
        missing = [k for k, v in walks.items() if not v]
        rep.ob(f"{py.qualname(fn)}: the walk over procedures covers interface bodies of both kinds", also,
               "routines, interfaces and absinterfaces are all followed" if also else
               f"the walk follows the USE statements of `routines` but not of the bodies in {missing}: `abstract interface; subroutine "
               f"cb(x); use types_mod, only: t; type(t) :: x` leaves `t` unresolved / a module used only inside an interface body is "
               f"missing from the dependency order", py.nloc(over_routines[0] if isinstance(over_routines[0], ast.For) else fn))
    if n < 2:
        raise AnalysisError(f"only {n} recursive walks over interface bodies found")


def r8_interface_bodies_accessibility(ctx, rep):
    """what a module exports is decided by the accessibility of its entities; a specific procedure declared by an interface
    body inside a *generic* interface has its own accessibility, not the generic's (shared with C04.R5)"""
    from . import c04
    c04.r5_interface_and_constructor(ctx, rep)


def r9_every_use_statement_applied(ctx, rep):
    """USE statements are cumulative: `use m, only: a` followed by `use m, only: b` gives the scope both names.  The recorded
    statements are (module, specification) pairs; whoever turns them into imports has to walk the pairs themselves - a mapping
    keyed by the module (dict(pairs), a dict comprehension) keeps only the last statement of each module."""
    py = ctx.py
    n = 0
    for mod, fn in py.all_functions():
        if mod != "sourceform":
            continue
        parents = None
        for c in py.walk_calls(fn):
            if call_name(c).split(".")[-1] != "get_used_entities" or py.enclosing_function(c) is not fn:
                continue
            if parents is None:
                parents = astq.parents_of(fn)
            loop = astq.enclosing(c, parents, (ast.For,))
            if loop is None:
                continue
            n += 1
            srcs = [loop.iter] + astq.expand_locals(loop.iter, fn)
            collapsed = next((x for s_ in srcs for x in ast.walk(s_)
                              if isinstance(x, ast.DictComp) or (isinstance(x, ast.Call) and call_name(x) in ("dict", "OrderedDict", "collections.OrderedDict")
                                                                  and x.args)), None)
            from_uses = any(isinstance(x, ast.Attribute) and x.attr == "uses" for s_ in srcs for x in ast.walk(s_))
            ok = collapsed is None and from_uses
            rep.ob(f"{py.qualname(fn)}: imports are taken from every recorded USE statement", ok,
                   "the loop walks the (module, specification) pairs" if ok else
                   (f"`{ast.unparse(collapsed)[:60]}` keys the recorded USE statements by module: of several USE statements naming one "
                    f"module only the last is applied, the names the others make accessible stay unresolved" if collapsed is not None else
                    f"the loop iterates `{ast.unparse(loop.iter)[:60]}`, which is not derived from the recorded `uses`"), py.nloc(loop))
    if n < 2:
        raise AnalysisError(f"only {n} import loop(s) calling get_used_entities found")
    # ... and each of them is applied: inside the loop nothing but "this module is not known (its name is still a string)" may
    # skip a statement - a memory of modules "already imported entirely" drops a later `use m, only: alias => entity`
    for mod, fn in py.all_functions():
        if mod != "sourceform":
            continue
        evs = [e for e in astq.trace(fn) if e.kind == "call" and call_name(e.node).split(".")[-1] == "get_used_entities" and e.loops
               and py.enclosing_function(e.node) is fn]
        for e in evs:
            loop = e.loops[-1]
            outer = {id(t) for t, _p, _s in next((x.conds for x in astq.trace(fn) if x.kind == "loop" and x.node is loop), [])}
            inner = [(t, p_) for t, p_, _s in e.conds if id(t) not in outer]
            other = [(t, p_) for t, p_ in inner if not (any(isinstance(c, ast.Call) and call_name(c) == "isinstance" for c in ast.walk(t))
                                                         and not any(isinstance(c, ast.Compare) for c in ast.walk(t)))]
            rep.ob(f"{py.qualname(fn)}: no recorded USE statement of a known module is skipped", not other,
                   "only unresolved module names are skipped" if not other else
                   f"the import of a USE statement also depends on {[ast.unparse(t)[:60] for t, _p in other]}: a statement that is skipped "
                   f"contributes none of its names (renames, ONLY lists) to the scope", py.nloc(e.node))
    # after the imports the recorded pairs are replaced by the modules themselves - once each, however many USE statements
    # named them (sibling agreement: FortranCodeUnit.correlate builds a set)
    m = 0
    for mod, fn in py.all_functions():
        if mod != "sourceform" or not any(call_name(c).split(".")[-1] == "get_used_entities" for c in py.walk_calls(fn)):
            continue
        for t, v in astq.assignments(fn, "self.uses"):
            if v is None or (isinstance(v, (ast.List, ast.Tuple)) and not v.elts):
                continue
            m += 1
            unique = isinstance(v, (ast.SetComp,)) or (isinstance(v, ast.Call) and call_name(v) in ("set", "frozenset", "dict.fromkeys", "sorted")
                                                         and (call_name(v) != "sorted" or any(isinstance(x, (ast.SetComp, ast.Set)) or
                                                                                              (isinstance(x, ast.Call) and call_name(x) == "set")
                                                                                              for x in ast.walk(v)))) or \
                (isinstance(v, ast.Call) and call_name(v) == "list" and v.args and (
                    (isinstance(v.args[0], ast.Call) and call_name(v.args[0]) in ("dict.fromkeys", "set")) or
                    # list(<a local dict / set>): its keys, once each
                    (isinstance(v.args[0], ast.Name) and any(
                        isinstance(d, (ast.Dict, ast.DictComp, ast.Set, ast.SetComp)) or (isinstance(d, ast.Call) and call_name(d) in ("dict", "set"))
                        for _t, d in astq.assignments(fn, v.args[0].id) if d is not None))))
            rep.ob(f"{py.qualname(fn)}: the used modules are listed once each", unique,
                   "self.uses becomes a collection without duplicates" if unique else
                   f"`self.uses = {ast.unparse(v)[:50]}` keeps one entry per USE statement: a module named in two USE statements is shown "
                   f"twice in the unit's \"Uses\" box (and gets two edges)", py.nloc(t))
    if m < 2:
        raise AnalysisError("the replacement of the recorded USE pairs by the modules was not found in both implementations")


RULES = [
    RuleSpec("C06.R1", r1_rename_map, "the rename map reaches every import", floor=4),
    RuleSpec("C06.R2", r2_public_only, "only public things cross a module boundary", floor=7),
    RuleSpec("C06.R3", r3_dependency_order, "modules are correlated in dependency order", floor=5),
    RuleSpec("C06.R4", r4_use_syntax, "USE statement syntax", floor=9),
    RuleSpec("C06.R5", r5_externalised_tables, "renamed re-exports survive externalisation (shared with C16.R2)", floor=2),
    RuleSpec("C06.R6", r6_tables_read_by_key, "imported entities are looked up under their local name (shared with C07.R10)", floor=1),
    RuleSpec("C06.R7", r7_abstract_interface_bodies, "USE statements in abstract interface bodies are followed like those in interface bodies", floor=2),
    RuleSpec("C06.R9", r9_every_use_statement_applied, "every recorded USE statement is applied (several per module accumulate)", floor=2),
    RuleSpec("C06.R8", r8_interface_bodies_accessibility, "interface bodies keep their own accessibility (shared with C04.R5)", floor=2),
]
