"""C06 — USE association imports exactly the accessible names (structural clauses)."""
from __future__ import annotations

import ast
import re
from typing import Dict, List, Optional, Set, Tuple

from ..core import AnalysisError, RuleSpec
from ..pymodel import call_name
from ..specs import use_stmt

EXPLANATION = (
    "Dataflow and ordering rules on FortranModule._cleanup/get_used_entities, FortranCodeUnit.correlate "
    "and Project.correlate, plus exact regular-language checks of the USE regexes. R1: every store into the "
    "imported-names table has a key that depends on the rename map whenever the USE statement has a "
    "rename/only list, and both sides of the map are lower-cased. R2: only public things cross a module "
    "boundary - every write to pub_* has a value produced by a public filter whose predicate tests the "
    "right thing (permission in {public, protected} at definition; unit default public or *local* name in "
    "public_list on re-export), and used_objects reads only pub_* tables. R3: modules are correlated in "
    "an order data-dependent on toposort of a dependency map that covers module-level USE, USE in contained "
    "procedures and in interface bodies, and the submodule parent edge; name resolution precedes it. R4 "
    "(E2): every USE statement form (nature, ::, only, rename, operator items; all blank/case spellings, "
    "unbounded names and lists) is matched by USE_RE, and ONLY_RE accepts exactly the ONLY tails. Agreement "
    "with the standard on module graphs is not decided."
)
ASSUMPTIONS = ["names are [A-Za-z][A-Za-z0-9_]*"]


def r1_rename_map(ctx, rep):
    py = ctx.py
    fn = py.func("FortranModule.get_used_entities")
    inner = [n for n in ast.walk(fn) if isinstance(n, ast.FunctionDef) and n.name == "used_objects"]
    if not inner:
        raise AnalysisError("get_used_entities: used_objects not found")
    uo = inner[0]
    stores = [n for n in ast.walk(uo) if isinstance(n, ast.Assign) and isinstance(n.targets[0], ast.Subscript)
              and ast.unparse(n.targets[0].value) == "result"]
    if not stores:
        raise AnalysisError("used_objects: no store into result")
    for k, st in enumerate(stores):
        key = ast.unparse(st.targets[0].slice)
        ok = "used_names" in key
        # which branch?
        conds = []
        p = st
        while p is not uo:
            c = p
            p = py.parents[p]
            if isinstance(p, ast.If):
                conds.append(("" if c in p.body else "not ") + ast.unparse(p.test))
        rep.ob(f"used_objects store #{k} [{' & '.join(reversed(conds))}]", ok,
               (f"key `{key}` goes through the rename map" if ok else
                f"`result[{key}] = obj` ignores the rename map on the path [{' & '.join(reversed(conds))}]: "
                f"`use m, local => remote` (without ONLY) keeps the entity under its remote name and never "
                f"defines the local one"), py.nloc(st))
    # the map is shared by the four filter passes (procs, absints, types, vars): read-only in used_objects
    muts = [c for c in py.walk_calls(uo) if isinstance(c.func, ast.Attribute) and ast.unparse(c.func.value) == "used_names"
            and c.func.attr in ("pop", "popitem", "clear", "update", "setdefault")]
    muts += [n for n in ast.walk(uo) if isinstance(n, (ast.Delete,)) and "used_names" in ast.unparse(n)]
    muts += [n for n in ast.walk(uo) if isinstance(n, ast.Subscript) and isinstance(n.ctx, ast.Store)
             and ast.unparse(n.value) == "used_names"]
    rep.ob("the rename map is not consumed while filtering one entity kind", not muts,
           "used_names is only read inside used_objects" if not muts else
           f"`{ast.unparse(muts[0])[:50]}` removes names from the map shared by the four kind passes: a name that denotes "
           f"both a type and its same-named constructor interface is imported for the first kind only", py.nloc(muts[0]) if muts else py.nloc(uo))
    # early return only for an empty tail
    first = [s for s in fn.body if isinstance(s, ast.If)][0]
    ok = ast.unparse(first.test) == "len(use_specs.strip()) == 0" and "return (self.pub_procs, self.pub_absints, self.pub_types, self.pub_vars)" in ast.unparse(first)
    rep.ob("plain USE imports the four public tables", ok, "", py.nloc(first))
    # the map: both sides lower-cased
    maps = [n for n in ast.walk(fn) if isinstance(n, ast.Assign) and isinstance(n.targets[0], ast.Subscript)
            and ast.unparse(n.targets[0].value) == "used_names"]
    if len(maps) < 2:
        raise AnalysisError("get_used_entities: used_names construction not found")
    for m in maps:
        k, v = ast.unparse(m.targets[0].slice), ast.unparse(m.value)
        ok = k.endswith(".lower()") and v.endswith(".lower()")
        rep.ob(f"used_names[{k}] = {v}", ok,
               "remote and local name are both lower-cased (lookups are case-insensitive)" if ok else
               f"`used_names[{k}] = {v}`: one side keeps the source spelling, so `use m, only: Local => remote` "
               f"stores the entity under a key no (lower-cased) lookup can reach", py.nloc(m))
    # rename direction: used_names[remote] = local
    ren = [m for m in maps if "match.group" in ast.unparse(m)]
    ok = bool(ren) and "match.group(2)" in ast.unparse(ren[0].targets[0].slice) and "match.group(1)" in ast.unparse(ren[0].value)
    rep.ob("rename direction local => remote", ok, "used_names[remote] = local (RENAME_RE groups 2 -> 1)", py.nloc(ren[0]) if ren else py.nloc(fn))
    ok = "only = bool(self.ONLY_RE.match(use_specs))" in ast.unparse(fn) and "self.ONLY_RE.sub('', use_specs)" in ast.unparse(fn)
    rep.ob("ONLY detection", ok, "", py.nloc(fn))
    # name lookup lower-cases
    ok = "name = name.lower()" in ast.unparse(uo)
    rep.ob("exported names compared lower-case", ok, "", py.nloc(uo))


def r2_public_only(ctx, rep):
    py = ctx.py
    # writes to pub_*
    n = 0
    for q in ("FortranModule._cleanup", "FortranCodeUnit.correlate"):
        fn = py.func(q)
        for st in ast.walk(fn):
            val = None
            tgt = None
            if isinstance(st, ast.Assign) and isinstance(st.targets[0], ast.Attribute) and \
                    st.targets[0].attr.startswith("pub_") and ast.unparse(st.targets[0].value) == "self":
                tgt, val = st.targets[0].attr, st.value
            elif isinstance(st, ast.Call) and isinstance(st.func, ast.Attribute) and st.func.attr == "update" and \
                    isinstance(st.func.value, ast.Attribute) and st.func.value.attr.startswith("pub_") and st.args:
                tgt, val = st.func.value.attr, st.args[0]
            if tgt is None:
                continue
            n += 1
            ok = isinstance(val, ast.Call) and call_name(val) == "filter_public"
            rep.ob(f"{q}: write to {tgt} <- {ast.unparse(val)[:40]}", ok,
                   "value produced by the public filter" if ok else
                   f"self.{tgt} receives `{ast.unparse(val)[:50]}` unfiltered: private entities are exported", py.nloc(st))
    if n < 8:
        raise AnalysisError(f"only {n} writes to pub_* found")
    # predicates
    cl = py.func("FortranModule._cleanup")
    t = ast.unparse(cl)
    ok = "return item.permission in ['public', 'protected']" in t
    rep.ob("definition-site filter: permission in {public, protected}", ok, "", py.nloc(cl))
    co = py.func("FortranCodeUnit.correlate")
    sp = [n for n in ast.walk(co) if isinstance(n, ast.FunctionDef) and n.name == "should_be_public"]
    fp = [n for n in ast.walk(co) if isinstance(n, ast.FunctionDef) and n.name == "filter_public"]
    if not sp or not fp:
        raise AnalysisError("correlate: should_be_public/filter_public not found")
    t = ast.unparse(sp[0])
    ok = "return self.permission == 'public' or name in self.public_list" in t
    rep.ob("re-export filter: unit default public or name in public_list", ok, "", py.nloc(sp[0]))
    comp = [n for n in ast.walk(fp[0]) if isinstance(n, ast.DictComp)]
    ok = False
    if comp:
        c = comp[0]
        gen = c.generators[0]
        if isinstance(gen.target, ast.Tuple) and ast.unparse(gen.iter) == "collection.items()" and gen.ifs:
            keyvar = gen.target.elts[0].id
            arg = ast.unparse(gen.ifs[0])
            ok = arg == f"should_be_public({keyvar})" and ast.unparse(c.key) == keyvar
    rep.ob("re-export filter is keyed by the local (possibly renamed) name", ok,
           "the predicate receives the table key, i.e. the name under which this module knows the entity" if ok else
           "the re-export predicate no longer tests the local name (the table key): an entity imported as "
           "`local => remote` and listed `public :: local` is not re-exported", py.nloc(fp[0]))
    # used_objects reads only pub_* attributes
    gu = py.func("FortranModule.get_used_entities")
    args = [c.args[0].value for c in py.walk_calls(gu) if call_name(c) == "used_objects" and c.args
            and isinstance(c.args[0], ast.Constant)]
    ok = sorted(args) == ["pub_absints", "pub_procs", "pub_types", "pub_vars"]
    rep.ob("used_objects reads exactly the four pub_* tables", ok, f"tables read: {args}", py.nloc(gu))
    # pub_* updates happen only for modules
    t = ast.unparse(co)
    ok = re.search(r"if isinstance\(self, FortranModule\):\s+self\.pub_procs\.update", t) is not None
    rep.ob("only modules re-export", ok, "", py.nloc(co))
    # all_* tables receive the unfiltered imports (visible inside the unit)
    ok = all(f"self.{a}.update({b})" in t for a, b in (("all_procs", "procs"), ("all_absinterfaces", "absints"),
                                                      ("all_types", "types"), ("all_vars", "variables")))
    rep.ob("imports are visible inside the importing unit", ok, "", py.nloc(co))


def r3_dependency_order(ctx, rep):
    py = ctx.py
    fn = py.func("Project.correlate")
    t = ast.unparse(fn)
    ok = "ranklist = toposort.toposort_flatten(deplist)" in t
    rep.ob("rank list comes from toposort_flatten(deplist)", ok, "", py.nloc(fn))
    loops = [n for n in ast.walk(fn) if isinstance(n, ast.For) and "container.correlate(self)" in ast.unparse(n)]
    ok = bool(loops) and ast.unparse(loops[0].iter) == "ranklist"
    rep.ob("correlate loop iterates the rank list", ok,
           "modules are correlated in dependency order" if ok else
           "container.correlate is not driven by the toposorted list: results depend on file order", py.nloc(loops[0]) if loops else py.nloc(fn))
    ok = re.search(r"deplist = \{module: set\(module\.deplist\) for module in chain\(self\.modules, self\.submodules\)\}", t) is not None
    rep.ob("dependency map covers modules and submodules", ok, "", py.nloc(fn))
    ok = "mod.deplist = [mod.parent_submodule or mod.ancestor_module] + filter_modules(mod)" in t
    rep.ob("submodule depends on its parent", ok, "", py.nloc(fn))
    # get_deps coverage vs find_used_modules
    gd = [n for n in ast.walk(fn) if isinstance(n, ast.FunctionDef) and n.name == "get_deps"]
    if not gd:
        raise AnalysisError("Project.correlate: get_deps not found")
    g = ast.unparse(gd[0])
    covers_routines = "item.routines" in g
    covers_intr = "intr.procedure" in g and "interfaceprocs" in g and \
        re.search(r"chain\(item\.routines, interfaceprocs\)", g) is not None
    rep.ob("get_deps recurses into contained procedures", covers_routines, "", py.nloc(gd[0]))
    rep.ob("get_deps recurses into interface bodies", covers_intr,
           "USE statements inside interface bodies order the modules too" if covers_intr else
           "get_deps no longer follows interface bodies although find_used_modules resolves their USE statements: "
           "a module that references another only from an interface body is correlated before it", py.nloc(gd[0]))
    ok = "uselist = [m[0] for m in item.uses]" in g and "uselist.extend(get_deps(procedure))" in g
    rep.ob("get_deps collects USE targets recursively", ok, "", py.nloc(gd[0]))
    fm = [n for n in ast.walk(fn) if isinstance(n, ast.FunctionDef) and n.name == "filter_modules"]
    ok = bool(fm) and "type(dep) is FortranModule" in ast.unparse(fm[0])
    rep.ob("only resolved project modules become edges", ok, "", py.nloc(fm[0]) if fm else py.nloc(fn))
    # find_used_modules precedes deplist computation
    fu_line = min([c.lineno for c in py.walk_calls(fn) if call_name(c) == "find_used_modules"] or [0])
    dl_line = min([n.lineno for n in ast.walk(fn) if isinstance(n, ast.Assign) and "deplist" in ast.unparse(n.targets[0])] or [0])
    ok = 0 < fu_line < dl_line
    rep.ob("names are resolved to module objects before dependencies are computed", ok, "", py.nloc(fn))
    fum = py.func("fortran_project.find_used_modules")
    t = ast.unparse(fum)
    ok = "for procedure in entity.routines" in t and "interface.procedure" in t and "interface.routines" in t
    rep.ob("find_used_modules visits procedures and interface bodies", ok, "", py.nloc(fum))
    ent = [n for n in ast.walk(fn) if isinstance(n, ast.For) and "find_used_modules(entity" in ast.unparse(n)]
    ok = bool(ent) and all(x in ast.unparse(ent[0].iter) for x in ("self.modules", "self.procedures", "self.programs", "self.submodules", "self.blockdata"))
    rep.ob("every kind of program unit has its USE statements resolved", ok, "", py.nloc(ent[0]) if ent else py.nloc(fn))


def r4_use_syntax(ctx, rep):
    py, rx = ctx.py, ctx.rx
    up, uf, unode, _ = ctx.regexes["FortranContainer.USE_RE"]
    U = rx.match_lang(up, uf)
    for hname, head in use_stmt.HEADS.items():
        for tname, tail in use_stmt.TAILS.items():
            L = rx.full(head + tail, re.IGNORECASE)
            w = rx.subset_witness(L, U)
            rep.ob(f"USE form `{hname}{tname}`", w is None,
                   f"every spelling is matched by USE_RE ({rx.witness.last_states} states)" if w is None else
                   f"`{w}` is a legal USE statement that USE_RE does not match", py.nloc(unode), witness=w)
    # the tail captured by group 2 starts with ',' or is empty: ONLY_RE classification
    op, of, onode, _ = ctx.regexes["FortranModule.ONLY_RE"]
    O = rx.match_lang(op, of)
    only_tail = rx.full(use_stmt.TAILS[", only: list"], re.IGNORECASE)
    w = rx.subset_witness(only_tail, O)
    rep.ob("ONLY_RE accepts every `, only: list` tail", w is None, "" if w is None else f"`{w}` not recognised as ONLY", py.nloc(onode), witness=w)
    w = rx.subset_witness(rx.full(r"\s*,\s*only\s*:", re.IGNORECASE), O)
    rep.ob("ONLY_RE accepts the empty `, only:` tail", w is None,
           "`use m, only:` imports nothing" if w is None else
           f"`{w}` is not recognised as ONLY: `use m{w}` is treated as a plain USE and imports every public entity", py.nloc(onode), witness=w)
    ren_tail = rx.full(use_stmt.TAILS[", rename-list"], re.IGNORECASE)
    w = rx.disjoint_witness(ren_tail, O)
    rep.ob("ONLY_RE rejects every rename-only tail", w is None, "" if w is None else f"`{w}` is a rename list taken for ONLY", py.nloc(onode), witness=w)
    rp, rf, rnode, _ = ctx.regexes["FortranModule.RENAME_RE"]
    R = rx.search_lang(rp, rf)
    item = rx.full(rf"{use_stmt.NAME}\s*=>\s*{use_stmt.NAME}", re.IGNORECASE)
    w = rx.subset_witness(item, R)
    rep.ob("RENAME_RE finds every `local => remote` item", w is None, "" if w is None else f"`{w}`", py.nloc(rnode), witness=w)
    plain = rx.full(use_stmt.NAME, re.IGNORECASE)
    w = rx.disjoint_witness(plain, R)
    rep.ob("RENAME_RE does not fire on a plain name", w is None, "" if w is None else f"`{w}`", py.nloc(rnode), witness=w)
    # USE arm records both groups
    a = ctx.cascade.arm_by_regex("USE_RE")
    ok = "self.uses.append(list(match.groups()))" in ast.unparse(ast.Module(body=a.body, type_ignores=[]))
    rep.ob("USE arm records (module name, tail)", ok, "", py.nloc(a.test))


RULES = [
    RuleSpec("C06.R1", r1_rename_map, "the rename map reaches every import", floor=8),
    RuleSpec("C06.R2", r2_public_only, "only public things cross a module boundary", floor=14),
    RuleSpec("C06.R3", r3_dependency_order, "modules are correlated in dependency order", floor=11),
    RuleSpec("C06.R4", r4_use_syntax, "USE statement syntax", floor=15),
]
