"""C16 — links into an externalised project (structural clauses)."""
from __future__ import annotations

import ast
import re
from typing import Dict, List, Optional, Set, Tuple

from ..core import AnalysisError, RuleSpec
from ..pymodel import call_name
from .. import astq
from . import c09
from . import common

EXPLANATION = (
    "Static rules on external_project.py / fortran_project.py. R1: exception coverage of the load "
    "path - the raise sets of the calls inside the try (urlopen, read, decode, Path.read_text via "
    "modules_from_local, json.loads) are summarised from a table of stdlib behaviour and the handler "
    "must cover their union, so an unreachable or malformed description costs only the links. R2: "
    "writer/reader agreement - obj2dict and dict2obj use the same key set, every entity class reachable "
    "from an exported module yields an `obj`/`proctype` that is a key of ENTITIES, the './' prefix "
    "written is the one component stripped on load. R3: local collections are searched before "
    "external ones (find_used_modules first-match order, Project.find order of LINK_TYPES). R4: only "
    "project.modules are exported and external_url short-circuits URL computation. R5: the remote "
    "base URL is slash-terminated before every urljoin. Existence of the target pages in the other "
    "project's output is not decided."
    ' R6: dict2obj builds one fresh object per exported entity and registers it; graph nodes take external URLs as recorded. R7: every value passed as the URL of an external entity is a str, and the base handed to modules_from_local is a Path on every path. R1 also covers shape errors of a description that is valid JSON (KeyError/TypeError/AttributeError from the conversion).'
    " Added after waves 6/7 - memoised loaders do not hand out containers that callers edit; the external_url short-circuit is decided on path conditions (hasattr test or try/except AttributeError)."
)
ASSUMPTIONS = ["raise sets of the stdlib calls are the table RAISES below", "exception hierarchy table HIER"]

HIER = {"KeyError": "LookupError", "LookupError": "Exception", "TypeError": "Exception", "AttributeError": "Exception",
        "URLError": "OSError", "HTTPError": "URLError", "FileNotFoundError": "OSError",
        "PermissionError": "OSError", "IsADirectoryError": "OSError", "JSONDecodeError": "ValueError",
        "UnicodeDecodeError": "ValueError", "OSError": "Exception", "ValueError": "Exception",
        "Exception": "BaseException"}
RAISES = {
    "urlopen": {"URLError", "ValueError", "OSError"},
    "read": {"OSError"},
    "decode": {"UnicodeDecodeError"},
    "read_text": {"OSError", "UnicodeDecodeError"},
    "loads": {"JSONDecodeError"},
    "load": {"JSONDecodeError", "OSError"},
    "open": {"OSError"},
}


def covers(handler_types: Set[str], exc: str) -> bool:
    e = exc
    while e:
        if e in handler_types:
            return True
        e = HIER.get(e)
    return False


def raise_set(py, node: ast.AST, depth=0) -> Dict[str, ast.AST]:
    out: Dict[str, ast.AST] = {}
    for c in ast.walk(node):
        if isinstance(c, ast.Call):
            last = call_name(c).split(".")[-1]
            if last in RAISES:
                for e in RAISES[last]:
                    out.setdefault(e, c)
            elif depth < 2 and f"external_project.{last}" in py.functions:
                for e, n in raise_set(py, py.functions[f"external_project.{last}"], depth + 1).items():
                    out.setdefault(e, c)
    return out


def r1_error_coverage(ctx, rep):
    py = ctx.py
    fn = py.func("external_project.load_external_modules")
    tries = [n for n in ast.walk(fn) if isinstance(n, ast.Try)]
    if not tries:
        raise AnalysisError("load_external_modules: try block not found")
    t = tries[0]
    handled: Set[str] = set()
    for h in t.handlers:
        if h.type is None:
            handled.add("BaseException")
        else:
            ts = h.type.elts if isinstance(h.type, ast.Tuple) else [h.type]
            for x in ts:
                handled.add(ast.unparse(x).split(".")[-1])
    rs = raise_set(py, ast.Module(body=t.body, type_ignores=[]))
    if len(rs) < 3:
        raise AnalysisError("load path raise set unexpectedly small")
    for exc, node in sorted(rs.items()):
        ok = covers(handled, exc)
        rep.ob(f"load_external_modules handler covers {exc}", ok,
               (f"{exc} (from {call_name(node)}) is caught by {sorted(handled)}" if ok else
                f"{call_name(node)}(...) inside the try can raise {exc}, which the handler {sorted(handled)} does not "
                f"cover: a missing or unreadable external description aborts the whole run"), py.nloc(node))
    # shape errors: the conversion subscripts JSON values and calls str methods on them
    d2o = py.func("external_project.dict2obj")
    param = d2o.args.args[1].arg
    shape: Dict[str, ast.AST] = {}
    for n in ast.walk(d2o):
        if isinstance(n, ast.Subscript) and isinstance(n.ctx, ast.Load) and isinstance(n.value, ast.Name) \
                and n.value.id in (param, "ENTITIES"):
            shape.setdefault("KeyError", n)
            if n.value.id == param:
                shape.setdefault("TypeError", n)
        if isinstance(n, ast.Call) and isinstance(n.func, ast.Attribute) and isinstance(n.func.value, (ast.Subscript, ast.Call)) \
                and param in ast.unparse(n.func.value):
            shape.setdefault("AttributeError", n)
    if len(shape) < 3:
        raise AnalysisError(f"dict2obj: shape-error sources not found ({sorted(shape)})")
    parents = {}
    for n in ast.walk(fn):
        for c in ast.iter_child_nodes(n):
            parents[c] = n
    conv = [c for c in py.walk_calls(fn) if call_name(c) == "dict2obj"]
    conv += [n for n in ast.walk(fn) if isinstance(n, ast.Subscript) and isinstance(n.ctx, ast.Load)
             and isinstance(n.slice, ast.Constant) and n.slice.value == "modules"]
    if len(conv) < 2:
        raise AnalysisError("load_external_modules: conversion sites not found")
    for site in conv:
        h2: Set[str] = set()
        n = site
        while n in parents:
            pn = parents[n]
            if isinstance(pn, ast.Try) and any(n is x or n in list(ast.walk(x)) for x in pn.body):
                for h in pn.handlers:
                    if h.type is None:
                        h2.add("BaseException")
                    else:
                        for x in (h.type.elts if isinstance(h.type, ast.Tuple) else [h.type]):
                            h2.add(ast.unparse(x).split(".")[-1])
            n = pn
        what = "dict2obj(...)" if isinstance(site, ast.Call) else ast.unparse(site)
        for exc, src in sorted(shape.items()):
            if not isinstance(site, ast.Call) and exc == "AttributeError":
                continue
            if not isinstance(site, ast.Call):
                src = site
            ok = covers(h2, exc)
            rep.ob(f"load_external_modules: {what} guarded against {exc}", ok,
                   f"caught by {sorted(h2)}" if ok else
                   f"a description of the wrong shape makes `{ast.unparse(src)}` ({py.nloc(src)}) raise {exc}, which is not "
                   f"caught around {what}: a malformed modules.json aborts the whole run", py.nloc(site))
    # everything fallible about the description happens inside the try
    after = [c for st in fn.body for c in ast.walk(st) if isinstance(c, ast.Call)
             and call_name(c).split(".")[-1] in ("urlopen", "loads", "read_text") and not any(
                 c in list(ast.walk(x)) for x in t.body)]
    rep.ob("fallible load calls are inside the try", not after,
           "urlopen / json.loads / read_text only occur inside the guarded block" if not after else
           f"{call_name(after[0])} is called outside the try", py.nloc(after[0]) if after else py.nloc(t))


def const_list(py, mod: str, name: str) -> List[str]:
    """elements of a module-level list/tuple constant, or keys of a dict whose values are class names"""
    v = py.const_value(mod, name)
    if isinstance(v, (list, tuple)) and v:
        return [x for x in v if isinstance(x, str)]
    if isinstance(v, dict) and v:
        return [k for k in v if isinstance(k, str)]
    # a dict literal whose values are not constants (class objects): take the constant keys
    for st in py.modules[mod].body:
        tgt = st.targets[0] if isinstance(st, ast.Assign) and len(st.targets) == 1 else getattr(st, "target", None)
        if isinstance(tgt, ast.Name) and tgt.id == name and isinstance(getattr(st, "value", None), ast.Dict):
            ks = [py.eval_const(k, py.module_env(mod)) for k in st.value.keys if k is not None]
            if ks and all(isinstance(k, str) for k in ks):
                return ks
        # dict(module=ExternalModule, ...): the keyword names are the keys
        v2 = getattr(st, "value", None)
        if isinstance(tgt, ast.Name) and tgt.id == name and isinstance(v2, ast.Call) and call_name(v2) == "dict" and not v2.args \
                and v2.keywords and all(k.arg for k in v2.keywords):
            return [k.arg for k in v2.keywords]
    raise AnalysisError(f"{mod}.{name} not found as a constant table")


# classes whose instances can be reached from an exported module through ATTRIBUTES (reviewed;
# cross-checked: each must exist; list attr -> class comes from c05.LIST_ELEM)
def reachable_classes(py) -> Set[str]:
    from . import c05
    attrs = const_list(py, "external_project", "ATTRIBUTES")
    out = {"FortranModule"}
    for a in attrs:
        if a in c05.LIST_ELEM:
            out.add(c05.LIST_ELEM[a])
    # pub_procs holds every routine and non-abstract interface of the module (FortranCodeUnit._cleanup)
    out |= {"FortranSubroutine", "FortranFunction", "FortranInterface", "FortranModuleProcedureInterface",
            "FortranModuleProcedureImplementation", "FortranVariable", "FortranType", "FortranBoundProcedure"}
    for c in out:
        py.cls(c)
    return out


def proctype_values(py, cls: str) -> Set[str]:
    vals: Set[str] = set()
    for c in py.mro(cls):
        ci = py.classes.get(c)
        if ci and "proctype" in ci.class_attrs:
            v = py.eval_str(ci.class_attrs["proctype"])
            if v is not None:
                vals.add(v)
            break
    return vals


def implementation_proctype_replaced(py) -> bool:
    fn = py.func("FortranCodeUnit.correlate")
    for n in ast.walk(fn):
        if isinstance(n, ast.Assign) and any(isinstance(t, ast.Attribute) and t.attr == "proctype" for t in n.targets) \
                and isinstance(n.value, ast.Attribute) and n.value.attr == "proctype":
            return True
    return False


def str_prefix(py, e: ast.AST) -> str:
    """constant prefix of a string-valued expression"""
    if isinstance(e, ast.Constant) and isinstance(e.value, str):
        return e.value
    if isinstance(e, ast.JoinedStr):
        out = ""
        for v in e.values:
            if isinstance(v, ast.Constant):
                out += str(v.value)
            else:
                break
        return out
    if isinstance(e, ast.BinOp) and isinstance(e.op, (ast.Add, ast.Mod)):
        left = str_prefix(py, e.left)
        if isinstance(e.op, ast.Mod):
            return left.split("%")[0]
        return left
    if isinstance(e, ast.Call) and isinstance(e.func, ast.Attribute) and e.func.attr == "format":
        return str_prefix(py, e.func.value).split("{")[0]
    return ""


def table_keys_kept(ctx, rep):
    """dictionary-valued attributes (the pub_* tables) keep the keys they were written with: the key is the name under
    which the exporting module knows the entity (possibly a rename), not the entity's own name"""
    py = ctx.py
    o2d = py.func("external_project.obj2dict")
    d2o = py.func("external_project.dict2obj")
    for fn2, who in ((o2d, "obj2dict"), (d2o, "dict2obj")):
        comps = [n for n in ast.walk(fn2) if isinstance(n, ast.DictComp)]
        stores = [n for n in ast.walk(fn2) if isinstance(n, ast.Assign) and isinstance(n.targets[0], ast.Subscript)
                  and isinstance(n.targets[0].value, ast.Name) and any(isinstance(x, ast.For) and any(n is y for y in ast.walk(x))
                                                                         and ".items()" in ast.unparse(x.iter) for x in ast.walk(fn2))]
        if not comps and not stores:
            raise AnalysisError(f"{who}: handling of dictionary-valued attributes not found")
        for c in comps:
            g = c.generators[0]
            kvar = g.target.elts[0].id if isinstance(g.target, ast.Tuple) and isinstance(g.target.elts[0], ast.Name) else None
            ok = kvar is not None and isinstance(c.key, ast.Name) and c.key.id == kvar
            rep.ob(f"{who}: table keys are kept as written", ok,
                   "the comprehension re-uses the stored key" if ok else
                   f"`{ast.unparse(c)[:80]}` builds the table keys from `{ast.unparse(c.key)}`: an entity exported under a "
                   f"renamed local name (`use m, only: paint => draw`) comes back under its original name and the importing "
                   f"project cannot resolve `paint`", py.nloc(c))


def r2_tables_agree(ctx, rep):
    py = ctx.py
    attrs = const_list(py, "external_project", "ATTRIBUTES")
    ents = const_list(py, "external_project", "ENTITIES")
    o2d = py.func("external_project.obj2dict")
    d2o = py.func("external_project.dict2obj")
    wkeys = {k.value for n in ast.walk(o2d) if isinstance(n, ast.Dict) for k in n.keys if isinstance(k, ast.Constant)}
    wkeys |= {n.slice.value for n in ast.walk(o2d) if isinstance(n, ast.Subscript) and isinstance(n.ctx, ast.Store)
              and isinstance(n.slice, ast.Constant)}
    rkeys = {n.slice.value for n in ast.walk(d2o) if isinstance(n, ast.Subscript)
             and ast.unparse(n.value) == "extDict" and isinstance(n.slice, ast.Constant)}
    rkeys |= {c.args[0].value for c in py.walk_calls(d2o) if call_name(c) == "extDict.get" and c.args
              and isinstance(c.args[0], ast.Constant)}
    ok = rkeys <= wkeys
    rep.ob("literal keys read by dict2obj are written by obj2dict", ok,
           f"reader keys {sorted(rkeys)} subset of writer keys {sorted(wkeys)}" if ok else
           f"dict2obj reads {sorted(rkeys - wkeys)} which obj2dict never writes", py.nloc(d2o))
    def iterates_table(fn) -> bool:
        return any(isinstance(n, (ast.For, ast.comprehension)) and ast.unparse(n.iter) == "ATTRIBUTES" for n in ast.walk(fn))
    both = iterates_table(o2d) and iterates_table(d2o)
    rep.ob("both directions iterate ATTRIBUTES", both, "writer and reader share the attribute table", py.nloc(o2d))
    # every reachable class maps to an ENTITIES key: the constructor is looked up with the lower-cased proctype/obj
    subs = [n for n in ast.walk(d2o) if isinstance(n, ast.Subscript) and ast.unparse(n.value) == "ENTITIES"]
    if not subs:
        raise AnalysisError("dict2obj: ENTITIES[...] lookup not found")
    key_exprs = astq.expand_locals(subs[0].slice, d2o)
    keytxt = " ".join(ast.unparse(e) for e in key_exprs)
    ctor = "'proctype'" in keytxt and "'obj'" in keytxt and (".lower()" in keytxt or ".casefold()" in keytxt)
    if not ctor:
        raise AnalysisError(f"dict2obj: the ENTITIES key is no longer the lower-cased proctype/obj ({keytxt[:120]})")
    for cls in sorted(reachable_classes(py)):
        if cls == "FortranModuleProcedureImplementation" and implementation_proctype_replaced(py):
            rep.ob(f"exported class {cls} -> ENTITIES", True,
                   "exempt: FortranCodeUnit.correlate (assign_implementation_attributes) replaces the class-level "
                   "proctype 'Module Procedure' by the interface's proctype for every implementation matched to "
                   "its interface; an unmatched `module procedure` in a module is not valid Fortran", py.nloc(d2o),
                   nontrivial=False)
            continue
        pts = proctype_values(py, cls)
        obj = c09.obj_value(py, cls)
        keys = {p.lower() for p in pts} if pts else {obj}
        bad = sorted(k for k in keys if k not in ents)
        rep.ob(f"exported class {cls} -> ENTITIES", not bad,
               (f"{cls} is written with type key {sorted(keys)}, all constructible on load" if not bad else
                f"{cls} is exported with obj/proctype {bad}, which is not a key of ENTITIES {ents}: loading the "
                f"description raises KeyError"), py.nloc(d2o))
    # './' prefix written, exactly one leading component stripped
    wvals = [v for n in ast.walk(o2d) if isinstance(n, ast.Dict) for k, v in zip(n.keys, n.values)
             if isinstance(k, ast.Constant) and k.value == "external_url"]
    wvals += [n.value for n in ast.walk(o2d) if isinstance(n, ast.Assign) and any(
        isinstance(t, ast.Subscript) and isinstance(t.slice, ast.Constant) and t.slice.value == "external_url" for t in n.targets)]
    if not wvals:
        raise AnalysisError("obj2dict: the value written for 'external_url' was not found")
    prefixes = {str_prefix(py, x) for v in wvals for x in astq.expand_locals(v, o2d) if str_prefix(py, x)}
    w = prefixes == {"./"}
    # reader: exactly one leading component is dropped: .split('/', 1)[-1] | .partition('/')[2] | removeprefix('./')
    r = False
    for n in ast.walk(d2o):
        if isinstance(n, ast.Subscript) and isinstance(n.value, ast.Call) and isinstance(n.value.func, ast.Attribute):
            c = n.value
            if c.func.attr == "split" and [ast.unparse(a) for a in c.args] == ["'/'", "1"] and ast.unparse(n.slice) in ("-1", "1"):
                r = True
            if c.func.attr == "partition" and [ast.unparse(a) for a in c.args] == ["'/'"] and ast.unparse(n.slice) == "2":
                r = True
        if isinstance(n, ast.Call) and isinstance(n.func, ast.Attribute) and n.func.attr == "removeprefix" and \
                [ast.unparse(a) for a in n.args] == ["'./'"]:
            r = True
    rep.ob("url prefix written/stripped symmetrically", w and r,
           "writer prefixes './', reader strips one leading path component" if w and r else
           f"the './' prefix convention differs between obj2dict (prefixes written: {sorted(prefixes)}) and dict2obj "
           f"(strips one component: {r})", py.nloc(d2o))
    table_keys_kept(ctx, rep)
    # Ext classes: constructor signature (name, url, parent) and the attributes dict2obj relies on
    for k in ents:
        pass
    def class_attr(cname: str, attr: str):
        for c in py.mro(cname):
            ci = py.classes.get(c)
            if ci and attr in ci.class_attrs and ci.class_attrs[attr] is not None:
                return ci.class_attrs[attr]
        return None
    # (the classes dict2obj can construct: the values of the entity table; attributes may be set by a shared base constructor)
    ext = sorted(c for c in py.classes if c.startswith("External") and class_attr(c, "_project_list") is not None
                 and any(py.is_subclass(c, b) for b in py.classes if b.startswith("Fortran")))
    for cname in ext:
        r_init = py.resolve_method(cname, "__init__")
        init = r_init[1] if r_init is not None else py.classes[cname].node
        assigned = py.init_attrs(cname, stop_at_loop=False)
        need = {"name", "external_url", "parent", "obj"}
        ok = need <= assigned
        pl = py.eval_str(class_attr(cname, "_project_list"))
        ok2 = pl in {a.attr for n in ast.walk(py.func("Project.__init__")) if isinstance(n, (ast.Assign, ast.AnnAssign))
                     for a in ([n.target] if isinstance(n, ast.AnnAssign) else n.targets) if isinstance(a, ast.Attribute)}
        rep.ob(f"{cname}: constructor attributes and project list", ok and ok2,
               f"sets {sorted(need)}; registers into Project.{pl}" if ok and ok2 else
               f"missing attributes {sorted(need - assigned)} or unknown project list {pl}", py.nloc(init))


def r3_local_precedence(ctx, rep):
    py = ctx.py
    fn = py.func("fortran_project.find_used_modules")
    params = [x.arg for x in fn.args.args]
    if len(params) < 4:
        raise AnalysisError("find_used_modules: expected (entity, modules, submodules, external_modules)")
    local_p, ext_p = params[1], params[3]
    found = False
    for n in ast.walk(fn):
        seq = None
        if isinstance(n, ast.Call) and call_name(n) in ("chain", "itertools.chain"):
            seq = [ast.unparse(x) for x in n.args]
        elif isinstance(n, ast.BinOp) and isinstance(n.op, ast.Add):
            seq = [ast.unparse(n.left), ast.unparse(n.right)]
        elif isinstance(n, (ast.List, ast.Tuple)) and any(isinstance(e, ast.Starred) for e in n.elts):
            seq = [ast.unparse(e.value) for e in n.elts if isinstance(e, ast.Starred)]
        if not seq or not ({local_p, ext_p} <= {re.sub(r"^list\((.*)\)$", r"\1", x) for x in seq}):
            continue
        seq = [re.sub(r"^list\((.*)\)$", r"\1", x) for x in seq]
        found = True
        par = py.parents.get(n)
        if isinstance(par, ast.For) and par.iter is n:
            order_ok = seq.index(local_p) < seq.index(ext_p)
            brk = any(isinstance(x, (ast.Break, ast.Return)) for x in ast.walk(par))
            ok = order_ok and brk
            rep.ob("find_used_modules: local modules searched first", ok,
                   "first match wins and local modules are enumerated before external ones" if ok else
                   ("external modules are enumerated before local ones" if not order_ok else
                    "no break at the first match: a later (external) candidate overrides the local module"),
                   py.nloc(par))
        elif isinstance(par, ast.Call) and call_name(par) == "next" or isinstance(par, ast.comprehension) and \
                isinstance(py.parents.get(py.parents.get(par)), ast.Call) and call_name(py.parents[py.parents[par]]) == "next":
            ok = seq.index(local_p) < seq.index(ext_p)
            rep.ob("find_used_modules: local modules searched first", ok,
                   "first match (next) over local-then-external candidates" if ok else "external modules are enumerated first", py.nloc(n))
        else:
            rep.ob("find_used_modules: local modules searched first", False,
                   "candidates are collected into a mapping/sequence where a later entry replaces an earlier "
                   "one: an external module shadows a local module of the same name", py.nloc(n))
    # the enumeration may be delegated to a helper that goes through its collection arguments in the order given and returns
    # the first match: `_first_named(name, modules, external_modules)`
    for c in py.walk_calls(fn):
        args = [ast.unparse(a) for a in c.args]
        if local_p in args and ext_p in args and isinstance(c.func, ast.Name) and py.has_func(f"fortran_project.{c.func.id}"):
            h = py.func(f"fortran_project.{c.func.id}")
            va = h.args.vararg.arg if h.args.vararg else None
            in_order = False
            for lp in ast.walk(h):
                if not isinstance(lp, ast.For):
                    continue
                it = lp.iter
                chained = isinstance(it, ast.Call) and call_name(it).split(".")[-1] == "chain" and any(
                    isinstance(a, ast.Starred) and ast.unparse(a.value) == va for a in it.args)
                nested = isinstance(it, ast.Name) and it.id == va and any(isinstance(x, ast.For) for x in ast.walk(lp) if x is not lp)
                first_wins = any(isinstance(x, ast.Return) and x.value is not None for x in ast.walk(lp))
                if (chained or nested) and first_wins:
                    in_order = True
            if va is None or not in_order:
                continue
            found = True
            ok = args.index(local_p) < args.index(ext_p)
            rep.ob("find_used_modules: local modules searched first", ok,
                   f"{c.func.id}() returns the first match from its collections in the order given: local, then external" if ok else
                   "external modules are handed to the search before the local ones", py.nloc(c))
    if not found:
        raise AnalysisError(f"find_used_modules: no construct enumerates `{local_p}` together with `{ext_p}`")
    # Project.find: all local collections before all external ones
    lt = py.const_value("fortran_project", "LINK_TYPES")
    if not isinstance(lt, dict) or not lt:
        raise AnalysisError("fortran_project.LINK_TYPES is not a constant dictionary")
    vals = list(lt.values())
    order = list(dict.fromkeys(vals))
    first_ext = next((i for i, v in enumerate(order) if v.startswith("ext")), len(order))
    late_local = [v for v in order[first_ext:] if not v.startswith("ext")]
    pf = py.func("Project.find")
    uses_values = any(isinstance(c, ast.Call) and call_name(c) in ("LINK_TYPES.values", "LINK_TYPES.items") for c in ast.walk(pf)) or \
        any(isinstance(n, (ast.For, ast.comprehension)) and ast.unparse(n.iter) == "LINK_TYPES" for n in ast.walk(pf))
    ok = not late_local or not uses_values
    rep.ob("Project.find: local collections precede external ones", ok,
           f"search order {order}" if ok else
           f"unqualified [[name]] lookup walks LINK_TYPES.values() in the order {order}: local collection(s) "
           f"{late_local} are searched after an external one, so a same-named external entity wins",
           py.nloc(pf))


def r4_export_scope(ctx, rep):
    py = ctx.py
    dm = py.func("external_project.dump_modules")
    srcs = [ast.unparse(n.iter) for n in ast.walk(dm) if isinstance(n, (ast.For, ast.comprehension))]
    conv = [c for c in py.walk_calls(dm) if call_name(c) == "obj2dict"]
    ok = bool(conv) and bool(srcs) and all(x.endswith(".modules") or not x.startswith("project.") for x in srcs) and \
        any(x.endswith("project.modules") for x in srcs)
    rep.ob("dump_modules exports project.modules only", ok, "exactly the project's own modules are exported"
           if ok else f"dump_modules iterates {srcs}: not exactly project.modules", py.nloc(dm))
    o2d = py.func("external_project.obj2dict")
    ev = astq.trace(o2d)
    first_ret = next((e for e in ev if e.kind == "return"), None)
    ok = first_ret is not None and any("external_url" in c for c in first_ret.cond_texts()) and \
        (first_ret.value is None or ast.unparse(first_ret.value) == "None") and \
        not any(e.kind == "assign" for e in ev[:ev.index(first_ret)])
    rep.ob("obj2dict skips entities that are themselves external", ok, "", py.nloc(o2d))
    def ext_atom(t):
        if isinstance(t, ast.Call) and call_name(t) == "hasattr" and len(t.args) == 2 and isinstance(t.args[1], ast.Constant) \
                and t.args[1].value == "external_url":
            return ("ext", True)
        return None

    def reads_external(e_: ast.AST, fn_) -> bool:
        return any(ast.unparse(x) == "self.external_url" for x in [e_] + astq.expand_locals(e_, fn_))
    # get_url: the first thing that can return is the recorded URL - under `hasattr(self, "external_url")`, or by simply trying
    # to read the attribute (`try: return self.external_url / except AttributeError`)
    fn = py.func("FortranBase.get_url")
    ev = astq.trace(fn)
    first_ret = next((e for e in ev if e.kind == "return"), None)
    ok = False
    if first_ret is not None and first_ret.value is not None and ast.unparse(first_ret.value) == "self.external_url":
        tested = astq.path_implies(first_ret, ext_atom, {"ext": True}) is True
        tried = any(p[0] == "try" and any(h is None or "AttributeError" in str(h) or "Exception" in str(h) for h in (p[1] or [None]))
                    for p in first_ret.protected)
        ok = tested or tried
    rep.ob("FortranBase.get_url: external_url short-circuits", ok, "an external entity's URL is its recorded external_url"
           if ok else "URL of an external entity is recomputed locally", py.nloc(fn))
    # full_url: whatever can be returned for an entity that has `external_url` is that URL (directly, or as the result of
    # get_url()) and is not prefixed with the local base URL
    fn = py.func("FortranBase.full_url")
    ev = astq.trace(fn)
    rets = [e for e in ev if e.kind == "return" and e.value is not None]
    ok = bool(rets)
    for e in rets:
        if astq.event_fires(e, ext_atom, {"ext": True}) is False:
            continue              # cannot be reached by an external entity
        alts = [e.value] + astq.expand_locals(e.value, fn)
        is_none = isinstance(e.value, ast.Constant) and e.value.value is None
        plain = any(ast.unparse(x) in ("self.external_url", "self.get_url()") for x in alts) and \
            not any("base_url" in ast.unparse(x) for x in alts)
        must_be_external = astq.path_implies(e, ext_atom, {"ext": True}) is True
        if must_be_external and not plain:
            ok = False
        if not must_be_external and not plain and not is_none:
            # reachable by both kinds: an external entity must have left earlier
            earlier = [r for r in rets if r is not e and ev.index(r) < ev.index(e) and astq.path_implies(r, ext_atom, {"ext": True}) is True]
            earlier_plain = [r for r in rets if r is not e and ev.index(r) < ev.index(e) and any(
                ast.unparse(x) in ("self.external_url", "self.get_url()") for x in [r.value] + astq.expand_locals(r.value, fn))
                and any("external_url" in c for c in r.cond_texts())]
            if not earlier and not earlier_plain:
                ok = False
    rep.ob("FortranBase.full_url: external_url short-circuits", ok, "an external entity's URL is its recorded external_url"
           if ok else "URL of an external entity is recomputed locally", py.nloc(fn))


def _slash_normalisation(fn) -> Optional[Tuple[ast.AST, str]]:
    """the statement that makes a url variable end with '/': `if url[-1] != '/': url = url + '/'`,
    `if not url.endswith('/'): url += '/'`, `url = url.rstrip('/') + '/'`"""
    for n in ast.walk(fn):
        if isinstance(n, ast.If):
            t = n.test
            neg_ends = isinstance(t, ast.UnaryOp) and isinstance(t.op, ast.Not) and isinstance(t.operand, ast.Call) and \
                isinstance(t.operand.func, ast.Attribute) and t.operand.func.attr == "endswith" and \
                [ast.unparse(a) for a in t.operand.args] == ["'/'"]
            last_ne = isinstance(t, ast.Compare) and isinstance(t.ops[0], ast.NotEq) and isinstance(t.left, ast.Subscript) and \
                ast.unparse(t.left.slice) in ("-1", "-1:") and ast.unparse(t.comparators[0]) == "'/'"
            if neg_ends or last_ne:
                var = ast.unparse(t.operand.func.value if neg_ends else t.left.value)
                for a in n.body:
                    if isinstance(a, (ast.Assign, ast.AugAssign)) and var in astq.target_names(a.targets[0] if isinstance(a, ast.Assign) else a.target) \
                            and "'/'" in ast.unparse(a.value):
                        return n, var
        if isinstance(n, ast.Assign) and isinstance(n.value, ast.BinOp) and isinstance(n.value.op, ast.Add) and \
                ast.unparse(n.value.right) == "'/'" and ".rstrip('/')" in ast.unparse(n.value.left):
            return n, ast.unparse(n.targets[0])
    return None


def r5_remote_base_url(ctx, rep):
    py = ctx.py
    fn = py.func("external_project.load_external_modules")
    norm = _slash_normalisation(fn)
    ev = astq.trace(fn, astq.class_method_resolver(py, None, "external_project"))
    calls = [e for e in ev if e.kind == "inline" and call_name(e.node) == "dict2obj"] or \
        [e for e in ev if e.kind == "call" and call_name(e.node) == "dict2obj"]
    if not calls:
        raise AnalysisError("load_external_modules: dict2obj call not found")
    d2o = py.func("external_project.dict2obj")
    for e in calls:
        b = astq.bind_args(e.node, d2o)
        arg = ast.unparse(b["url"]) if "url" in b else "?"
        ok = norm is not None and arg == norm[1] and norm[0].lineno < e.node.lineno
        rep.ob("remote base url is slash-terminated before re-basing", ok,
               "the url handed to dict2obj (urljoin base) was normalised to end with '/'" if ok else
               "dict2obj receives a remote url that was not normalised to end with '/': urljoin drops the last "
               "path segment (https://host/projA + module/x.html -> https://host/module/x.html)", py.nloc(e.node))
    joins = [e for e in ev if e.kind == "call" and call_name(e.node).split(".")[-1] == "urljoin" and e.fn is not d2o]
    for e in joins:
        base = e.text(e.node.args[0]) if e.node.args else "?"
        ok = norm is not None and base == norm[1] and (norm[0].lineno < e.node.lineno or e.depth > 0)
        rep.ob("modules.json fetched relative to the normalised url", ok, "", py.nloc(e.node))
    rec = [c for c in py.walk_calls(d2o) if call_name(c) == "dict2obj"]
    ok = len(rec) >= 2 and all(ast.unparse(astq.bind_args(c, d2o).get("url", ast.Constant(value=None))) == "url" for c in rec)
    rep.ob("dict2obj passes the same base url to nested entities", ok, "", py.nloc(d2o))


def r6_fresh_objects_and_node_urls(ctx, rep):
    py = ctx.py
    d2o = py.func("external_project.dict2obj")
    desc_param = d2o.args.args[1].arg
    ctor_vars = {t for st, v in [(n, n.value) for n in ast.walk(d2o) if isinstance(n, ast.Assign)]
                 if isinstance(v, ast.Call) and isinstance(v.func, ast.Subscript) and ast.unparse(v.func.value) == "ENTITIES"
                 for t in astq.target_names(st.targets[0])}
    if not ctor_vars:
        raise AnalysisError("dict2obj: `x = ENTITIES[...](...)` not found")
    rets = [r for r in astq.returns(d2o)]
    foreign = [ast.unparse(r) for r in rets if not (isinstance(r, ast.Name) and (r.id in ctor_vars or r.id == desc_param))]
    ok = not foreign and any(isinstance(r, ast.Name) and r.id in ctor_vars for r in rets)
    rep.ob("dict2obj builds one fresh object per exported entity", ok,
           "every entry of modules.json becomes its own object carrying its own URL" if ok else
           f"dict2obj also returns {sorted(set(foreign))}: an entry can be replaced by a previously registered object of the same "
           f"name, so a type/procedure that exists in two modules of the other project is linked to the wrong page",
           py.nloc(d2o))
    apps = [c for c in py.walk_calls(d2o) if isinstance(c.func, ast.Attribute) and c.func.attr == "append" and c.args
            and isinstance(c.args[0], ast.Name) and c.args[0].id in ctor_vars
            and any("_project_list" in ast.unparse(e) for e in astq.expand_locals(c.func.value, d2o))]
    par = astq.parents_of(d2o)
    ok = bool(apps) and not astq.conditions_of(apps[0], par, stop=d2o)
    rep.ob("every external object is registered in its project list", ok, "", py.nloc(d2o))
    # graph nodes: URLs of external entities (remote or local path) are used as they are
    bn = py.ifunc("BaseNode.__init__")
    ev = astq.trace(bn)
    url_asg = [e for e in ev if e.kind == "assign" and e.target and "URL" in e.target and "attribs" in e.target and e.value is not None]
    if not url_asg:
        raise AnalysisError("BaseNode.__init__: no assignment of attribs['URL'] found")
    # every value the URL can take, with the conditions under which it takes it (conditional expressions and hoisted locals
    # are resolved): the raw form `self.url` vs. a re-based form `<prefix> + self.url`
    cases = []
    for e in url_asg:
        for val, cs in astq.alternatives(e.value, bn):
            conds = e.cond_texts_x(bn) + [(ast.unparse(t) if pol else f"not ({ast.unparse(t)})") for t, pol in cs]
            cases.append((ast.unparse(val) == "self.url", conds, e))
    raw = [c for c in cases if c[0]]
    based = [c for c in cases if not c[0]]
    if not raw or not based:
        raise AnalysisError("BaseNode.__init__: expected a raw and a re-based form of the node URL")

    def says_external(conds: List[str], positive: bool) -> bool:
        for c in conds:
            neg = c.startswith("not (")
            if ("external_url" in c or "External" in c) and (neg != positive):
                return True
        return False
    ok = all(says_external(c[1], True) for c in raw) or all(says_external(c[1], False) for c in based)
    rep.ob("graph node URL of an external entity is not re-based", ok,
           "external entities (hasattr external_url) take the URL as recorded" if ok else
           f"the raw-URL form is selected by {raw[0][1][-1:]}: an external project given by a local path has a "
           f"file-system URL, which then gets the '../' prefix of local pages and points nowhere", py.nloc(raw[0][2].node))


STR_CALLS = {"str", "urljoin", "format", "join", "as_posix", "fspath"}
PATH_CALLS = {"Path", "resolve", "joinpath", "absolute", "expanduser", "PurePath", "PosixPath"}


def expr_type(e: ast.AST, py=None, fn=None) -> str:
    """'str' | 'path' | 'json' (value taken out of the JSON dictionary) | '?'"""
    if isinstance(e, ast.JoinedStr) or (isinstance(e, ast.Constant) and isinstance(e.value, str)):
        return "str"
    if isinstance(e, ast.Call):
        last = call_name(e).split(".")[-1]
        if last in STR_CALLS:
            return "str"
        if last in PATH_CALLS:
            return "path"
    if isinstance(e, ast.BinOp) and isinstance(e.op, ast.Div):
        return "path"                              # the only `/` on URLs in this module is pathlib's
    if isinstance(e, ast.BinOp) and isinstance(e.op, (ast.Add, ast.Mod)):
        return "str"
    if isinstance(e, ast.Subscript) or (isinstance(e, ast.Call) and call_name(e).endswith(".get")):
        return "json"
    if isinstance(e, ast.IfExp):
        a, b = expr_type(e.body, py, fn), expr_type(e.orelse, py, fn)
        return a if a == b else ("str" if {a, b} <= {"str", "json"} else "?" if "?" in (a, b) else "path")
    if py is not None and isinstance(e, ast.Call) and isinstance(e.func, ast.Name) and f"external_project.{e.func.id}" in py.functions:
        # a helper of this module: every returned expression must have the same kind
        h = py.functions[f"external_project.{e.func.id}"]
        kinds = {expr_type(r, py, h) for r in astq.returns(h)}
        if len(kinds) == 1:
            return kinds.pop()
        if kinds and kinds <= {"str", "json"}:
            return "str"
        return "path" if "path" in kinds else "?"
    if fn is not None and isinstance(e, ast.Name):
        vals = [v for _, v in astq.assignments(fn, e.id) if v is not None]
        kinds = {expr_type(v, py, None) for v in vals}
        if len(kinds) == 1:
            return kinds.pop()
    return "?"


def r7_url_types(ctx, rep):
    """The URL of an external entity is consumed with str methods (the [[name]] processor calls .startswith, templates
    print it): every value dict2obj passes to the Ext* constructor is a str (or the JSON value itself).  The base
    handed to modules_from_local is joined with `/`: it is a Path on every path through the local branch."""
    py = ctx.py
    d2o = py.func("external_project.dict2obj")
    ctor = [c for c in py.walk_calls(d2o) if isinstance(c.func, ast.Subscript) and ast.unparse(c.func.value) == "ENTITIES"]
    if len(ctor) != 1 or len(ctor[0].args) < 2 or not isinstance(ctor[0].args[1], ast.Name):
        raise AnalysisError("dict2obj: ENTITIES[...](name, <url var>, parent) not found")
    var = ctor[0].args[1].id
    asg = [n for n in ast.walk(d2o) if isinstance(n, ast.Assign) and any(isinstance(t, ast.Name) and t.id == var for t in n.targets)]
    if not asg:
        raise AnalysisError(f"dict2obj: no assignment to {var}")
    for a in asg:
        t = expr_type(a.value, py, d2o)
        ok = t in ("str", "json")
        rep.ob(f"dict2obj: `{var} = {ast.unparse(a.value)}` is a str", ok,
               f"value kind {t}" if ok else
               f"the external URL is a {t} object: [[name]] references to this entity fail with \"'PosixPath' object has no "
               f"attribute 'startswith'\" and the run aborts", py.nloc(a))
    fn = py.func("external_project.load_external_modules")
    calls = [c for c in py.walk_calls(fn) if call_name(c) == "modules_from_local"]
    if len(calls) != 1 or not isinstance(calls[0].args[0], ast.Name):
        raise AnalysisError("load_external_modules: modules_from_local(<var>) not found")
    v = calls[0].args[0].id
    # the statement list that contains the call, and the assignments to v that precede it in this list
    parents = {}
    for n in ast.walk(fn):
        for c in ast.iter_child_nodes(n):
            parents[c] = n
    st = calls[0]
    while not isinstance(st, ast.stmt):
        st = parents[st]
    owner = parents[st]
    body = next(b for b in (getattr(owner, f, None) for f in ("body", "orelse", "finalbody")) if isinstance(b, list) and st in b)
    typ = "str"                                     # project.external values are strings
    where = st
    for s2 in body[: body.index(st) + 1]:
        if isinstance(s2, ast.Assign) and any(isinstance(t, ast.Name) and t.id == v for t in s2.targets):
            typ, where = expr_type(s2.value), s2
        elif any(isinstance(n, ast.Assign) and any(isinstance(t, ast.Name) and t.id == v for t in n.targets) for n in ast.walk(s2)):
            # conditional conversion: the other path keeps the previous type
            inner = [n for n in ast.walk(s2) if isinstance(n, ast.Assign) and any(isinstance(t, ast.Name) and t.id == v for t in n.targets)]
            has_else = isinstance(s2, ast.If) and bool(s2.orelse) and any(
                isinstance(n, ast.Assign) and any(isinstance(t, ast.Name) and t.id == v for t in n.targets)
                for o in s2.orelse for n in ast.walk(o))
            if not (has_else and all(expr_type(n.value) == "path" for n in inner)):
                if typ != "path":
                    typ, where = f"path only if `{ast.unparse(s2.test) if isinstance(s2, ast.If) else '...'}`", s2
            else:
                typ, where = "path", s2
    ok = typ == "path"
    rep.ob(f"load_external_modules: modules_from_local({v}) receives a Path on every path", ok,
           "converted unconditionally in the local branch" if ok else
           f"`{v}` is {typ}; otherwise it is still the configured string and `url / 'modules.json'` raises TypeError, "
           f"which the handler does not cover: an absolute local path aborts the run", py.nloc(where))



def r8_use_over_host(ctx, rep):
    """an external entity reaches a scope through USE: use association must override host association in the scope
    tables (shared with C07.R2), otherwise a same-named entity of the host is linked instead"""
    from . import c07
    c07.r2_innermost_wins(ctx, rep, only_use=True)


def r9_ident_key(ctx, rep):
    """the export must not identify entities by `ident` alone (shared with C10.R6): a type and its constructor interface
    share it, and one would replace the other in modules.json"""
    from . import c10
    c10.r6_ident_not_a_key(ctx, rep)

def r10_cached_description(ctx, rep):
    """the external project's description is not handed out from a cache and then edited in place (generic rule
    `cached_mutable_result`)"""
    from . import common
    common.cached_mutable_result(ctx, rep)


def r11_names_compared_case_insensitively(ctx, rep):
    """a binding that the project's own type overrides replaces the inherited (external) one whatever the capitalisation (generic
    rule `mixed_case_name_comparisons`)"""
    n = common.mixed_case_name_comparisons(ctx, rep)
    if n < 50:
        raise AnalysisError("entity modules not inspected")


def r12_flags_survive_the_round_trip(ctx, rep):
    """An attribute that is a flag (`deferred`, `generic`: assigned True / False in the entity classes) is exported to modules.json
    and read back by the project that links to it, where templates test it (`{% if tb.deferred %}`).  If the writer turns every
    scalar into text (`str(value)`) the reader gets the *string* "False", which is true: every inherited external binding is shown
    as `deferred, generic`.  Either the writer keeps booleans, or the reader converts them back."""
    py = ctx.py
    attrs = const_list(py, "external_project", "ATTRIBUTES")
    flags = sorted(a for a in attrs if any(
        isinstance(n, ast.Assign) and any(isinstance(t, ast.Attribute) and t.attr == a and ast.unparse(t.value) == "self" for t in n.targets)
        and isinstance(n.value, ast.Constant) and isinstance(n.value.value, bool)
        for _m, fn in py.all_functions() if _m == "sourceform" for n in ast.walk(fn)))
    if not flags:
        rep.ob("exported flags keep their truth value", True, "no boolean attribute is exported", "ford/external_project.py", nontrivial=False)
        return
    o2d, d2o = py.func("external_project.obj2dict"), py.func("external_project.dict2obj")
    # the writer's store of a scalar attribute value
    stores = [e for e in astq.trace(o2d) if e.kind == "assign" and e.target and "[" in e.target and e.value is not None
              and isinstance(e.value, ast.Call) and call_name(e.value) in ("str", "repr") and e.loops]
    stringifies = bool(stores) and not any(
        isinstance(c, ast.Call) and call_name(c) == "isinstance" and any(isinstance(x, ast.Name) and x.id == "bool" for x in ast.walk(c))
        for t, _p, _s in stores[0].conds for c in ast.walk(t))
    reader_converts = any(isinstance(c, ast.Constant) and c.value in ("True", "False", "true", "false") for c in ast.walk(d2o))
    ok = not stringifies or reader_converts
    rep.ob(f"exported flags {flags} keep their truth value", ok,
           "booleans are written as booleans (or converted back when read)" if ok else
           f"obj2dict writes `{ast.unparse(stores[0].value)}` for every scalar attribute - also for the flags {flags} - and dict2obj "
           f"stores what it reads: the linking project sees the string 'False', which is true, and shows every external binding as "
           f"{' and '.join(flags)}", py.nloc(stores[0].node) if stores else py.nloc(o2d))


def _written_link_language(py, rx):
    """the language of `str(entity)` for a linked entity, read off the f-string in FortranBase.__str__: constant parts literally, a
    slot that sits between quotes is anything but that quote, any other slot is any text (names contain `<`, `>`, blanks:
    `operator(>)`, `<em>unnamed</em>`)"""
    fn = py.func("FortranBase.__str__")
    out = []
    for r in astq.returns(fn):
        for j in ast.walk(r):
            if isinstance(j, ast.JoinedStr) and any(isinstance(v, ast.Constant) and "<a" in str(v.value) for v in j.values):
                parts, prev = [], ""
                for v in j.values:
                    if isinstance(v, ast.Constant):
                        parts.append(rx.lit(str(v.value)))
                        prev = str(v.value)
                    else:
                        q = prev[-1:] if prev[-1:] in ("'", '"') else ""
                        parts.append(rx.plus(rx.chars(rx.UNIVERSE - {q, "\n"})) if q else rx.star(rx.chars(rx.UNIVERSE - {"\n"})))
                out.append((rx.cats(*parts), j))
    return out


def r13_written_links_are_read_back(ctx, rep):
    """Graph nodes of external entities are made from `str(entity)` - the `<a href='URL'>name</a>` text - and BaseNode takes URL and
    name back out of it with a pattern.  Writer and reader must agree: every text the writer can produce is matched, whatever the
    URL contains (the URL of a project given by a local path is a file-system path: blanks, `>`), or the node keeps the markup as
    its name, has no link, and graphviz may reject the label and end the run.  Decided as a language inclusion."""
    py, rx = ctx.py, ctx.rx
    bn = py.ifunc("BaseNode.__init__")
    written = _written_link_language(py, rx)
    if not written:
        raise AnalysisError("FortranBase.__str__: the link text was not found")
    readers = []
    for c in ast.walk(bn):
        if isinstance(c, ast.Call) and isinstance(c.func, ast.Attribute) and c.func.attr in ("match", "fullmatch", "search") and \
                isinstance(c.func.value, ast.Name) and c.args and isinstance(c.args[0], ast.Name) and c.args[0].id == "obj":
            key = next((k for k in ctx.regexes if k.split(".")[-1] == c.func.value.id and k.startswith("graphs.")), None)
            if key is not None:
                readers.append((key, c))
    if not readers:
        raise AnalysisError("BaseNode.__init__: no pattern is applied to the entity text")
    for key, c in readers:
        pat, flags, node, _ = ctx.regexes[key]
        try:
            lang = {"match": rx.match_lang, "fullmatch": rx.full, "search": rx.search_lang}[c.func.attr](pat, flags)
            for w_lang, j in written:
                w = rx.subset_witness(w_lang, lang)
                rep.ob(f"{key} reads back every link FortranBase.__str__ writes", w is None,
                       f"L({ast.unparse(j)[:50]}) is included in L({key})" if w is None else
                       f"`{w}` is written for an entity but not matched: the node of an external entity whose URL looks like this "
                       f"keeps the whole markup as its name and has no link", py.nloc(node))
        except (rx.Unsupported, rx.Budget) as e:
            raise AnalysisError(f"{key}: {e}")


def r14_paths_resolved(ctx, rep):
    """local paths of external projects are normalised like every other path (shared with C19.R3)"""
    from . import c19
    c19.r3_resolved_paths(ctx, rep)


def r15_defaults_do_not_overwrite(ctx, rep):
    """built-in module links are merged under the configured ones, after validation (shared with C15.R16)"""
    from . import c15
    c15.r16_defaults_do_not_overwrite(ctx, rep)


RULES = [
    RuleSpec("C16.R6", r6_fresh_objects_and_node_urls, "one object per exported entity; external node URLs unchanged", floor=1),
    RuleSpec("C16.R1", r1_error_coverage, "exception coverage of the external load path", floor=5),
    RuleSpec("C16.R2", r2_tables_agree, "export/import tables agree", floor=9),
    RuleSpec("C16.R3", r3_local_precedence, "local entities take precedence over external ones", floor=1),
    RuleSpec("C16.R4", r4_export_scope, "export scope and external_url short-circuit", floor=2),
    RuleSpec("C16.R5", r5_remote_base_url, "remote base URL normalised before urljoin", floor=1),
    RuleSpec("C16.R7", r7_url_types, "external URLs are strings; the local base is a Path", floor=2),
    RuleSpec("C16.R8", r8_use_over_host, "use association overrides host association (shared with C07.R2)", floor=4),
    RuleSpec("C16.R9", r9_ident_key, "entities are not identified by ident alone (shared with C10.R6)", floor=1),
    RuleSpec("C16.R10", r10_cached_description, "memoised loaders do not share containers that callers edit", floor=1),
    RuleSpec("C16.R11", r11_names_compared_case_insensitively, "names are lower-cased on both sides of a comparison", floor=1),
    RuleSpec("C16.R12", r12_flags_survive_the_round_trip, "boolean attributes survive export and re-import", floor=1),
    RuleSpec("C16.R13", r13_written_links_are_read_back, "the link text of an entity is read back by the graph nodes (language inclusion)", floor=1),
    RuleSpec("C16.R14", r14_paths_resolved, "local paths of external projects are normalised like every other path (shared with C19.R3)", floor=1),
    RuleSpec("C16.R15", r15_defaults_do_not_overwrite, "built-in module links are merged under the configured ones, after validation (shared with C15.R16)", floor=1),
]
